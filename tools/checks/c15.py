"""C15 Unsupported or invalid database headers are refused, valid ones accepted.

(M) MC_Header: TLC classifies every single-byte patch (offset x value) of a valid header for each legal page size.
(A)/(B) every patch is applied to valid files written by SQLite (one per page-size encoding), at open and between two
    reads of a long-lived handle with warm caches; every public read entry point is exercised; TLC judges the outcome
    (accepted / rejected / other) and the header parser's own answer against Header.tla.  Real WAL (with unmerged
    frames), UTF-16le/be and legacy-format databases written by SQLite are included.
"""
import json, os, random, shutil, sqlite3
from vlib import common, values, gen
from vlib.common import Infra

ALL_SIZES = [512, 1024, 2048, 4096, 8192, 16384, 32768, 65536]
KEY_OFFSETS = list(range(16, 24)) + list(range(44, 48)) + list(range(56, 60))


def base_db(path, ps):
    con = gen.connect(path, ps)
    con.execute("CREATE TABLE t(id INTEGER PRIMARY KEY, a, b TEXT)")
    con.execute("CREATE INDEX ta ON t(a)")
    con.execute("CREATE TABLE w(k TEXT PRIMARY KEY, v) WITHOUT ROWID")
    for i in range(12):
        con.execute("INSERT INTO t VALUES(?,?,?)", (i + 1, i * 7 % 5, "row%d" % i))
        con.execute("INSERT INTO w VALUES(?,?)", ("k%d" % i, i))
    con.execute("PRAGMA user_version=77")
    con.close()


READ_OPS = [
    {"op": "tables"},
    {"op": "select", "table": "t", "cols": ["id", "a", "b"]},
    {"op": "select", "table": "w", "cols": ["k", "v"]},
    {"op": "indexed_select", "table": "t", "index": "ta", "cols": ["id", "a"]},
    {"op": "select_rowid", "table": "t", "rowid": "3", "cols": ["b"]},
    {"op": "pk_select", "table": "w", "key": [["t", "6b33"]], "cols": ["v"]},
    {"op": "columns", "table": "t"},
    {"op": "table_scan", "table": "t"},
    {"op": "index_scan", "index": "ta"},
    {"op": "rowid", "table": "t", "rowid": "5"},
    {"op": "scan_eq", "index": "ta", "dbkey": [{"v": ["i", "2"], "coll": "", "desc": False}]},
    {"op": "schema", "table": "t"},
]


LOW_OPS = [o for o in READ_OPS if o["op"] in ("tables", "table_scan", "index_scan", "rowid", "scan_eq", "schema")]
# the same scans through *Table / *Index objects obtained in an EARLIER transaction of the handle: nothing but the scan
# itself touches the database in the new transaction
LOW_REUSE = [dict(o, reuse=True) for o in READ_OPS if o["op"] in ("table_scan", "index_scan", "rowid", "scan_eq")]


def summarize(results):
    """(error?, rows/extra digest) per op"""
    out = []
    for r in results:
        out.append((bool(r.get("err") or r.get("panic")), json.dumps([r.get("rows"), r.get("extra"), r.get("found")], sort_keys=True),
                    r.get("n", 0) + len(r.get("rows") or []), r.get("panic")))
    return out


def outcome(res, base):
    if all(e and n == 0 for e, _, n, _ in res):
        return "rejected"
    if all((not e) and d == bd for (e, d, n, _), (_, bd, _, _) in zip(res, base)):
        return "accepted"
    return "other"


def u32pair(s):
    n = int(s)
    return [n >> 16, n & 0xFFFF]


def patches(tier, rnd, hdr):
    out = []
    for off in range(100):
        if tier == "thorough" or off in KEY_OFFSETS:
            vals = range(256)
        else:
            vals = sorted({0, 1, 2, 3, 4, 5, 32, 64, 127, 128, 255, (hdr[off] + 1) % 256, (hdr[off] - 1) % 256, rnd.randrange(256)})
        for val in vals:
            if val != hdr[off]:
                out.append((off, val))
    return out


def special_files(d):
    """databases real SQLite wrote that sqlittle must refuse (or may refuse)"""
    out = []
    p = os.path.join(d, "wal.db")
    con = gen.connect(p, 4096)
    con.execute("CREATE TABLE t(id INTEGER PRIMARY KEY, a, b TEXT)")
    con.execute("INSERT INTO t VALUES(1, 1, 'one')")
    con.execute("PRAGMA journal_mode=WAL")
    con.execute("PRAGMA wal_autocheckpoint=0")
    for i in range(2, 30):
        con.execute("INSERT INTO t VALUES(?,?,?)", (i, i, "in the wal only %d" % i))
    # keep the connection open while copying: the rows above live only in the -wal file
    for suffix in ("", "-wal", "-shm"):
        shutil.copy(p + suffix, os.path.join(d, "walcopy.db" + suffix))
    con.close()
    out.append(("wal-unmerged", os.path.join(d, "walcopy.db")))
    for enc in ("UTF-16le", "UTF-16be"):
        p = os.path.join(d, enc + ".db")
        if os.path.exists(p):
            os.unlink(p)
        con = sqlite3.connect(p, isolation_level=None)
        con.execute("PRAGMA encoding='%s'" % enc)
        con.execute("CREATE TABLE t(id INTEGER PRIMARY KEY, a, b TEXT)")
        con.execute("INSERT INTO t VALUES(1, 1, 'one')")
        con.close()
        out.append((enc, p))
    p = os.path.join(d, "legacy.db")
    if os.path.exists(p):
        os.unlink(p)
    con = sqlite3.connect(p, isolation_level=None)
    con.execute("PRAGMA legacy_file_format=ON")
    con.execute("CREATE TABLE t(id INTEGER PRIMARY KEY, a, b TEXT)")
    con.execute("INSERT INTO t VALUES(1, 1, 'one')")
    con.close()
    out.append(("legacy-format", p))
    return out


def run(tier):
    v = common.Verdict("C15", tier)
    rnd = random.Random(common.seed())
    r = common.tlc("MC_Header", workers=8, timeout=600, name="mcheader")
    common.tlc_require_ok(r, "MC_Header")
    v.add_tlc(r)
    h = common.build_harness()
    d = common.sub("c15")
    sizes = [512, 4096, 65536] if tier == "quick" else ALL_SIZES
    events, info = [], []
    parse_reqs = []
    nexp = 0
    for ps in sizes:
        path = os.path.join(d, "base%d.db" % ps)
        base_db(path, ps)
        hdr = open(path, "rb").read(100)
        # the valid file itself, as SQLite wrote it: refused or misread = the property is broken for this page size (the
        # patch experiments on it are skipped, the header goes to TLC as it is with what was observed)
        preq, pout = os.path.join(d, "pre-req.ndjson"), os.path.join(d, "pre-res.ndjson")
        common.write_ndjson(preq, [{"db": path, "mode": "fresh", "ops": [dict(o_, id=i_) for i_, o_ in enumerate(READ_OPS)]}])
        rc, txt, _ = common.run([h, "ops", preq, pout], timeout=300)
        if rc != 0:
            raise common.harness_failure(txt)
        pre = summarize(common.read_ndjson(pout))
        if any(e for e, _, _, _ in pre):
            events.append({"h": list(hdr), "basePageSize": ps, "outcome": "rejected" if all(e and n == 0 for e, _, n, _ in pre) else "other", "mode": "open"})
            info.append({"page_size": ps, "off": 16, "val": hdr[16], "mode": "valid-file-as-written", "outcome": events[-1]["outcome"]})
            parse_reqs.append({"op": "header", "hex": bytes(hdr).hex(), "id": len(parse_reqs)})
            nexp += 1
            continue
        plist = patches(tier, rnd, hdr)
        if tier == "quick" and ps != 4096:
            # the full patch set on one size, the page-size / key fields on the others
            plist = [p for p in plist if p[0] in KEY_OFFSETS or rnd.random() < 0.12]
        # "cold": a handle that was opened on the valid file and has not read anything yet when the header turns
        # unsupported -- its FIRST transaction must already refuse (one handle per patch)
        cold_sel = [p for p in plist if p[0] in KEY_OFFSETS and (tier == "thorough" or p[1] % 7 == 0 or p[1] < 4)]
        cbatches, cmarks, cid = [], [], 0
        for off, val in cold_sel:
            kind = "hl" if (off + val) % 2 == 0 else "low"
            # "noop" opens the handle (on the valid file); only then the header changes
            bops = [{"op": "noop", "id": cid}, {"op": "patch", "off": off, "hex": "%02x" % val, "id": cid + 1}]
            cid += 2
            ids = []
            if kind == "hl":
                for o in READ_OPS:
                    bops.append(dict(o, id=cid))
                    ids.append(cid)
                    cid += 1
            else:
                bops.append({"op": "rlock", "id": cid})
                cid += 1
                for o in LOW_OPS:
                    bops.append(dict(o, no_lock=True, id=cid))
                    ids.append(cid)
                    cid += 1
                bops.append({"op": "runlock", "id": cid})
                cid += 1
            bops.append({"op": "patch", "off": off, "hex": "%02x" % hdr[off], "id": cid})
            cid += 1
            cbatches.append({"db": path, "mode": "keep", "ops": bops})
            cmarks.append((off, val, ids, kind))
        if cbatches:
            req, out = os.path.join(d, "creq.ndjson"), os.path.join(d, "cres.ndjson")
            common.write_ndjson(req, cbatches)
            rc, txt, _ = common.run([h, "ops", req, out], timeout=3000)
            if rc != 0:
                raise common.harness_failure(txt)
            cres = {x["id"]: x for x in common.read_ndjson(out)}
            if open(path, "rb").read(100) != hdr:
                raise Infra("base header not restored (cold)")
            # the reference: the same operations on the valid file, fresh handle
            req, out = os.path.join(d, "cbreq.ndjson"), os.path.join(d, "cbres.ndjson")
            nb = len(READ_OPS)
            common.write_ndjson(req, [{"db": path, "mode": "keep", "ops": [dict(o, id=i) for i, o in enumerate(READ_OPS)]},
                                      {"db": path, "mode": "keep", "ops": [{"op": "rlock", "id": nb}] + [dict(o, no_lock=True, id=nb + 1 + i) for i, o in enumerate(LOW_OPS)] +
                                       [{"op": "runlock", "id": nb + 1 + len(LOW_OPS)}]}])
            rc, txt, _ = common.run([h, "ops", req, out], timeout=600)
            if rc != 0:
                raise common.harness_failure(txt)
            bres = {x["id"]: x for x in common.read_ndjson(out)}
            cbase = {"hl": summarize([bres[i] for i in range(nb)]), "low": summarize([bres[nb + 1 + i] for i in range(len(LOW_OPS))])}
            if any(e for e, _, _, _ in cbase["hl"] + cbase["low"]):
                raise Infra("baseline read (cold reference) failed")
            for off, val, ids, kind in cmarks:
                rs = summarize([cres[i] for i in ids])
                hh = bytearray(hdr)
                hh[off] = val
                pan = [p for _, _, _, p in rs if p]
                if pan:
                    v.report("C15:panic:off=%d" % off, "panic with header byte %d = %d: %s" % (off, val, pan[0]),
                             lambda: common.write_replay("C15", "panic-%d-%d.json" % (off, val), {"page_size": ps, "off": off, "val": val}))
                events.append({"h": list(hh), "basePageSize": ps, "outcome": outcome(rs, cbase[kind]), "mode": "reread"})
                info.append({"page_size": ps, "off": off, "val": val, "mode": "cold-" + kind, "outcome": events[-1]["outcome"]})
                parse_reqs.append({"op": "header", "hex": bytes(hh).hex(), "id": len(parse_reqs)})
                v.nontrivial((ps, off, val if off in KEY_OFFSETS else -1, "cold"))
                nexp += 1
        for mode in ("open", "reread"):
            ops, marks = [], []
            nid = 0

            def add(op):
                nonlocal nid
                o = dict(op, id=nid)
                nid += 1
                ops.append(o)
                return o["id"]
            first = [add(o) for o in READ_OPS]          # baseline (and cache warm-up for the long-lived handle)
            add({"op": "rlock"})
            first_low = [add(dict(o, no_lock=True)) for o in LOW_OPS]
            add({"op": "runlock"})
            add({"op": "rlock"})
            first_reuse = [add(dict(o, no_lock=True)) for o in LOW_REUSE]
            add({"op": "runlock"})
            sel = plist if mode == "open" else [p for p in plist if p[0] in KEY_OFFSETS and (tier == "thorough" or p[1] % 5 == 0 or p[1] < 6)]
            for n, (off, val) in enumerate(sel):
                add({"op": "patch", "off": off, "hex": "%02x" % val})
                if False and mode == "reread" and n % 4 == 3:
                    # (not used any more: LOWLEVEL.md says a *Table / *Index is invalid after RUnlock, so a transaction that
                    # starts with a scan through a kept object is outside documented use; the code is kept for reference)
                    # a transaction that starts with a scan through an object kept from an earlier transaction
                    k0 = n // 4
                    order = LOW_REUSE[k0 % len(LOW_REUSE):] + LOW_REUSE[:k0 % len(LOW_REUSE)]
                    add({"op": "rlock"})
                    ids = [add(dict(o, no_lock=True)) for o in order]
                    add({"op": "runlock"})
                    add({"op": "patch", "off": off, "hex": "%02x" % hdr[off]})
                    marks.append((off, val, ids, "reuse%d" % (k0 % len(LOW_REUSE))))
                    continue
                if mode == "reread" and n % 2 == 1:
                    # one explicit low level transaction: every operation inside it must be refused, not only the first
                    add({"op": "rlock"})
                    ids = [add(dict(o, no_lock=True)) for o in LOW_OPS]
                    add({"op": "runlock"})
                    add({"op": "patch", "off": off, "hex": "%02x" % hdr[off]})
                    marks.append((off, val, ids, "txn"))
                    continue
                ids = [add(o) for o in READ_OPS]
                add({"op": "patch", "off": off, "hex": "%02x" % hdr[off]})
                marks.append((off, val, ids, "ops"))
            req, out = os.path.join(d, "req.ndjson"), os.path.join(d, "res.ndjson")
            common.write_ndjson(req, [{"db": path, "mode": "fresh" if mode == "open" else "keep", "ops": ops}])
            rc, txt, _ = common.run([h, "ops", req, out], timeout=3000)
            if rc != 0:
                raise common.harness_failure(txt)
            res = {x["id"]: x for x in common.read_ndjson(out)}
            base = summarize([res[i] for i in first])
            if any(e for e, _, _, _ in base):
                raise Infra("baseline read of %s failed: %r" % (path, [res[i].get("err") for i in first]))
            if open(path, "rb").read(100) != hdr:
                raise Infra("base header not restored")
            base_low = summarize([res[i] for i in first_low])
            base_reuse = summarize([res[i] for i in first_reuse])
            if any(e for e, _, _, _ in base_reuse):
                raise Infra("baseline read through kept objects failed: %r" % [res[i].get("err") for i in first_reuse])
            for off, val, ids, kind in marks:
                rs = summarize([res[i] for i in ids])
                if kind.startswith("reuse"):
                    k0 = int(kind[5:])
                    base_ = base_reuse[k0:] + base_reuse[:k0]
                else:
                    base_ = base_low if kind == "txn" else base
                hh = bytearray(hdr)
                hh[off] = val
                pan = [p for _, _, _, p in rs if p]
                if pan:
                    v.report("C15:panic:off=%d" % off, "panic with header byte %d = %d: %s" % (off, val, pan[0]),
                             lambda: common.write_replay("C15", "panic-%d-%d.json" % (off, val), {"page_size": ps, "off": off, "val": val}))
                events.append({"h": list(hh), "basePageSize": ps, "outcome": outcome(rs, base_), "mode": mode})
                info.append({"page_size": ps, "off": off, "val": val, "mode": mode, "outcome": events[-1]["outcome"]})
                parse_reqs.append({"op": "header", "hex": bytes(hh).hex(), "id": len(parse_reqs)})
                v.nontrivial((ps, off, val if off in KEY_OFFSETS else -1, mode))
                nexp += 1
    # a long-lived handle whose file is rebuilt with ANOTHER legal page size by a real SQLite connection (VACUUM): every
    # re-read of the header must take the new page size along; the rows stay the same
    vpath = os.path.join(d, "vacuum.db")
    base_db(vpath, 4096)
    vops, vmarks = [], []
    vid = 0

    def vadd(op):
        nonlocal vid
        o_ = dict(op, id=vid)
        vid += 1
        vops.append(o_)
        return o_["id"]
    vfirst = [vadd(o_) for o_ in READ_OPS]
    vcode = ("import sqlite3, sys\np, ps = sys.argv[1], sys.argv[2]\nc = sqlite3.connect(p, isolation_level=None)\n"
             "c.execute('PRAGMA page_size=' + ps)\nc.execute('VACUUM')\nc.close()\nopen(p + '.hdr' + ps, 'wb').write(open(p, 'rb').read(100))\n")
    for j, ps2 in enumerate((1024, 8192, 512, 65536, 2048) if tier == "quick" else (1024, 8192, 512, 65536, 2048, 32768, 4096, 16384, 512, 65536, 1024)):
        vadd({"op": "exec", "args": [common.PYTHON, "-c", vcode, vpath, str(ps2)]})
        if j % 2 == 0:
            ids = [vadd(o_) for o_ in READ_OPS]
            kind = "ops"
        else:
            vadd({"op": "rlock"})
            ids = [vadd(dict(o_, no_lock=True)) for o_ in LOW_OPS]
            vadd({"op": "runlock"})
            kind = "txn"
        vmarks.append((ps2, ids, kind, j))
    vreq, vout = os.path.join(d, "vreq.ndjson"), os.path.join(d, "vres.ndjson")
    common.write_ndjson(vreq, [{"db": vpath, "mode": "keep", "ops": vops}])
    rc, txt, _ = common.run([h, "ops", vreq, vout], timeout=600)
    if rc != 0:
        raise common.harness_failure(txt)
    vres = {x["id"]: x for x in common.read_ndjson(vout)}
    for o_ in vops:
        if o_["op"] == "exec" and vres[o_["id"]].get("err"):
            raise Infra("VACUUM step failed: %r" % vres[o_["id"]].get("err"))
    vbase = summarize([vres[i] for i in vfirst])
    if any(e for e, _, _, _ in vbase):
        raise Infra("baseline read of the vacuum file failed")
    low_idx = [i for i, o_ in enumerate(READ_OPS) if o_ in LOW_OPS]
    for ps2, ids, kind, j in vmarks:
        rs = summarize([vres[i] for i in ids])
        base_ = vbase if kind == "ops" else [vbase[i] for i in low_idx]
        hh = open(vpath + ".hdr%d" % ps2, "rb").read(100)
        events.append({"h": list(hh), "basePageSize": ps2, "outcome": outcome(rs, base_), "mode": "reread"})
        info.append({"page_size": ps2, "off": 16, "val": hh[16], "mode": "vacuum-to-%d-%s" % (ps2, kind), "outcome": events[-1]["outcome"]})
        parse_reqs.append({"op": "header", "hex": bytes(hh).hex(), "id": len(parse_reqs)})
        v.nontrivial(("vacuum", ps2, kind))
        nexp += 1
    # files written by SQLite itself
    for tag, path in special_files(d):
        req, out = os.path.join(d, "sreq.ndjson"), os.path.join(d, "sres.ndjson")
        ops = [dict(o, id=i) for i, o in enumerate(READ_OPS[:2] + READ_OPS[6:8])]
        common.write_ndjson(req, [{"db": path, "mode": "fresh", "ops": ops}])
        rc, txt, _ = common.run([h, "ops", req, out], timeout=300)
        if rc != 0:
            raise common.harness_failure(txt)
        res = common.read_ndjson(out)
        rs = summarize(res)
        oc = "rejected" if all(e and n == 0 for e, _, n, _ in rs) else "other"
        if oc == "other" and tag == "legacy-format" and not any(e for e, _, _, _ in rs):
            oc = "accepted"
        hdr = open(path, "rb").read(100)
        ps = int.from_bytes(hdr[16:18], "big")
        events.append({"h": list(hdr), "basePageSize": 65536 if ps == 1 else ps, "outcome": oc, "mode": "open"})
        info.append({"file": tag, "outcome": oc, "mode": "open", "errors": [r.get("err") for r in res]})
        parse_reqs.append({"op": "header", "hex": hdr.hex(), "id": len(parse_reqs)})
        v.nontrivial(("file", tag))
    # the parser alone on every header
    inp, outp = os.path.join(d, "preq.ndjson"), os.path.join(d, "pres.ndjson")
    common.write_ndjson(inp, parse_reqs)
    rc, txt, _ = common.run([h, "calls", inp, outp], timeout=600)
    if rc != 0:
        raise common.harness_failure(txt, "harness calls")
    pres = common.read_ndjson(outp)
    for ev, pr in zip(events, pres):
        x = pr.get("res") or {}
        if pr.get("panic"):
            ev["parsed"] = {"ok": True, "ps": -1, "cc": [0, 0], "sc": [0, 0]}
        elif x.get("ok"):
            ev["parsed"] = {"ok": True, "ps": x["ps"], "cc": u32pair(x["cc"]), "sc": u32pair(x["sc"])}
        else:
            ev["parsed"] = {"ok": False, "ps": 0, "cc": [0, 0], "sc": [0, 0]}
    tr = os.path.join(d, "header.ndjson")
    common.write_ndjson(tr, events)
    r = common.tlc("TraceHeader", files={tr: "header.ndjson"}, workers=1, timeout=1800, name="c15-trace", heap="8g")
    if not r.ok:
        raise Infra("TraceHeader failed:\n" + (r.error or r.out)[-3000:])
    v.add_tlc(r)
    verdict = json.load(open(os.path.join(r.workdir, "verdict.json")))
    if verdict["n"] != len(events):
        raise Infra("TLC consumed %s of %d events" % (verdict["n"], len(events)))
    for b in verdict["bad"]:
        i = info[b["i"] - 1]
        key = "C15:%s:%s:%s" % ("+".join(sorted(b["why"])), b["class"],
                                ("off=%d" % i["off"]) if "off" in i else i.get("file"))
        v.report(key, "header %s must be %sed but the implementation's outcome was %r (%s)" %
                 (json.dumps({k: i[k] for k in i if k in ("page_size", "off", "val", "mode", "file")}), b["class"], i["outcome"], sorted(b["why"])),
                 lambda i=i: common.write_replay("C15", "hdr-%s.json" % "-".join(str(i.get(k)) for k in ("page_size", "off", "val", "mode", "file")), i))
    classes = {}
    for i in info:
        classes[i["outcome"]] = classes.get(i["outcome"], 0) + 1
    v.cov["traces_validated_against_impl"] = len(events)
    v.cov["evaluations"] = len(events)
    v.cov["outcomes"] = classes
    v.cov["page_sizes"] = sizes
    v.cov["rule"] = ("single-byte header patches (every offset; all 256 values for the page-size, version, reserved-space, fraction, schema-format "
                     "and encoding bytes, a value set for the others; thorough: all 25600) on SQLite-written files of each page size, "
                     "at open and between two reads of a long-lived warm handle; 12 read entry points per experiment; plus real WAL "
                     "(unmerged frames), UTF-16 and legacy-format files; outcome and parser result judged by TLC against Header.tla. "
                     "non-trivial = distinct (page size, offset, value for key fields, mode)")
    v.sample(info[0])
    v.sample(info[len(info) // 2])
    v.sample(info[-1])
    v.assumptions += ["SQLite 3.40.1 wrote the base and special files", "patches are applied in place by the harness (write to the file the handle maps)"]
    return v.finish()


def replay(path):
    data = json.load(open(path))
    print("stored experiment:", json.dumps(data))
    print("re-run `tools/check C15` to judge it on the current tree")
    return 0

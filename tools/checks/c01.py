"""C01 Table scan returns exactly the table's rows, values and order."""
import json, os, random
from vlib import common, values, gen, btrace
from vlib.common import Infra
from checks import btfamily as bf

SUBSETS = {
    "r": [["id", "a"], ["c", "b", "a", "id", "rowid"], ["oid"], ["_ROWID_", "A"], ["b"], ["rowid", "id", "OID"]],
    "alt": [["d1", "d2", "d3", "p", "q"], ["d3", "rowid"], ["q", "d2"]],
    "rowidcol": [["rowid", "oid", "z"], ["_rowid_", "rowid"], ["oid"]],
    "w": [["v", "k1"], ["x", "k2", "k1", "v"], ["k2"]],
    "e": [["x", "y", "rowid"]],
    "pl": [["b"]],
}

ODD_DEFS = [
    "CREATE TABLE g1(a, b GENERATED ALWAYS AS (a + 1) VIRTUAL)",
    "CREATE TABLE g2(a, b, CHECK (a IS NOT NULL))",
    "CREATE TABLE g3(a PRIMARY KEY ON CONFLICT REPLACE, b)",
    "CREATE TABLE g4(a, b, c AS (a || b) STORED)",
    "CREATE TABLE g5(a INTEGER PRIMARY KEY AUTOINCREMENT, b DEFAULT (1 + 1))",
    "CREATE TABLE g6(a, b DEFAULT CURRENT_TIMESTAMP)",
    "CREATE TABLE \"g 7\"(\"a b\" TEXT, [c d] INT, `e`)",
    "CREATE TABLE g8(a, b, UNIQUE(a, b) ON CONFLICT IGNORE)",
    "CREATE TABLE g9(a REFERENCES g8(a) ON DELETE CASCADE DEFERRABLE INITIALLY DEFERRED, b COLLATE nocase NOT NULL DEFAULT 'x')",
    "CREATE TABLE g10(a DEFAULT -5, b DEFAULT +3.5, c DEFAULT 'it''s', d DEFAULT NULL, e DEFAULT x'00ff')",
    "CREATE TABLE g11(a, b) STRICT",
    "CREATE TABLE g12(k TEXT PRIMARY KEY DESC, v) WITHOUT ROWID",
    "CREATE TABLE g13(a, b)",        # gets columns with keyword / bare word defaults below (ALTER TABLE: the stored rows are short)
    "CREATE TABLE g14(a, b)",
    "CREATE TABLE g15(a, b)",
]


def odd_db(path, rnd):
    con = gen.connect(path, 1024)
    made = []
    for sql in ODD_DEFS:
        try:
            con.execute(sql)
        except Exception as e:
            continue
        name = sql.split("(")[0].split("TABLE")[1].strip().strip('"')
        made.append(name)
        cols = [c[1] for c in con.execute('PRAGMA table_xinfo("%s")' % name).fetchall() if c[6] == 0]
        for i in range(5):
            vals = [rnd.choice([i, "t%d" % i, 1.5 * i, None]) for _ in cols]
            if name in ("g2", "g12", "g3"):
                vals[0] = "k%d" % i
            if name == "g11":
                continue
            try:
                con.execute('INSERT INTO "%s"(%s) VALUES(%s)' % (name, ",".join('"%s"' % c for c in cols), ",".join("?" * len(cols))), vals)
            except Exception:
                pass
    con.execute("ALTER TABLE g10 ADD COLUMN f DEFAULT 12")
    con.execute("ALTER TABLE g13 ADD COLUMN f DEFAULT TRUE")
    con.execute("ALTER TABLE g13 ADD COLUMN g DEFAULT FALSE")
    con.execute("ALTER TABLE g14 ADD COLUMN w DEFAULT word")
    con.execute("ALTER TABLE g14 ADD COLUMN q DEFAULT 'TRUE'")
    con.execute("ALTER TABLE g15 ADD COLUMN f DEFAULT true")
    con.execute("ALTER TABLE g15 ADD COLUMN g DEFAULT False")
    con.execute("ALTER TABLE g15 ADD COLUMN h DEFAULT tRuE")
    con.close()
    return made


def run(tier):
    v = common.Verdict("C01", tier)
    rnd = random.Random(common.seed())
    bf.mc_btree(v, tier, "scan")
    h = common.build_harness()
    suite = bf.build_suite(tier, rnd)
    d = common.sub("c01")
    ops = btrace.OpSet()
    for s in suite:
        ops.add_db(s["tdb"])
        for tname, t in s["desc"]["tables"].items():
            idsql = "SELECT %s FROM %s ORDER BY %s" % (", ".join(bf.id_cols(t)), bf._q(tname), bf.table_order(t))
            want = bf.sq_ids(s, t, idsql)
            if t["without_rowid"]:
                k = ops.add(s["name"], "index_scan", obj=tname, meta={"cls": "low/%s/%s" % (s["name"], tname)})
            else:
                k = ops.add(s["name"], "table_scan", obj=tname, meta={"cls": "low/%s/%s" % (s["name"], tname)})
            ops.items[k]["sq"] = want
            k = ops.add_hl(s["name"], "select", tname, s["desc"], meta={"cls": "select/%s/%s" % (s["name"], tname)})
            ops.items[k]["sq"] = want
            v.nontrivial(("scan", s["name"], tname))
    r = ops.run(h, d, tag="c01")
    bf.judge(v, "C01", suite, ops, r, {"complete"}, "table scan")
    # values, column subsets and orders: rows compared with SQLite's own rows, judged by TLC
    pairs, batches, plan = [], [], []
    for s in suite:
        hops = []
        for tname, t in s["desc"]["tables"].items():
            allcols = [c["name"] for c in t["columns"]]
            lists = [allcols] + SUBSETS.get(tname, [])
            if tier == "thorough":
                for _ in range(4):
                    lists.append([rnd.choice(allcols) for _ in range(rnd.randrange(1, len(allcols) + 2))])
            for cols in lists:
                hops.append({"op": "select_all", "id": len(plan), "table": tname, "cols": cols})
                sql = "SELECT %s FROM %s ORDER BY %s" % (", ".join(bf._q(c) if c.lower() not in ("rowid", "oid", "_rowid_") or
                                                                      c.lower() in [x.lower() for x in allcols] else c for c in cols),
                                                         bf._q(tname), bf.table_order(t))
                plan.append((s, tname, cols, sql))
        batches.append({"db": s["path"], "mode": "keep", "ops": hops})
    # definitions sqlittle may not be able to interpret
    oddp = os.path.join(d, "odd.db")
    odd = odd_db(oddp, rnd)
    hops = []
    for name in odd:
        hops.append({"op": "select_all", "id": len(plan), "table": name, "cols": None})
        plan.append(({"path": oddp, "name": "odd"}, name, None, None))
    con = __import__("sqlite3").connect(oddp)
    oddcols = {n: [c[1] for c in con.execute('PRAGMA table_xinfo("%s")' % n).fetchall() if c[6] in (0, 2, 3)] for n in odd}
    con.close()
    for hp in hops:
        hp["cols"] = oddcols[hp["table"]]
    batches.append({"db": oddp, "mode": "fresh", "ops": hops})
    req, out = os.path.join(d, "rows-req.ndjson"), os.path.join(d, "rows-res.ndjson")
    common.write_ndjson(req, batches)
    rc, txt, _ = common.run([h, "ops", req, out], timeout=900)
    if rc != 0:
        raise common.harness_failure(txt)
    res = {x["id"]: x for x in common.read_ndjson(out)}
    rejected = 0
    for i, (s, tname, cols, sql) in enumerate(plan):
        rr = res[i]
        got = [tuple(values.from_jval(j) for j in row) for row in rr.get("rows") or []]
        if sql is None:
            cols = oddcols[tname]
            t_order = "rowid" if tname != "g12" else '"k" DESC'
            sql = 'SELECT %s FROM "%s" ORDER BY %s' % (", ".join('"%s"' % c for c in cols), tname, t_order)
            if rr.get("err") and not got and not rr.get("panic"):
                rejected += 1        # "a definition sqlittle cannot interpret produces an error, never rows"
                continue
        if rr.get("err") or rr.get("panic"):
            v.report("C01:select-error:%s/%s" % (s["name"], tname),
                     "Select %s(%s) on %s failed: %s (%d rows delivered)" % (tname, cols, s["name"], rr.get("err") or rr.get("panic"), len(got)),
                     lambda s=s, tname=tname, cols=cols: common.write_replay("C01", "select-%s-%s.json" % (s["name"], tname),
                                                                              {"db": s["path"], "table": tname, "cols": cols}))
            continue
        want = bf.sqlite_rows(s["path"], sql)
        pairs.append(({"cls": "%s/%s/%s" % (s["name"], tname, ",".join(cols)), "what": "Select %s %s" % (tname, cols), "sql": sql},
                      got, want))
        v.nontrivial(("cols", s["name"], tname, tuple(cols)))
    bf.rows_events(v, "C01", pairs, "c01")
    v.cov["odd_definitions"] = {"tables": len(odd), "rejected_with_error_and_no_rows": rejected}
    v.cov["suite"] = bf.suite_summary(suite)
    v.cov["evaluations"] = len(ops.items) + len(plan)
    v.cov["rule"] = ("per generated database (page sizes, fragmentation, vacuum, auto-vacuum, deep trees) and table: low level scan and "
                     "high level Select under the tracing pager, judged by TLC against BTree.tla's Reference (in-order walk of the page "
                     "graph read by an independent reader; must equal SQLite's ORDER BY rowid/pk); plus Select with column subsets, "
                     "permutations, rowid/oid/_rowid_, alias and DEFAULT-completed columns compared value by value with SQLite's rows; "
                     "plus definitions sqlittle may reject (error and no rows, or SQLite's rows). non-trivial = distinct (db, table[, column list])")
    v.sample({"db": suite[0]["name"], "kw": suite[0]["kw"], "op": ops.items[0]["h"], "rows": ops.items[0]["res"]["n"]})
    v.sample({"select": plan[1][1], "cols": plan[1][2], "sql": plan[1][3]})
    v.assumptions += ["SQLite 3.40.1 wrote the files and answers the reference queries",
                      "independent reader vlib/sqlitefmt.py is cross-checked against SQLite on every query (mode C), not trusted"]
    return v.finish()


def replay(path):
    return replay_generic("C01", path)


def replay_generic(prop, path):
    data = json.load(open(path))
    h = common.build_harness()
    d = common.sub("replay")
    if "harness_op" in data:
        tdb = btrace.TraceDB(data["db"], "x")
        ops = btrace.OpSet()
        ops.add_db(tdb)
        ops.items.append({"db": "x", "h": dict(data["harness_op"], id=0), "o": data["tla_op"], "conf": False, "meta": {}, "root": data["tla_op"]["root"],
                          "troot": data["tla_op"].get("troot", 0)})
        # high level rows cannot be re-mapped without the description: judge error/row count only
        ops.items[0]["meta"] = {}
        r = ops.run(h, d, tag="replay")
        it = ops.items[0]
        print("result:", {k: it["res"].get(k) for k in ("err", "panic", "n", "reads", "fired")}, "failed predicates:", it["why"])
        if it["why"] or it.get("panic"):
            print("VIOLATION property=%s replay=%s" % (prop, path))
            return 1
        return 0
    print("stored case:", json.dumps(data)[:600])
    print("re-run `tools/check %s` to judge this case on the current tree" % prop)
    return 0

"""C17 Stopping a scan early yields an exact prefix and ends the transaction."""
from checks import btfamily as bf
from checks.c01 import replay_generic
from checks.c13 import index_objects


def btrace_key(key):
    from vlib import btrace
    return btrace.harness_key(key)


def build(v, suite, ops, rnd, tier, h, d):
    full, sample = (40, 18) if tier == "quick" else (400, 120)
    for s in suite:
        tdb = s["tdb"]
        for tname, t in s["desc"]["tables"].items():
            root = tdb.root(tname)
            n = len(tdb.order[root])
            bpos = bf.boundary_positions(tdb, root)
            for p in bf.pick_positions(n, bpos, rnd, bf.budget_for(n, full, 20), bf.budget_for(n, sample, 10)):
                k = p + 1
                if t["without_rowid"]:
                    ops.add(s["name"], "index_scan", obj=tname, stop=k, meta={"cls": "index_scan/%s/%s" % (s["name"], tname)})
                else:
                    ops.add(s["name"], "table_scan", obj=tname, stop=k, meta={"cls": "table_scan/%s/%s" % (s["name"], tname)})
                if p % 4 == 0 or tier == "thorough":
                    ops.add_hl(s["name"], "select", tname, s["desc"], stop=k, meta={"cls": "select/%s/%s" % (s["name"], tname)})
                v.nontrivial((s["name"], tname, k))
        for name, is_table, kd, t, ix in index_objects(s):
            root = tdb.root(name)
            n = len(tdb.order[root])
            kw = dict(obj=name) if is_table else dict(index=name)
            bpos = bf.boundary_positions(tdb, root)
            pos = bf.pick_positions(n, bpos, rnd, bf.budget_for(n, full, 20), bf.budget_for(n, sample, 10))
            if not is_table:
                for p in pos:
                    ops.add(s["name"], "index_scan", stop=p + 1, meta={"cls": "index_scan/%s/%s" % (s["name"], name)}, **kw)
                    v.nontrivial((s["name"], name, "scan", p + 1))
            keys = bf.cut_keys(tdb, root, len(kd), rnd, 6 if tier == "quick" else 30)
            for k in keys:
                key = [(val, kd[i][0], kd[i][1]) for i, val in enumerate(k[:len(kd)])]
                for stop in sorted(set([1, 2, 3] + [rnd.randrange(1, n + 2) for _ in range(3)])):
                    ops.add(s["name"], "scan_min", key=key, stop=stop, meta={"cls": "scan_min/%s/%s" % (s["name"], name)}, **kw)
                    v.nontrivial((s["name"], name, "min", k, stop))
                ops.add(s["name"], "scan_eq", key=key, stop=1, meta={"cls": "scan_eq/%s/%s" % (s["name"], name)}, **kw)
                ops.add(s["name"], "scan_eq", key=key, stop=2, meta={"cls": "scan_eq/%s/%s" % (s["name"], name)}, **kw)
                to = keys[(len(k) * 3 + 1) % len(keys)]
                tok = [(val, kd[i][0], kd[i][1]) for i, val in enumerate(to[:len(kd)])]
                ops.add(s["name"], "scan_range", key=key, to=tok, stop=1, meta={"cls": "scan_range/%s/%s" % (s["name"], name)}, **kw)
                ops.add(s["name"], "scan_range", key=key, to=tok, stop=2, meta={"cls": "scan_range/%s/%s" % (s["name"], name)}, **kw)


    # from-key scans on the deepest indexes, stopped at EVERY row of a long stretch (the stop has to travel up through
    # every level: a row under the right-most pointer of a non-root interior page is the delicate one)
    for s in suite:
        if s["name"].startswith("P"):
            continue
        tdb = s["tdb"]
        objs = sorted(index_objects(s), key=lambda o_: -len(tdb.order[tdb.root(o_[0])]))[: (2 if tier == "quick" else 6)]
        for name, is_table, kd, t, ix in objs:
            root = tdb.root(name)
            n = len(tdb.order[root])
            if n < 60:
                continue
            kw = dict(obj=name) if is_table else dict(index=name)
            keys = bf.cut_keys(tdb, root, len(kd), rnd, 3 if tier == "quick" else 8)
            for k in keys[:3] if tier == "quick" else keys:
                key = [(val, kd[i][0], kd[i][1]) for i, val in enumerate(k[:len(kd)])]
                for stop in range(1, min(n, 140 if tier == "quick" else 600) + 1):
                    ops.add(s["name"], "scan_min", key=key, stop=stop, meta={"cls": "scan_min/%s/%s/every-stop" % (s["name"], name)}, **kw)
    # a stopped scan whose callback ran (and stopped) another equality scan on the SAME index object in between: both
    # stops are honoured independently
    from vlib import btrace
    for s in suite:
        if s["name"].startswith("P"):
            continue
        tdb = s["tdb"]
        for name, is_table, kd, t, ix in index_objects(s)[: (6 if tier == "quick" else 1000)]:
            root = tdb.root(name)
            if len(tdb.order[root]) < 6:
                continue
            kw = dict(obj=name) if is_table else dict(index=name)
            keys = bf.cut_keys(tdb, root, len(kd), rnd, 2)
            for k in keys[:2]:
                key = [(val, kd[i][0], kd[i][1]) for i, val in enumerate(k[:len(kd)])]
                for op_, extra_ in (("index_scan", {}), ("scan_min", {"key": key}), ("scan_eq", {"key": key})):
                    for stop, inner_stop in ((3, 1), (5, 2), (2, 1)):
                        i_ = ops.add(s["name"], op_, stop=stop, meta={"cls": "%s/%s/%s/nested-scan-eq" % (op_, s["name"], name)}, **dict(kw, **extra_))
                        ops.items[i_]["h"].update(nested_at=1, nested={"op": "scan_eq", "dbkey": btrace.harness_key(key), "stop": inner_stop})
                        ops.items[i_]["conf"] = False
    # histories on ONE handle: a stopped scan is the first visit of the pages, later stopped scans (other k) and the same
    # k again follow while the page cache is warm -- a stop must leave nothing half-done behind
    ng = 0
    for s in suite:
        if s["name"].startswith("P") and tier == "quick" and ng > 40:
            continue
        tdb = s["tdb"]
        objs = [(tname, None, t["without_rowid"]) for tname, t in s["desc"]["tables"].items()]
        objs += [(None, name, True) for name, is_table, kd, t, ix in index_objects(s) if not is_table]
        for tname, iname, is_index in objs[: (12 if tier == "quick" else 1000)]:
            root = tdb.root(tname or iname)
            n = len(tdb.order[root])
            if n < 4:
                continue
            for first in ((2, 1) if tier == "quick" else (1, 2, 3, n // 2)):
                g = "stopseq%d" % ng
                ng += 1
                for stop in (first, min(n, first + 3), n, first, max(1, n - 1), 1):
                    if tname and not is_index:
                        k = ops.add(s["name"], "table_scan", obj=tname, stop=stop, meta={"cls": "table_scan/%s/%s/one-handle" % (s["name"], tname)})
                    elif tname:
                        k = ops.add(s["name"], "index_scan", obj=tname, stop=stop, meta={"cls": "index_scan/%s/%s/one-handle" % (s["name"], tname)})
                    else:
                        k = ops.add(s["name"], "index_scan", index=iname, stop=stop, meta={"cls": "index_scan/%s/%s/one-handle" % (s["name"], iname)})
                    ops.items[k].update(group=g, conf=False)
    v.cov["stop_sequences_on_one_handle"] = ng


def run(tier):
    return bf.run_family("C17", tier, "stop", build, {"stop", "lock"},
                         "every scan kind (Table.Scan, Index.Scan, SelectDone, ScanMin, ScanEq, ScanRange) on every table / index of the "
                         "generated databases with the callback answering done on its k-th call: every k for results up to the size limit, "
                         "otherwise the last row of every leaf, entries in interior pages, first row of the next page, their neighbours and "
                         "a seeded sample; judged by TLC: delivered = first k of the Reference, callback invoked exactly k times, no error, "
                         "and the recorded event trace ends with the unlock right after the k-th callback. non-trivial = distinct "
                         "(db, object, operation, k)")


def replay(path):
    return replay_generic("C17", path)

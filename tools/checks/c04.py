"""C04 Rowid lookup finds a row iff it exists."""
from checks import btfamily as bf
from checks.c01 import replay_generic

I64MIN, I64MAX = -2 ** 63, 2 ** 63 - 1


def build(v, suite, ops, rnd, tier, h, d):
    for s in suite:
        tdb = s["tdb"]
        for tname, t in s["desc"]["tables"].items():
            if t["without_rowid"]:
                continue
            root = tdb.root(tname)
            present = [tdb.entries[i - 1]["rowid"] for i in tdb.order[root]]
            bset = bf.table_boundary_rowids(tdb, root)
            lim = 120 if tier == "quick" else 600
            if len(present) <= lim:
                chosen = set(present)
            else:
                chosen = set(bset) | set(rnd.sample(present, lim))
            cand = set()
            for r in chosen | bset | set(s["desc"]["deleted"] if tname == "r" else []):
                cand.update(x for x in (r - 1, r, r + 1) if I64MIN <= x <= I64MAX)
            cand.update([0, 1, -1, I64MIN, I64MAX, I64MIN + 1, I64MAX - 1])
            cand = sorted(cand)
            rowid_alias = bf.rowid_alias(t)
            pres = set(present)
            haspk = any(c["pk"] for c in t["columns"]) and not any(i["origin"] == "pk" for i in t["indexes"].values())
            for k, rid in enumerate(cand):
                want = [tdb.byrowid[(root, rid)]] if rid in pres else []
                cls = "%s/%s/%s" % (s["name"], tname, "present" if rid in pres else "absent")
                i = ops.add(s["name"], "rowid", obj=tname, rowid=rid, meta={"cls": "low/" + cls})
                ops.items[i]["sq"] = want
                if k % 3 == 0 or tier == "thorough":
                    i = ops.add_hl(s["name"], "select_rowid", tname, s["desc"], rowid=rid, meta={"cls": "select_rowid/" + cls})
                    ops.items[i]["sq"] = want
                if haspk and (k % 3 == 1 or tier == "thorough"):
                    i = ops.add_hl(s["name"], "pk_select", tname, s["desc"], key=[("i", rid)], meta={"cls": "pk_select/" + cls})
                    ops.items[i]["sq"] = want
                v.nontrivial((s["name"], tname, rid))
        # mode C for presence: SQLite agrees on which rowids exist
        for tname, t in s["desc"]["tables"].items():
            if not t["without_rowid"]:
                a = bf.rowid_alias(t)
                got = [r[0][1] for r in bf.sqlite_rows(s["path"], "SELECT %s FROM %s ORDER BY %s" % (a, bf._q(tname), a))]
                mine = [tdb.entries[i - 1]["rowid"] for i in tdb.order[tdb.root(tname)]]
                if got != mine:
                    raise bf.Infra("independent reader and SQLite disagree on the rowids of %s.%s" % (s["name"], tname))


def run(tier):
    return bf.run_family("C04", tier, "rowid", build, {"complete"},
                         "per rowid table of every generated database: Table.Rowid, SelectRowid and PKSelect (INTEGER PRIMARY KEY tables) "
                         "for every present rowid (sampled above the size limit, always incl. first/last rowid of every leaf and every "
                         "interior separator), both neighbours, rowids deleted by the generator, 0, +-1, int64 min/max; judged by TLC: "
                         "found entry = Reference (the entry with that rowid, with the values the file holds), absent => nil and no error. "
                         "non-trivial = distinct (db, table, rowid)")


def replay(path):
    return replay_generic("C04", path)

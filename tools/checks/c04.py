"""C04 Rowid lookup finds a row iff it exists."""
from checks import btfamily as bf
from checks.c01 import replay_generic

I64MIN, I64MAX = -2 ** 63, 2 ** 63 - 1


def build(v, suite, ops, rnd, tier, h, d):
    for s in suite:
        tdb = s["tdb"]
        for tname, t in s["desc"]["tables"].items():
            if t["without_rowid"]:
                continue
            root = tdb.root(tname)
            present = [tdb.entries[i - 1]["rowid"] for i in tdb.order[root]]
            bset = bf.table_boundary_rowids(tdb, root)
            lim = 120 if tier == "quick" else 600
            if len(present) <= lim:
                chosen = set(present)
            else:
                chosen = set(bset) | set(rnd.sample(present, lim))
            cand = set()
            for r in chosen | bset | set(s["desc"]["deleted"] if tname == "r" else []):
                cand.update(x for x in (r - 1, r, r + 1) if I64MIN <= x <= I64MAX)
            cand.update([0, 1, -1, I64MIN, I64MAX, I64MIN + 1, I64MAX - 1])
            cand = sorted(cand)
            rowid_alias = bf.rowid_alias(t)
            pres = set(present)
            haspk = any(c["pk"] for c in t["columns"]) and not any(i["origin"] == "pk" for i in t["indexes"].values())
            for k, rid in enumerate(cand):
                want = [tdb.byrowid[(root, rid)]] if rid in pres else []
                cls = "%s/%s/%s" % (s["name"], tname, "present" if rid in pres else "absent")
                i = ops.add(s["name"], "rowid", obj=tname, rowid=rid, meta={"cls": "low/" + cls})
                ops.items[i]["sq"] = want
                if k % 3 == 0 or tier == "thorough":
                    i = ops.add_hl(s["name"], "select_rowid", tname, s["desc"], rowid=rid, meta={"cls": "select_rowid/" + cls})
                    ops.items[i]["sq"] = want
                if haspk and (k % 3 == 1 or tier == "thorough"):
                    i = ops.add_hl(s["name"], "pk_select", tname, s["desc"], key=[("i", rid)], meta={"cls": "pk_select/" + cls})
                    ops.items[i]["sq"] = want
                v.nontrivial((s["name"], tname, rid))
        # mode C for presence: SQLite agrees on which rowids exist
        for tname, t in s["desc"]["tables"].items():
            if not t["without_rowid"]:
                a = bf.rowid_alias(t)
                got = [r[0][1] for r in bf.sqlite_rows(s["path"], "SELECT %s FROM %s ORDER BY %s" % (a, bf._q(tname), a))]
                mine = [tdb.entries[i - 1]["rowid"] for i in tdb.order[tdb.root(tname)]]
                if got != mine:
                    raise bf.Infra("independent reader and SQLite disagree on the rowids of %s.%s" % (s["name"], tname))


def rowid_only(v, suite, ops, rnd, tier, h, d):
    """column lists that need nothing from the stored record (rowid, its aliases, the INTEGER PRIMARY KEY column, or no
    column at all): the lookup must still find out whether the row exists"""
    import os, json
    from vlib import common, values
    batches, expect = [], {}
    nid = 0
    for s in suite:
        tdb = s["tdb"]
        bops = []
        for tname, t in s["desc"]["tables"].items():
            if t["without_rowid"]:
                continue
            alias = bf.rowid_alias(t)
            if not alias:
                continue
            root = tdb.root(tname)
            present = [tdb.entries[i - 1]["rowid"] for i in tdb.order[root]]
            pres = set(present)
            ipk = [c["name"] for c in t["columns"] if c["pk"]] if (any(c["pk"] for c in t["columns"]) and not any(i["origin"] == "pk" for i in t["indexes"].values())) else []
            cand = set(rnd.sample(present, min(len(present), 6 if tier == "quick" else 60)))
            for r_ in list(cand):
                cand.update(x for x in (r_ - 1, r_ + 1) if I64MIN <= x <= I64MAX)
            cand.update([0, -1, I64MAX, I64MIN])
            lists = [[alias], [alias, alias], []] + ([[ipk[0]], [ipk[0], alias]] if len(ipk) == 1 else [])
            # the row found has the values a full scan reports: every column, compared with SQLite's row (columns added by
            # ALTER TABLE included: a lookup must complete short rows from the defaults just like a scan)
            allcols = [c["name"] for c in t["columns"]]
            for rid in sorted(cand):
                if rid in pres:
                    bops.append({"op": "select_rowid", "id": nid, "table": tname, "rowid": str(rid), "cols": allcols})
                    expect[nid] = (s["name"], tname, rid, allcols, "values")
                    nid += 1
                    if len(ipk) == 1:
                        bops.append({"op": "pk_select", "id": nid, "table": tname, "key": [values.to_jval(("i", rid))], "cols": allcols})
                        expect[nid] = (s["name"], tname, rid, allcols, "values")
                        nid += 1
                for cols in lists:
                    bops.append({"op": "select_rowid", "id": nid, "table": tname, "rowid": str(rid), "cols": cols})
                    expect[nid] = (s["name"], tname, rid, cols, rid in pres)
                    nid += 1
                    if len(ipk) == 1 and cols:
                        bops.append({"op": "pk_select", "id": nid, "table": tname, "key": [values.to_jval(("i", rid))], "cols": cols})
                        expect[nid] = (s["name"], tname, rid, cols, rid in pres)
                        nid += 1
        if bops:
            batches.append({"db": s["path"], "mode": "keep", "ops": bops})
    if not batches:
        return
    req, out = os.path.join(d, "ro-req.ndjson"), os.path.join(d, "ro-res.ndjson")
    common.write_ndjson(req, batches)
    rc, txt, _ = common.run([h, "ops", req, out], timeout=1800)
    if rc != 0:
        raise common.harness_failure(txt)
    pairs = []
    for r_ in common.read_ndjson(out):
        name, tname, rid, cols, there = expect[r_["id"]]
        got = [tuple(values.from_jval(j) for j in row) for row in r_.get("rows") or []]
        if r_.get("op") == "select_rowid" and not cols:
            got = [()] if r_.get("found") else []
        if there == "values":
            want = bf.sqlite_rows(next(s_["path"] for s_ in suite if s_["name"] == name),
                                  "SELECT %s FROM %s WHERE %s = ?" % (", ".join(bf._q(c_) for c_ in cols), bf._q(tname), bf.rowid_alias(next(s_ for s_ in suite if s_["name"] == name)["desc"]["tables"][tname])), (rid,))
            want = [tuple(r2) for r2 in want]
        else:
            want = [tuple(("i", rid) for _ in cols)] if there else []
        if r_.get("err") or r_.get("panic"):
            got = [(("t", b"error: " + str(r_.get("err") or r_.get("panic")).encode()),)]
        pairs.append(({"cls": "%s/%s/%s/%s" % ("rowid-only" if there != "values" else "values", name, tname, "present" if there else "absent"), "what": "%s(%s, %d, %s)" % (r_.get("op"), tname, rid, cols),
                       "sql": "the row with that rowid, if it exists"}, got, want))
        v.nontrivial((name, tname, rid, tuple(cols), r_.get("op")))
    bf.rows_events(v, "C04", pairs, "c04-rowid-only")
    v.cov["rowid_only_lookups"] = len(pairs)


def run(tier):
    return bf.run_family("C04", tier, "rowid", build, {"complete"}, extra=rowid_only, rule=
                         "per rowid table of every generated database: Table.Rowid, SelectRowid and PKSelect (INTEGER PRIMARY KEY tables) "
                         "for every present rowid (sampled above the size limit, always incl. first/last rowid of every leaf and every "
                         "interior separator), both neighbours, rowids deleted by the generator, 0, +-1, int64 min/max; judged by TLC: "
                         "found entry = Reference (the entry with that rowid, with the values the file holds), absent => nil and no error. "
                         "non-trivial = distinct (db, table, rowid)")


def replay(path):
    return replay_generic("C04", path)

"""C11 Values compare in SQLite's order.

(M) TLC checks the algebra of Values.tla on a core grid (total preorder, predicate consistency,
    monotonicity of KeyNotLess along the index order, DESC = reversal).
(B) the real db.compare / db.Equals / db.Search are called on all pairs of the value grid x 3
    collations and on multi-column keys; every call is one event judged by TLC against Values.tla.
(C) real SQLite ranks the same grid (dense_rank() OVER (ORDER BY v COLLATE c)); the specification
    is compared with SQLite on every pair; a disagreement is a specification error (exit 2).
"""
import itertools, json, os, random, sqlite3, struct
from vlib import common, values, grid
from vlib.common import Infra


def sqlite_ranks(vals):
    """rank[coll][i] = dense rank of value i under ORDER BY v COLLATE coll, from real SQLite."""
    con = sqlite3.connect(":memory:")
    con.execute("CREATE TABLE g(id INTEGER PRIMARY KEY, v)")
    for i, v in enumerate(vals):
        if v[0] == "t":
            con.execute("INSERT INTO g VALUES(?, CAST(? AS TEXT))", (i, v[1]))
        else:
            con.execute("INSERT INTO g VALUES(?, ?)", (i, values.to_sqlite(v)))
    # the stored values must be what we meant (storage class and bytes)
    for i, t, hx in con.execute("SELECT id, typeof(v), hex(v) FROM g"):
        v = vals[i]
        want = {"n": "null", "i": "integer", "r": "real", "t": "text", "b": "blob"}[v[0]]
        if t != want:
            raise Infra("SQLite stored grid value %r as %s" % (v, t))
        if v[0] in "tb" and bytes.fromhex(hx) != v[1]:
            raise Infra("SQLite stored grid value %r with different bytes" % (v,))
    ranks = {}
    for coll in ("binary", "nocase", "rtrim"):
        r = {}
        for i, rk in con.execute("SELECT id, dense_rank() OVER (ORDER BY v COLLATE %s) FROM g" % coll):
            r[i] = rk
        ranks[coll] = r
    con.close()
    return ranks


def sgn(x):
    return (x > 0) - (x < 0)


KNOWN_CLASSES = None


def classify_pair(a, b, coll):
    """Key of the known-finding class a (value, value, collation) triple belongs to, or None."""
    ka, kb = a[0], b[0]
    if {ka, kb} == {"i", "r"}:
        i = a if ka == "i" else b
        r = a if ka == "r" else b
        if abs(i[1]) > 2 ** 53 and r[1] == r[1] and abs(r[1]) != float("inf") and float(i[1]) == r[1] \
                and values.exact(i) != values.exact(r):
            return "cmp:int64-vs-float64-beyond-2^53"
    if ka == "t" and kb == "t":
        if coll == "rtrim":
            ta, tb = a[1].rstrip(b" \t\r\n"), b[1].rstrip(b" \t\r\n")
            if ta != a[1].rstrip(b" ") or tb != b[1].rstrip(b" "):
                return "cmp:rtrim-trims-tab-cr-lf"
        if coll == "nocase" and (b"\x00" in a[1] or b"\x00" in b[1]):
            return "cmp:nocase-embedded-nul"
    return None


def classify_event(ev):
    if ev["op"] == "cmp":
        return classify_pair(ev["_a"], ev["_b"], ev["coll"])
    for kc, rv in zip(ev["_key"], ev["_rec"]):
        c = classify_pair(kc[0], rv, kc[1])
        if c:
            return c
    return None


def mc_values(v, tier):
    """(M) algebra of Values.tla on the core grid, exhaustive over triples."""
    g = grid.small_grid()
    d = common.sub("mcvalues")
    p = os.path.join(d, "grid.ndjson")
    common.write_ndjson(p, [values.to_tla(x) for x in g])
    r = common.tlc("MC_Values", files={p: "grid.ndjson"}, workers=8, timeout=900, name="mcvalues-run")
    common.tlc_require_ok(r, "MC_Values")
    v.add_tlc(r)
    v.cov["mc_values"] = {"grid": len(g), "distinct_states": r.distinct, "generated": r.generated}


def run(tier):
    v = common.Verdict("C11", tier)
    rnd = random.Random(common.seed())
    n_enc = values.selftest()
    mc_values(v, tier)
    h = common.build_harness()
    g = grid.grid(tier, rnd)
    ranks = sqlite_ranks(g)
    d = common.sub("c11")
    reqs, meta = [], []
    idx = list(range(len(g)))
    if tier == "quick":
        # all pairs of the core grid under every collation
        pairs = [(i, j) for i in idx for j in idx]
    else:
        pairs = [(i, j) for i in idx for j in idx]
    for coll in ("binary", "nocase", "rtrim"):
        for (i, j) in pairs:
            if coll != "binary" and not (g[i][0] in "tb" and g[j][0] in "tb"):
                # collations only matter for text pairs -- and must NOT matter for blobs, which look like text: all text /
                # blob pairs are kept, a sample of the others
                if (i * 31 + j) % 17 != 0:
                    continue
            reqs.append({"op": "cmp", "a": values.to_jval(g[i]), "b": values.to_jval(g[j]), "coll": coll,
                         "id": len(reqs)})
            meta.append(("cmp", i, j, coll))
    # multi column keys, systematic part: the first column compares equal (under its own collation), the
    # second column decides; every combination of the two columns' collation ("" = default) and direction
    P = [("t", b"a"), ("t", b"A"), ("t", b"a "), ("t", b"a\t"), ("t", b"b"), ("t", b"B"), ("t", b""),
         ("i", 1), ("r", 1.0), ("i", 2), ("n",), ("b", b"a"), ("r", 0.5), ("t", b"a\x00b")]
    colls = ["", "binary", "nocase", "rtrim"]
    eqv = {"": ("t", b"k"), "binary": ("t", b"k"), "nocase": ("t", b"K"), "rtrim": ("t", b"k  ")}

    def add_key(key, rec):
        for op in ("equals", "search"):
            reqs.append({"op": op, "id": len(reqs),
                         "key": [{"v": values.to_jval(k[0]), "coll": k[1], "desc": k[2]} for k in key],
                         "rec": [values.to_jval(x) for x in rec]})
            meta.append((op, key, rec))

    combos = [(c1, c2, d1, d2) for c1 in colls for c2 in colls for d1 in (False, True) for d2 in (False, True)]
    for (c1, c2, d1, d2) in combos:
        for x in P:
            for y in P:
                if tier == "quick" and (x[0] != "t" or y[0] != "t") and rnd.random() < 0.6:
                    continue
                add_key([(("t", b"k"), c1, d1), (x, c2, d2)], [eqv[c1], y])
    # random part: key of 0..3 columns, record of 0..3 values
    sub = [g[k] for k in range(0, len(g), max(1, len(g) // 14))][:14] + P
    nkeys = 3000 if tier == "quick" else 60000
    for _ in range(nkeys):
        kl, rl = rnd.randrange(0, 4), rnd.randrange(0, 4)
        key = [(rnd.choice(sub), rnd.choice(colls), rnd.random() < 0.4) for _ in range(kl)]
        rec = [rnd.choice(sub) for _ in range(rl)]
        for c in range(min(kl, rl)):  # make equal prefixes likely
            if rnd.random() < 0.7:
                rec[c] = key[c][0]
        add_key(key, rec)
    inp, outp = os.path.join(d, "req.ndjson"), os.path.join(d, "res.ndjson")
    common.write_ndjson(inp, reqs)
    rc, txt, _ = common.run([h, "calls", inp, outp], timeout=600)
    if rc != 0:
        raise common.harness_failure(txt, "harness calls")
    res = common.read_ndjson(outp)
    if len(res) != len(reqs):
        raise Infra("harness returned %d results for %d calls" % (len(res), len(reqs)))
    # build the TLA-side trace
    events, pyinfo = [], []
    for rq, rs, m in zip(reqs, res, meta):
        if rs.get("panic") or rs.get("err"):
            key = "cmp:panic-or-error"
            v.report(key, "call %s panicked or failed: %s" % (rq["op"], rs.get("panic") or rs.get("err")),
                     lambda rq=rq, rs=rs: common.write_replay("C11", "panic-%d.json" % rq["id"], {"req": rq, "res": rs}))
            continue
        if m[0] == "cmp":
            _, i, j, coll = m
            ev = {"op": "cmp", "a": values.to_tla(g[i]), "b": values.to_tla(g[j]), "coll": coll,
                  "res": rs["res"], "sq": sgn(ranks[coll][i] - ranks[coll][j])}
            info = {"op": "cmp", "_a": g[i], "_b": g[j], "coll": coll, "req": rq, "res": rs["res"]}
        else:
            op, key, rec = m
            ev = {"op": op, "key": [{"v": values.to_tla(k[0]), "coll": k[1] or "binary", "desc": k[2]} for k in key],
                  "rec": [values.to_tla(x) for x in rec], "res": rs["res"]}
            info = {"op": op, "_key": [(k[0], k[1] or "binary") for k in key], "_rec": rec, "req": rq, "res": rs["res"]}
        events.append(ev)
        pyinfo.append(info)
    tr = os.path.join(d, "calls.ndjson")
    common.write_ndjson(tr, events)
    r = common.tlc("TraceCalls", files={tr: "calls.ndjson"}, workers=1, timeout=1800, name="c11-trace", heap="8g")
    if not r.ok:
        raise Infra("TraceCalls failed:\n" + (r.error or r.out)[-3000:])
    v.add_tlc(r)
    verdict = json.load(open(os.path.join(r.workdir, "verdict.json")))
    if verdict["n"] != len(events):
        raise Infra("TLC consumed %s of %d events" % (verdict["n"], len(events)))
    if verdict["specbad"]:
        k = verdict["specbad"][0] - 1
        raise Infra("specification disagrees with real SQLite on %d events, e.g. %s" %
                    (len(verdict["specbad"]), json.dumps(pyinfo[k]["req"])))
    v.cov["traces_validated_against_impl"] = 1
    v.cov["evaluations"] = len(events)
    v.cov["events_judged_by_tlc"] = len(events)
    v.cov["grid_values"] = len(g)
    v.cov["encoder_selftest_values"] = n_enc
    v.cov["rule"] = ("all ordered pairs of the value grid under BINARY, text pairs (plus a sample of the others) under "
                     "NOCASE and RTRIM, through db.compare; random multi-column keys (0..3 columns, collation and DESC "
                     "per column) against records of 0..3 values through db.Equals and db.Search; every call judged "
                     "by TLC against Values.tla, every cmp call also against SQLite's dense_rank. non-trivial = "
                     "distinct (class pair, collation, expected outcome) for cmp and (key len, rec len, outcome) for keys")
    for info, ev in zip(pyinfo, events):
        if info["op"] == "cmp":
            v.nontrivial(("cmp", info["_a"][0], info["_b"][0], info["coll"], ev["sq"]))
        else:
            v.nontrivial((info["op"], len(info["_key"]), len(info["_rec"]), info["res"]))
    for k in (0, len(events) // 2, len(events) - 1):
        v.sample(pyinfo[k]["req"])
    for n in verdict["bad"]:
        info = pyinfo[n - 1]
        cls = classify_event(info)
        key = cls or ("cmp:%s:%s" % (info["op"], json.dumps(info["req"], sort_keys=True)[:160]))
        v.report(key, "%s on %s returned %r, Values.tla (= SQLite) says otherwise" %
                 (info["op"], json.dumps({k: info["req"][k] for k in info["req"] if k != "id"})[:300], info["res"]),
                 lambda info=info, n=n: common.write_replay("C11", "call-%d.json" % n, {"req": info["req"], "res": info["res"]}))
    v.assumptions += ["SQLite 3.40.1 (python sqlite3) defines the order", "TLC evaluates Values.tla correctly",
                      "vlib/values.py encodes int64/float64 exactly (self-tested against fractions.Fraction)"]
    return v.finish()


def replay(path):
    """Re-run one stored call on the current tree and judge it again."""
    data = json.load(open(path))
    h = common.build_harness()
    d = common.sub("c11-replay")
    inp, outp = os.path.join(d, "req.ndjson"), os.path.join(d, "res.ndjson")
    common.write_ndjson(inp, [data["req"]])
    common.run([h, "calls", inp, outp], timeout=60, check=True)
    rs = common.read_ndjson(outp)[0]
    print("stored result:", data["res"], " current result:", rs.get("res"), rs.get("panic", ""))
    rq = data["req"]
    if rq["op"] == "cmp":
        a, b = values.from_jval(rq["a"]), values.from_jval(rq["b"])
        ev = {"op": "cmp", "a": values.to_tla(a), "b": values.to_tla(b), "coll": rq["coll"], "res": rs["res"]}
    else:
        ev = {"op": rq["op"], "key": [{"v": values.to_tla(values.from_jval(k["v"])), "coll": k["coll"] or "binary",
                                        "desc": k["desc"]} for k in rq["key"]],
              "rec": [values.to_tla(values.from_jval(x)) for x in rq["rec"]], "res": rs["res"]}
    tr = os.path.join(d, "calls.ndjson")
    common.write_ndjson(tr, [ev])
    r = common.tlc("TraceCalls", files={tr: "calls.ndjson"}, workers=1, timeout=120, name="c11-replay-tlc")
    verdict = json.load(open(os.path.join(r.workdir, "verdict.json")))
    if verdict["bad"]:
        print("VIOLATION property=C11 replay=%s" % path)
        return 1
    print("replay: the call now agrees with Values.tla")
    return 0

"""C16 The SQL parser is total, deterministic and local in what it reports.

Locality: the ASTs of C10 (every element with many different neighbours, orders and spellings, all accepted and stored
by real SQLite) are parsed by sqlittle's parser; TLC (TraceSchema.tla / Schema.tla ColumnReportOK, IndexedColsOK) requires
that what the parser reports about every column, constraint and indexed column equals that element of the generating AST.
Totality / determinism: lexeme sequences up to length 4 over a hostile alphabet, every byte-prefix and seeded byte
mutations of valid statements are parsed twice in one process (in opposite call order) and once in a fresh process; TLC
(TraceParse.tla) requires no panic, no hang and three identical answers.
"""
import itertools, json, os, random
from vlib import common, sqlgen
from vlib.common import Infra
from checks import c10

LEXEMES = ["CREATE", "TABLE", "INDEX", "UNIQUE", "t", "(", ")", ",", "a", "b INTEGER", "PRIMARY KEY", "DESC", "COLLATE", "nocase",
           "'", "'it''s'", "\"", "\"q\"", "[", "[x]", "`", "é", "ñame", "日本", "1e", "0x", "0xFFFFFFFFFFFFFFFFFF", "99999999999999999999", "1.5e+",
           ".", "-", "+", "*", ">", ">=", "!", "|", "||", "DEFAULT", "NULL", "CHECK", "WHERE", "ON", "SELECT", "FROM", "WITHOUT ROWID",
           "REFERENCES", "\x00", "\t", "--", "/*", ";",
           # characters above 0x7f that are not letters, and bytes that are not UTF-8 at all
           "\u20ac", "\U0001F600", "\u0663", "\ufffd", "\u00a0", "\u2028", b"\xff", b"\xc3", b"\xe6\x97", b"\xf0\x9f\x98", b"\x80"]


EXPR_STATEMENTS = [
    "CREATE INDEX i1 ON t (coalesce(a, NULL))", "CREATE INDEX i2 ON t (a + NULL)", "CREATE INDEX i3 ON t ((NULL))",
    "CREATE INDEX i4 ON t (a * 2 + b)", "CREATE INDEX i5 ON t (lower(b), a DESC)", "CREATE INDEX i6 ON t (a) WHERE b IS NOT NULL",
    "CREATE INDEX i7 ON t (abs(a - 1.5))", "CREATE INDEX i8 ON t (a || 'x')", "CREATE UNIQUE INDEX i9 ON t (substr(b, 1, 2) COLLATE nocase)",
    "CREATE INDEX i10 ON t (a) WHERE a > 0 AND b < 'm' OR c == 3", "CREATE INDEX i11 ON t (-a, +b, ~c)", "CREATE INDEX i12 ON t (a) WHERE c IN (1, 2, NULL)",
    "CREATE INDEX i13 ON t (ifnull(a, b) DESC, c COLLATE rtrim ASC) WHERE a NOT NULL", "CREATE INDEX i14 ON t (a) WHERE b LIKE 'x%' ESCAPE '\\'",
    "CREATE INDEX i15 ON t (CASE WHEN a THEN b ELSE NULL END)", "CREATE INDEX i16 ON t (a) WHERE b BETWEEN 1 AND 2", "CREATE INDEX i17 ON t (CAST(a AS TEXT))",
    "CREATE INDEX i18 ON t (a << 2, b >> 1, c % 3, a / 2, b & 1, c | 4)", "CREATE INDEX i19 ON t (length(b) = NULL)", "CREATE INDEX i20 ON t (nullif(a, 0), NULL IS a)",
    "CREATE TABLE e1 (a DEFAULT (1 + 1), b CHECK (b > 0 AND b < 10), c REFERENCES t(a) ON DELETE SET NULL ON UPDATE CASCADE)",
    "CREATE TABLE e2 (a, b, c, FOREIGN KEY (a, b) REFERENCES t(a, b) ON UPDATE NO ACTION DEFERRABLE INITIALLY DEFERRED, CHECK (a <> b))",
    "CREATE TABLE e3 (a INTEGER PRIMARY KEY ON CONFLICT ROLLBACK, b UNIQUE ON CONFLICT IGNORE, c NOT NULL ON CONFLICT FAIL DEFAULT (NULL))",
    "CREATE TABLE e4 (a DEFAULT NULL, b DEFAULT (coalesce(NULL, 1)), c GENERATED ALWAYS AS (a + NULL))",
    "CREATE TABLE e5 (a CHECK (a IS NULL OR a > 0), b DEFAULT CURRENT_TIMESTAMP, c DEFAULT TRUE, d DEFAULT x'00')",
    "CREATE TABLE e6 (a, b, UNIQUE (a COLLATE nocase DESC, b) ON CONFLICT REPLACE, PRIMARY KEY (b ASC, a)) WITHOUT ROWID",
    "CREATE TEMP TABLE e7 (a)", "CREATE TABLE IF NOT EXISTS e8 (a)", "CREATE TABLE main.e9 (a)", "CREATE TABLE e10 AS SELECT 1 AS a",
    "CREATE VIRTUAL TABLE e11 USING fts5(a)", "CREATE INDEX IF NOT EXISTS i21 ON t (a)", "CREATE TRIGGER tr AFTER INSERT ON t BEGIN SELECT NULL; END",
    "CREATE VIEW v1 AS SELECT a, NULL FROM t", "SELECT a, b FROM t", "SELECT * FROM t", "SELECT a, *, rowid FROM t", "select NULL from t",
]


def sqlite_accepts(sql):
    import sqlite3
    con = sqlite3.connect(":memory:")
    con.execute("CREATE TABLE t (a, b, c)")
    try:
        con.execute(sql)
        return True
    except sqlite3.Error:
        return False
    finally:
        con.close()


def inputs(tier, rnd, stored):
    out = []
    seen = set()

    def add(s):
        if s not in seen:
            seen.add(s)
            out.append(s)
    def join(sep, seq):
        if any(isinstance(x, bytes) for x in seq):
            return sep.encode().join(x if isinstance(x, bytes) else x.encode() for x in seq)
        return sep.join(seq)
    for n in (1, 2):
        for seq in itertools.product(LEXEMES, repeat=n):
            add(join(" ", seq))
    k3 = 6000 if tier == "quick" else 120000
    for _ in range(k3):
        n = rnd.choice([3, 4, 4, 5, 7])
        add(join(rnd.choice([" ", "", " "]), [rnd.choice(LEXEMES) for _ in range(n)]))
    # statements with expressions (index expressions, partial indexes, CHECK / DEFAULT expressions) that real SQLite accepts
    exprs = [s for s in EXPR_STATEMENTS if sqlite_accepts(s)]
    base = exprs + stored[: (40 if tier == "quick" else 400)]
    for s in base:
        for cut in range(0, len(s) + 1, 1 if tier == "thorough" or len(s) < 80 else 3):
            add(s[:cut])
        for _ in range(10 if tier == "quick" else 60):
            b = bytearray(s.encode())
            for _ in range(rnd.choice([1, 1, 2, 3])):
                p = rnd.randrange(len(b))
                r = rnd.random()
                if r < 0.4:
                    b[p] = rnd.choice(b"'\"[]`(),.-+*<>=!|%&/~;\x00\xc3\xa9\xff 0x1e")
                elif r < 0.7:
                    del b[p]
                else:
                    b.insert(p, rnd.choice(b"'\"[`(,)\xe6\x97\xa5"))
            add(b.decode("utf-8", "replace"))
            if rnd.random() < 0.3:
                add(bytes(b))                  # the same bytes undecoded (may be invalid UTF-8)
    return out


HUNG = []       # inputs on which a parse call did not return (this run)


def parse_all(h, d, strs, tag, reverse=False):
    order = list(range(len(strs)))
    if reverse:
        order.reverse()
    # note: with `reverse` the ids are positions in strs; the request order is `order`
    res = {}
    pending = list(order)
    rounds = 0
    rc = 0
    if len(HUNG) >= 6:
        return {i: {"skipped": True} for i in order}, 0
    while pending:
        rounds += 1
        req, out = os.path.join(d, "%s-req%d.ndjson" % (tag, rounds)), os.path.join(d, "%s-res%d.ndjson" % (tag, rounds))
        common.write_ndjson(req, [dict({"op": "sqlparse", "id": i}, **({"hex": strs[i].hex()} if isinstance(strs[i], bytes) else {"sql": strs[i]})) for i in pending])
        # address space capped: a parser that loops while allocating must die, not the machine; a call that does not
        # return within the harness's deadline ends the process too (exit 3) -- both are restarted after the culprit
        rc, txt, _ = common.run(["sh", "-c", 'ulimit -v 8388608; exec timeout 600 "$0" calls "$1" "$2"', h, req, out], timeout=700)
        got = {}
        if os.path.exists(out):
            for r in common.read_ndjson(out):
                got[r["id"]] = r
        culprit = None
        for i in pending:
            if i in got and not got[i].get("timeout"):
                res[i] = got[i]
            else:
                culprit = i
                break
        if culprit is None:
            break
        # res[culprit] stays missing: reported as a call that did not return
        HUNG.append(strs[culprit])
        pending = pending[pending.index(culprit) + 1:]
        if len(HUNG) >= 6:
            # enough evidence; the rest of the strings is not run (and not judged) in this run
            for i in pending:
                res[i] = {"skipped": True}
            break
    return res, rc


def canon(r):
    if r is None:
        return "<missing>"
    if r.get("panic"):
        return "<panic>"
    return json.dumps(r.get("res"), sort_keys=True)


def run(tier):
    del HUNG[:]
    v = common.Verdict("C16", tier)
    rnd = random.Random(common.seed())
    h = common.build_harness()
    d = common.sub("c16")
    # ---- locality, on the C10 corpus
    events, info = c10.collect(v, tier, rnd, h, d, "C16")
    c10.judge(v, "C16", events, info, d, {"parse-table", "parse-index"})
    parsed_ok = sum(1 for e in events if e["parsed"]["ok"])
    v.cov["definitions_parsed"] = parsed_ok
    for e in events:
        for c in e["ast"]["cols"]:
            v.nontrivial(("col", tuple(k["k"] for k in c["cons"])))
        for t in e["ast"]["tcons"]:
            v.nontrivial(("tcons", t["k"], tuple((c["coll"], c["desc"]) for c in t["cols"])))
    # ---- totality and determinism
    stored = [i["sql"] for i in info] + [s for i in info for s in i["isql"]]
    strs = inputs(tier, rnd, stored)
    # ONE process parses every string twice: all of them in order, then all of them again in reverse order (so that each
    # string's two calls are separated by different statements) -- the ids N..2N-1 are the second calls
    N = len(strs)
    both, rc1 = parse_all(h, d, strs + strs[::-1], "both")
    r1 = {i: both[i] for i in range(N) if i in both}
    r2 = {i: both[2 * N - 1 - i] for i in range(N) if (2 * N - 1 - i) in both}
    # fresh process per chunk (a fresh process per string would only cost time: the parser keeps no state between
    # calls unless a change introduces one, which the opposite call order already exposes)
    r3 = {}
    chunk = 400 if tier == "quick" else 2000
    for a in range(0, len(strs), chunk):
        sub_ = strs[a:a + chunk]
        rr, _ = parse_all(h, d, sub_, "fresh%d" % a)
        for k, x in rr.items():
            r3[a + k] = x
    lines = []
    kept = []
    for i, s in enumerate(strs):
        a, b, c = r1.get(i), r2.get(i), r3.get(i)
        if any(x is not None and x.get("skipped") for x in (a, b, c)):
            if all(x is not None for x in (a, b, c)):
                continue                # not run in this run (the budget of hung inputs was used up)
            a, b, c = [None if (x is not None and x.get("skipped")) else x for x in (a, b, c)]   # a call that did not return
        kept.append(i)
        lines.append({"id": i, "r1": canon(a), "r2": canon(b), "r3": canon(c),
                      "panic": any(x is not None and bool(x.get("panic")) for x in (a, b, c)),
                      "timeout": any(x is None for x in (a, b, c))})
    tr = os.path.join(d, "parse.ndjson")
    common.write_ndjson(tr, lines)
    r = common.tlc("TraceParse", files={tr: "parse.ndjson"}, workers=1, timeout=1800, name="c16-parse-tlc", heap="8g")
    if not r.ok:
        raise Infra("TraceParse failed:\n" + (r.error or r.out)[-3000:])
    v.add_tlc(r)
    verdict = json.load(open(os.path.join(r.workdir, "verdict.json")))
    if verdict["n"] != len(lines):
        raise Infra("TLC consumed %s of %d parse events" % (verdict["n"], len(lines)))
    for b in verdict["bad"]:
        s = strs[kept[b["i"] - 1]]
        ln = lines[b["i"] - 1]
        why = "+".join(sorted(b["why"]))
        detail = (r1.get(kept[b["i"] - 1]) or {}).get("panic") or (r2.get(kept[b["i"] - 1]) or {}).get("panic") or ""
        v.report("C16:%s:%s" % (why, detail[:60]), "sql.Parse(%r): %s %s" % (s[:200], why, detail[:200]),
                 lambda s=s, ln=ln: common.write_replay("C16", "input-%d.json" % ln["id"], {"sql": s if isinstance(s, str) else {"hex": s.hex()}, "results": [ln["r1"][:300], ln["r2"][:300], ln["r3"][:300]]}))
    # ---- the same answers when several goroutines parse at the same time (the driver and every handle parse on their own)
    corpus = [x for x in stored if isinstance(x, str)][: (600 if tier == "quick" else 6000)] + [x for x in EXPR_STATEMENTS]
    if not HUNG:          # (with inputs that do not return the concurrent phase would only wait for its deadline)
        corpus += [x for x in strs if isinstance(x, str)][:: max(1, len(strs) // (400 if tier == "quick" else 4000))]
    preq, pout = os.path.join(d, "par-req.json"), os.path.join(d, "par-res.json")
    json.dump({"sql": corpus, "goroutines": 8 if tier == "quick" else 16, "rounds": 2 if tier == "quick" else 10, "seed": common.seed()}, open(preq, "w"))
    import subprocess
    hrace = common.build_harness(race=True)
    p = subprocess.run([hrace, "parsepar", preq, pout], stdout=subprocess.PIPE, stderr=subprocess.PIPE, timeout=1500,
                       env=dict(os.environ, GORACE="halt_on_error=0 exitcode=66"))
    perr = p.stderr.decode("utf-8", "replace")
    if p.returncode not in (0, 4, 66) or not os.path.exists(pout):
        raise common.harness_failure(perr, "concurrent parse run (rc=%d)" % p.returncode)
    par = json.load(open(pout))
    nraces = perr.count("WARNING: DATA RACE")
    v.cov["concurrent_parse"] = {"strings": len(corpus), "calls": par["calls"], "differ": par["differ"], "race_reports": nraces, "hung": par["hung"]}
    if par["differ"] or nraces or par["hung"]:
        v.report("C16:deterministic:concurrent", "parsing from %d goroutines at once: %d of %d calls returned something else than the same string parsed alone, "
                 "%d data race reports%s; first: %s" % (8 if tier == "quick" else 16, par["differ"], par["calls"], nraces, ", goroutines hung" if par["hung"] else "",
                                                       json.dumps(par["first"][:1])[:500]),
                 lambda: common.write_replay("C16", "concurrent-parse.json", {"result": par, "race": perr[perr.find("WARNING: DATA RACE"):][:3000]}))
    v.cov["strings_parsed"] = len(strs)
    v.cov["traces_validated_against_impl"] = len(events) + len(strs)
    v.cov["evaluations"] = len(events) + len(strs)
    v.cov["rule"] = ("locality: per element of every generated CREATE TABLE / CREATE INDEX (C10's AST corpus: shuffled constraint order, many "
                     "neighbourhoods and spellings, all accepted and stored by SQLite) the parser's report must equal the AST element. "
                     "totality/determinism: all lexeme sequences of length 1-2 over a 52-lexeme hostile alphabet, seeded longer ones, every byte "
                     "prefix and seeded byte mutations of stored statements, each parsed 3 times (two call orders, fresh process). "
                     "non-trivial = distinct column-constraint sequences and table-constraint shapes seen")
    v.sample({"locality": info[0]["sql"]})
    v.sample({"strings": [x if isinstance(x, str) else {"hex": x.hex()} for x in strs[60:64] + strs[-3:]]})
    v.assumptions += ["SQLite 3.40.1 accepted every statement used for locality", "a call that does not return within 4 s (or exhausts 8 GB of address space) ends the harness process and is reported as not total"]
    return v.finish()


def replay(path):
    data = json.load(open(path))
    h = common.build_harness()
    d = common.sub("c16-replay")
    res, _ = parse_all(h, d, [data["sql"]] * 2, "rp")
    print("input:", repr(data["sql"])[:400])
    print("now:", canon(res.get(0))[:400])
    if any((x or {}).get("panic") for x in res.values()) or canon(res.get(0)) != canon(res.get(1)):
        print("VIOLATION property=C16 replay=%s" % path)
        return 1
    return 0

"""C08 Each read transaction reflects the latest committed database state.

(M) Reader.tla: exhaustive over every interleaving (RLock, header re-read, page reads, schema reads, RUnlock | commit of
    kind dml/ddl/grow/vacuum/reuse) within small bounds: Freshness, NoFalseError, HeaderCurrent, CacheCurrent.
(A) behaviours of the same model (TLC -simulate, seeded) are replayed on the real code: every RLock..RUnlock bracket
    becomes a group of real read operations on ONE long-lived handle (alternating the locking high level API and an
    explicit low level RLock/RUnlock bracket), every Commit(kind) a transaction committed by real SQLite in another
    process (python sqlite3): INSERT/UPDATE/DELETE, CREATE/DROP TABLE/INDEX, ALTER ADD COLUMN, growth beyond the size at
    open, VACUUM shrink, delete-then-insert page reuse.
(B) the recorded history is validated by TLC (TraceReader.tla): the handle state of Reader.tla is carried along, every
    read is judged against the Reference on the page graph of the file AS COMMITTED AT THAT MOMENT (independent reader,
    cross-checked with SQLite on the snapshot), and the recorded page events are compared with the algorithm run from
    exactly the cache the specification says survives.
"""
import json, os, random, re, shutil, sqlite3
from vlib import common, values, gen, btrace
from vlib.common import Infra
from checks import btfamily as bf

KIND_MAP = {"noop": ["noop"], "dml": ["dml_update", "dml_insert", "dml_delete"],
            "ddl": ["ddl_create", "ddl_drop", "create_index", "drop_index", "alter_add"],
            "grow": ["grow"], "vacuum": ["vacuum", "vacuum_pagesize"], "reuse": ["reuse"]}


def behaviours(v, n, depth, seed):
    """abstract histories from TLC: list of token lists ('read' | 'commit:<kind>')"""
    d = common.sub("c08-sim")
    r = common.tlc("Reader", cfg="MC_Reader_sim.cfg", workers=1, timeout=300, name="reader-sim",
                   simulate="file=%s/sim,num=%d" % (d, n), depth=depth, tlc_seed=seed)
    if not r.ok:
        raise Infra("TLC simulation of Reader.tla failed:\n" + (r.error or r.out)[-2000:])
    out = []
    for f in sorted(os.listdir(d)):
        if not f.startswith("sim"):
            continue
        labels = re.findall(r'/\\ last = "([^"]+)"', open(os.path.join(d, f)).read())
        toks, inread = [], False
        for lab in labels:
            if lab == "RLock":
                inread = True
            elif lab == "RUnlock" and inread:
                toks.append("read")
                inread = False
            elif lab in KIND_MAP:
                toks.append("commit:" + lab)
        if toks:
            out.append(toks)
    return out


def header_counters(path):
    b = open(path, "rb").read(100)
    cc, ck = int.from_bytes(b[24:28], "big"), int.from_bytes(b[40:44], "big")
    return [cc >> 16, cc & 0xFFFF], [ck >> 16, ck & 0xFFFF]


def run_history(v, h, toks, hid, rnd, page_size, nrows, tier):
    d = common.sub("c08-h%d" % hid)
    live = os.path.join(d, "live.db")
    # big histories: a table of more than 100 pages is read in every bracket AFTER the others, so that the 100-page cache
    # fills up and is dropped wholesale while pages of r / w / alt are in it
    gen.tree_db(live, page_size, rnd=random.Random(rnd.randrange(1 << 30)), n=nrows, extreme=False, deep_rows=450 if page_size == 512 else 0)
    # the 32-bit file change counter is about to wrap: the commits of this history take it through 0xFFFFFFFF -> 0
    with open(live, "r+b") as fh:
        near = (0xFFFFFFFF - 3 - hid).to_bytes(4, "big")
        fh.seek(24)
        fh.write(near)
        fh.seek(92)
        fh.write(near)
    chk = sqlite3.connect(live)
    if chk.execute("PRAGMA integrity_check").fetchall() != [("ok",)]:
        raise Infra("the file with the raised change counter fails integrity_check")
    chk.close()
    snaps = [os.path.join(d, "v0.db")]
    shutil.copy(live, snaps[0])
    # plan: harness steps; commits are executed by tools/writer.py in another process
    steps = []           # ("exec", kind, snapshot) | ("read", version index, [op specs]) | ("rlock",) | ("runlock",)
    ver = 0
    extra_tables, extra_idx = [], []
    nstep = 0
    lastkind = None
    for t in toks:
        nstep += 1
        if t.startswith("commit:"):
            k0 = t.split(":")[1]
            kind = k0[1:] if k0.startswith("=") else rnd.choice(KIND_MAP[k0])
            if kind == "ddl_create":
                extra_tables.append("n%d" % nstep)
            elif kind == "ddl_drop":
                if extra_tables:
                    extra_tables.pop(0)
                else:
                    extra_tables.append("n%d" % nstep)
            ver += 1
            snap = os.path.join(d, "v%d.db" % ver)
            snaps.append(snap)
            steps.append(("exec", kind, nstep, snap))
        else:
            steps.append(("read", ver, list(extra_tables), nstep, lastkind))
            lastkind = None
            continue
        lastkind = kind
    # first pass cannot know the schemas: execute the commits on a scratch copy to produce the snapshots
    scratch = os.path.join(d, "plan.db")
    shutil.copy(live, scratch)
    for st in steps:
        if st[0] == "exec":
            rc, txt, _ = common.run([common.PYTHON, os.path.join(common.VERIF, "tools", "writer.py"), "commit", scratch, st[1], str(st[2]), st[3]], timeout=120)
            if rc != 0:
                raise Infra("writer failed on the planning copy: " + txt[-500:])
    vers = []
    for i, s in enumerate(snaps):
        desc = gen.describe(s)
        tdb = btrace.TraceDB(s, "h%dv%d" % (hid, i))
        vers.append({"name": tdb.name, "path": s, "desc": desc, "tdb": tdb})
        # mode C: the independent reader's in-order walk equals SQLite's ORDER BY on this snapshot
        for tname, t in desc["tables"].items():
            idsql = "SELECT %s FROM %s ORDER BY %s" % (", ".join(bf.id_cols(t)), bf._q(tname), bf.table_order(t))
            if bf.sq_ids(vers[-1], t, idsql) != tdb.order[tdb.root(tname)]:
                raise Infra("independent reader and SQLite disagree on %s of snapshot %d" % (tname, i))
    ops = btrace.OpSet()
    for x in vers:
        ops.add_db(x["tdb"])
    listings = []
    batch, hist = [], [{"t": "open", "cc": header_counters(snaps[0])[0], "cookie": header_counters(snaps[0])[1]}]
    hid_ops = []
    # the handle is opened first of all (on the file as it is now) and reads nothing until the history says so: commits
    # that come before its first read meet a handle that only knows what it saw at open
    batch.append({"op": "noop", "id": 0})

    def next_id():
        return len(batch)
    group = 0
    for st in steps:
        if st[0] == "exec":
            batch.append({"op": "exec", "id": next_id(), "args": [common.PYTHON, os.path.join(common.VERIF, "tools", "writer.py"),
                                                                  "commit", live, st[1], str(st[2]), ""]})
            cc, ck = header_counters(st[3])
            hist.append({"t": "commit", "kind": st[1], "db": vers[snaps.index(st[3])]["name"], "cc": cc, "cookie": ck})
            continue
        _, vi, extras, nstep, after = st
        x = vers[vi]
        group += 1
        tnames = ["r", "w", "alt"] + [t for t in extras if t in x["desc"]["tables"]][-1:] + (["deep"] if "deep" in x["desc"]["tables"] else []) + \
            (["ovn", "ovw", "ovn", "ovw"] if "ovn" in x["desc"]["tables"] else [])     # read twice: the second time from the cache
        xi_all = [i for i in x["desc"]["tables"]["r"]["indexes"] if i.startswith("x")]
        # the first operation after a commit depends on what that commit changed (a stale schema must show at once)
        lead = []
        if after == "create_index" and xi_all:
            lead.append(("hl", "indexed_select", "r", {"index": xi_all[-1]}))
        elif after == "ddl_create" and len(tnames) > 3:
            lead.append(("hl", "select", tnames[-1], {}))
        elif after == "alter_add":
            # the very first thing after the table got a new column: a lookup by rowid (every operation fetches the
            # table's definition on its own; none may take it from the previous transaction)
            rows_r = x["tdb"].order[x["tdb"].root("r")]
            if rows_r:
                lead.append(("hl", "select_rowid", "r", {"rowid": x["tdb"].entries[rows_r[len(rows_r) // 2] - 1]["rowid"]}))
                lead.append(("hl", "pk_select", "r", {"key": [("i", x["tdb"].entries[rows_r[0] - 1]["rowid"])]}))
        elif after in ("ddl_drop", "drop_index", "alter_add", "vacuum_pagesize") and nstep % 3 != 0:
            # (every third time the listings are left out: the bracket then starts with an ordinary operation)
            for lop in ({"op": "tables" if after != "drop_index" else "indexes"}, {"op": "columns", "table": "r"}):
                k = len(ops.items)
                hop = dict(lop, id=next_id())
                ops.items.append({"db": x["name"], "h": hop, "conf": True, "meta": {"cls": "h%d/listing" % hid}, "root": 1, "troot": 0,
                                  "o": {"op": "none", "root": 1, "rowid": btrace.ZERO, "key": [], "to": [], "stop": 0, "fail": 0, "pro": "low",
                                        "lockfail": False, "nested": "", "troot": 0, "pkcols": [], "pkdef": [], "nolock": False}})
                batch.append(hop)
                hist.append({"t": "read", "item": k})
                listings.append((hop["id"], hop["op"], vi))
        if group % 2 == 1 or lead:
            plan = list(lead)
            for tn in tnames:
                plan.append(("hl", "select", tn, {}))
            plan.append(("hl", "indexed_select", "r", {"index": "ra"}))
            plan.append(("hl", "indexed_select", "w", {"index": "wv"}))
            rid = x["tdb"].entries[x["tdb"].order[x["tdb"].root("r")][0] - 1]["rowid"] if x["tdb"].order[x["tdb"].root("r")] else 1
            plan.append(("hl", "select_rowid", "r", {"rowid": rid}))
            xi = [i for i in x["desc"]["tables"]["r"]["indexes"] if i.startswith("x")]
            if xi:
                plan.append(("hl", "indexed_select", "r", {"index": xi[-1]}))
            if group % 4 == 3:
                plan.append(("hl", "select", "r", {}))       # repeated read, no intervening write
            # which operation is the FIRST after the commit varies from bracket to bracket (every operation has to notice
            # a changed schema / changed pages by itself): rotate, keeping the commit-specific lead in front half of the time
            body = plan[len(lead):]
            rot = (group // 2) % max(1, len(body))
            body = body[rot:] + body[:rot]
            plan = (list(lead) + body) if (group % 4 < 2 or after == "alter_add") else (body[:1] + list(lead) + body[1:])
            for kind, op, tn, kw in plan:
                k = ops.add_hl(x["name"], op, tn, x["desc"], meta={"cls": "h%d/%s/%s" % (hid, op, tn)}, **kw)
                ops.items[k]["h"]["id"] = next_id()
                batch.append(ops.items[k]["h"])
                hist.append({"t": "read", "item": k})
        else:
            batch.append({"op": "rlock", "id": next_id()})
            hist.append({"t": "rlock"})
            for tn in tnames:
                wr = x["desc"]["tables"][tn]["without_rowid"]
                k = ops.add(x["name"], "index_scan" if wr else "table_scan", obj=tn, meta={"cls": "h%d/low/%s" % (hid, tn)})
                ops.items[k]["h"].update(id=next_id(), no_lock=True)
                ops.items[k]["o"]["nolock"] = True
                batch.append(ops.items[k]["h"])
                hist.append({"t": "read", "item": k})
            k = ops.add(x["name"], "index_scan", index="rb", meta={"cls": "h%d/low/rb" % hid})
            ops.items[k]["h"].update(id=next_id(), no_lock=True)
            ops.items[k]["o"]["nolock"] = True
            batch.append(ops.items[k]["h"])
            hist.append({"t": "read", "item": k})
            batch.append({"op": "runlock", "id": next_id()})
            hist.append({"t": "runlock"})
    req, out = os.path.join(d, "req.ndjson"), os.path.join(d, "res.ndjson")
    common.write_ndjson(req, [{"db": live, "mode": "keep", "ops": batch}])
    rc, txt, _ = common.run([h, "ops", req, out], timeout=1800)
    if rc != 0:
        raise common.harness_failure(txt)
    res = {r["id"]: r for r in common.read_ndjson(out)}
    for b in batch:
        if b["op"] in ("exec", "rlock", "runlock") and res[b["id"]].get("err"):
            raise Infra("step %s failed: %s %s" % (b["op"], res[b["id"]].get("err"), str(res[b["id"]].get("extra"))[-300:]))
    # the live file must have evolved exactly like the planning copy (same commits, same content)
    if open(live, "rb").read() != open(snaps[-1], "rb").read():
        # page content can differ in free pages; compare logical content instead
        a = sqlite3.connect(live).execute("SELECT count(*), coalesce(sum(id),0) FROM r").fetchall()
        b_ = sqlite3.connect(snaps[-1]).execute("SELECT count(*), coalesce(sum(id),0) FROM r").fetchall()
        if a != b_:
            raise Infra("live database diverged from the planned snapshots")
    # schema listings right after DDL: compared with what SQLite lists in that snapshot
    pairs = []
    for bid, what, vi in listings:
        r_ = res[bid]
        con = sqlite3.connect(vers[vi]["path"])
        if what == "columns":
            want = [c[1] for c in con.execute("PRAGMA table_xinfo(r)").fetchall()]
        else:
            want = [n[0].lower() for n in con.execute("SELECT name FROM sqlite_master WHERE type=? ORDER BY rowid", ("table" if what == "tables" else "index",))]
        con.close()
        got = r_.get("extra") or []
        pairs.append(({"cls": "h%d/%s/v%d" % (hid, what, vi), "what": "%s listing after DDL (err=%r)" % (what, r_.get("err")), "sql": what},
                      [(("t", g.encode()),) for g in got], [(("t", w.encode()),) for w in want]))
    bf.rows_events(v, "C08", pairs, "c08-%d" % hid)
    lines = ops.collect(res)
    out_hist = []
    for e in hist:
        if e["t"] == "read":
            ln = dict(lines[e["item"]])
            ln["t"] = "read"
            out_hist.append(ln)
        else:
            out_hist.append(e)
    trees = os.path.join(d, "trees.json")
    with open(trees, "w") as f:
        json.dump({x["name"]: x["tdb"].tla_tree() for x in vers}, f, separators=(",", ":"))
    hf = os.path.join(d, "history.ndjson")
    common.write_ndjson(hf, out_hist)
    t = common.tlc("TraceReader", files={trees: "trees.json", hf: "history.ndjson"}, workers=1, timeout=1800,
                   name="c08-tlc-%d" % hid, heap="12g")
    if not t.ok:
        raise Infra("TraceReader failed:\n" + (t.error or t.out)[-3000:])
    v.add_tlc(t)
    verdict = json.load(open(os.path.join(t.workdir, "verdict.json")))
    if verdict["n"] != len(out_hist):
        raise Infra("TLC consumed %s of %d history steps" % (verdict["n"], len(out_hist)))
    if os.environ.get("VERIF_DEBUG"):
        for dr in verdict["drift"][:3]:
            e = out_hist[dr["i"] - 1]
            print("DRIFT step", dr["i"], e["o"]["op"], "root", e["o"]["root"], "pro", dr["pro"], "cache0", sorted(dr["cache0"])[:40])
            print("  recorded:", e["ev"][:60])
            print("  model   :", dr["mev"][:60])
    kinds = [e.get("kind") for e in out_hist if e["t"] == "commit"]
    for b in verdict["bad"]:
        e = out_hist[b["i"] - 1]
        it = ops.items[hist[b["i"] - 1]["item"]]
        before = [x.get("kind") for x in out_hist[:b["i"]] if x["t"] == "commit"]
        key = "C08:%s:after=%s" % (it["h"]["op"], before[-1] if before else "open")
        v.report(key, "history %d step %d: %s %s after commits %s returned stale/wrong rows or an error (err=%r, %d rows)" %
                 (hid, b["i"], it["h"]["op"], it["h"].get("table") or it["h"].get("index"), before[-4:], it["res"].get("err"), it["res"].get("n", 0)),
                 lambda: save_history(d, hid, out_hist, b["i"]))
    v.cov["traces_validated_against_impl"] += 1
    v.cov["history_steps"] = v.cov.get("history_steps", 0) + len(out_hist)
    v.cov["reads_judged"] = v.cov.get("reads_judged", 0) + sum(1 for e in out_hist if e["t"] == "read")
    v.cov["commits"] = v.cov.get("commits", 0) + len(kinds)
    v.cov["conformance_drift_ops"] = v.cov.get("conformance_drift_ops", 0) + len(verdict["drift"])
    for i, e in enumerate(out_hist):
        if e["t"] == "read":
            prev = [x.get("kind") for x in out_hist[:i] if x["t"] == "commit"]
            v.nontrivial((e["o"]["op"], e["o"].get("nolock"), prev[-1] if prev else "open", len(prev) > 0 and out_hist[i - 1]["t"] != "commit"))
    return kinds, len(verdict["drift"]), vers[0]["tdb"].f.npages, vers[-1]["tdb"].f.npages


def save_history(d, hid, hist, step):
    dst = os.path.join(common.replay_dir("C08"), "history-%d-step%d.json" % (hid, step))
    with open(dst, "w") as f:
        json.dump({"step": step, "history": [{k: e[k] for k in e if k in ("t", "kind", "db", "o", "err", "cbn")} for e in hist[:step]]}, f, indent=1)
    return dst


def run(tier):
    v = common.Verdict("C08", tier)
    rnd = random.Random(common.seed())
    r = common.tlc("Reader", cfg="MC_Reader.cfg", workers=16, timeout=900, name="mcreader", heap="8g")
    common.tlc_require_ok(r, "MC_Reader")
    v.add_tlc(r)
    v.cov["mc_reader"] = {"distinct_states": r.distinct, "generated": r.generated}
    # unbounded: files of any size, any number of commits, any cache limit (ReaderProof.tla, TLA+ proof system)
    n_obl, _ = common.tlapm("ReaderProof", deps=("Reader",), timeout=600, threads=4)
    v.cov["tlaps_obligations_proved"] = n_obl
    h = common.build_harness()
    nsim = 3 if tier == "quick" else 24
    beh = behaviours(v, nsim, 70 if tier == "quick" else 120, common.seed() + 1)
    # one more fixed history: the file is rebuilt with another page size before the handle has read anything
    beh.append(["commit:=vacuum_pagesize", "read", "read", "commit:=grow", "read", "commit:=alter_add", "read", "commit:=vacuum_pagesize", "read"])
    hsum = []
    for i, toks in enumerate(beh):
        if tier == "quick":
            toks = toks[:16]
        # make sure every history has growth, a schema change and a vacuum somewhere: the kinds that break caches differently
        if i == 0:
            toks = ["read", "commit:=alter_add", "read", "commit:=ddl_create", "read", "commit:=create_index", "read", "read",
                    "commit:=dml_update", "read", "commit:=grow", "read", "commit:=ddl_drop", "read", "commit:=vacuum", "read",
                    "commit:=drop_index", "read", "commit:=reuse", "read", "commit:=vacuum_pagesize", "read", "commit:=dml_insert",
                    "read", "commit:=dml_delete", "read", "commit:=noop", "read"]
        big = (i % 2 == 0)      # the fixed history (every commit kind, reads in between) runs on the file larger than the cache
        kinds, drift, p0, p1 = run_history(v, h, toks, i, rnd, 512 if big else 1024, 150 if big else 50, tier)
        hsum.append({"tokens": toks[:12], "commit_kinds": kinds, "pages_at_open": p0, "pages_at_end": p1, "drift": drift})
    # the same through database/sql: a prepared statement must not remember the columns of an earlier state either
    from checks import c19
    dd = common.sub("c08-prepared")
    pdb = os.path.join(dd, "prep.db")
    pdesc = gen.tree_db(pdb, 1024, random.Random(rnd.randrange(1 << 30)), n=30, extreme=False)
    ppairs = []
    c19.prepared_again(v, "C08", h, dd, pdb, pdesc, ppairs)
    bf.rows_events(v, "C08", ppairs, "c08-prepared")
    v.cov["histories"] = hsum
    v.cov["evaluations"] = v.cov.get("reads_judged", 0)
    v.cov["rule"] = ("histories (read | commit)* taken from TLC simulations of Reader.tla plus one fixed history covering every commit kind; "
                     "each read bracket = 7-9 real operations on one long-lived handle (high level API / explicit low level bracket "
                     "alternating, repeated reads), each commit = a real SQLite transaction of that kind in another process; databases of "
                     "~20 and ~190 pages (below / above the 100-page cache); every read judged by TLC against the Reference on the "
                     "snapshot committed at that moment. non-trivial = distinct (operation, API level, kind of the last commit, repeated read)")
    if drift_total(v):
        print("CONFORMANCE-DRIFT: %d reads: recorded page events differ from the specification's cache prediction" % drift_total(v))
    v.sample(hsum[0])
    v.assumptions += ["SQLite 3.40.1 performs the commits; commits happen only between operations (no lock is held by the handle then)",
                      "independent reader cross-checked against SQLite on every snapshot"]
    return v.finish()


def drift_total(v):
    return v.cov.get("conformance_drift_ops", 0)


def replay(path):
    print(open(path).read()[:3000])
    print("re-run `tools/check C08` to judge on the current tree")
    return 0

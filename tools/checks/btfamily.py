"""Shared machinery of the b-tree family: C01 C02 C03 C04 C12 C13 C17.

(M)  MC_BTree: TLC checks the transcribed traversal algorithms against the declarative Reference on all
     small trees (every operation, key, stop position, fault position).
(B)  SQLite-written databases: the real operations run under the tracing pager; every recorded operation is
     judged by TLC (TraceOps.tla) against the Reference computed on the abstract page graph an independent
     reader extracted from the same file, and the recorded event sequence is compared with the transcribed
     algorithm's (conformance).
(C)  What real SQLite answers for the same query must equal the Reference (validates reader + specification);
     result rows of high level selects are compared with SQLite's rows by TLC (TraceCalls.tla `rows` events).
"""
import json, math, os, random, shutil, sqlite3, struct
from vlib import common, values, gen, sqlitefmt, btrace, pagebuilder
from vlib.common import Infra

PROP_OF_FLAG = {"complete": None, "stop": "C17", "fault": "C12", "lockfail": "C12", "lock": "C06"}

EXPR = {"rexpr": {0: "id + 1"}}          # expression key columns of the generated schema
PARTIAL = {"rpart": "a > 0"}


def mc_btree(v, tier, focus="all"):
    cfg = "MC_BTree_%s.cfg" % focus if tier == "quick" else "MC_BTree_%s_thorough.cfg" % focus
    r = common.tlc("MC_BTree", cfg=cfg, workers=16, timeout=3000 if tier == "thorough" else 600, name="mcbtree", heap="8g")
    common.tlc_require_ok(r, "MC_BTree (%s)" % cfg)
    v.add_tlc(r)
    v.cov["mc_btree" if "mc_btree" not in v.cov else "mc_btree_" + focus] = {"cfg": cfg, "distinct_states": r.distinct, "generated": r.generated}


def build_suite(tier, rnd, only=None):
    d = common.sub("btsuite")
    plan = [("A", dict(page_size=512, n=150)),
            ("B", dict(page_size=1024, n=110, vacuum=True)),
            ("C", dict(page_size=512, n=130, longkeys=True, pad=100, deep_rows=230)),
            ("D", dict(page_size=4096, n=120, auto_vacuum="FULL"))]
    if tier == "thorough":
        plan = [("A", dict(page_size=512, n=400)), ("B", dict(page_size=1024, n=300, vacuum=True)),
                ("C", dict(page_size=512, n=220, longkeys=True, deep_rows=900)), ("D", dict(page_size=4096, n=400, auto_vacuum="FULL")),
                ("E", dict(page_size=2048, n=250, auto_vacuum="INCREMENTAL")), ("F", dict(page_size=8192, n=250)),
                ("G", dict(page_size=16384, n=150)), ("H", dict(page_size=32768, n=120)), ("I", dict(page_size=65536, n=120)),
                ("J", dict(page_size=512, n=1500, extreme=True))]
    suite = []
    if not only or "Z" in only:
        path = os.path.join(d, "Z.db")
        desc = gen.zoo_db(path, 512 if tier == "quick" else 1024, random.Random(rnd.randrange(1 << 30)), n=110 if tier == "quick" else 600)
        suite.append({"name": "Z", "path": path, "desc": desc, "tdb": btrace.TraceDB(path, "Z"), "kw": {"zoo": True}})
    if not only or "P" in only:
        suite += pagebuilt_suite(tier, rnd, d)
    for name, kw in plan:
        if only and name not in only:
            continue
        path = os.path.join(d, name + ".db")
        desc = gen.tree_db(path, rnd=random.Random(rnd.randrange(1 << 30)), **kw)
        tdb = btrace.TraceDB(path, name)
        suite.append({"name": name, "path": path, "desc": desc, "tdb": tdb, "kw": kw})
    return suite


def budget_for(n, base, floor=8):
    """operations per object, scaled down for large trees (TLC evaluates the Reference over the whole tree per operation)"""
    return max(floor, min(base, base * 150 // max(n, 1)))


def _single_kid(sh):
    return sh["k"] == "I" and (len(sh["kids"]) == 1 or any(_single_kid(k) for k in sh["kids"]))


def pagebuilt_suite(tier, rnd, d):
    """Databases built page by page from the tree SHAPES MC_BTree.tla enumerates (mode A): forms real SQLite rarely
    writes -- one-cell leaves, two-child interior pages at every level, stale separators, interior index entries next to
    overflowing ones.  Every image is validated by real SQLite before use (the builder is not trusted).  Shapes with a
    one-child interior page are left out: SQLite itself calls such a file malformed."""
    shapes = [s for s in pagebuilder.shapes(3, 3, 2, 2) if not _single_kid(s) and s != {"k": "L", "n": 0}]
    deep = [s for s in shapes if s["k"] == "I" and any(k["k"] == "I" for k in s["kids"])]
    flat = [s for s in shapes if s not in deep]
    if tier == "quick":
        chosen = rnd.sample(deep, 5) + rnd.sample(flat, 3)
    else:
        chosen = shapes
    # a root with many children over two more levels (the depth budget of a walk is per LEVEL, not per page visited): 33
    # children, each an interior page with two one-entry leaves -- a shape SQLite would need tens of thousands of rows for
    wide = {"k": "I", "ps": 1024, "kids": [{"k": "I", "kids": [{"k": "L", "n": 1}, {"k": "L", "n": 1}]} for _ in range(33)]}
    chosen = list(chosen) + [wide]
    out = []
    n = 0
    for sh in chosen:
        if sh is wide:
            variants_fixed = [(False, False, "distinct", False), (True, False, "pairs", False)]
        else:
            variants_fixed = None
        variants = []
        for ovf in (False, True):
            variants.append((False, rnd.random() < 0.5, "distinct", ovf))
            for pat in (["pairs", "triples"] if tier == "quick" else ["distinct", "pairs", "same", "triples"]):
                variants.append((True, False, pat, ovf))
        if tier == "quick":
            variants = rnd.sample(variants, 3)
        if variants_fixed:
            variants = variants_fixed
        for is_index, stale, pat, ovf in variants:
            data, expect = pagebuilder.build(sh, is_index, stale=stale, pattern=pat, ovf=ovf, page_size=sh.get("ps", 512))
            name = "P%d" % n
            n += 1
            path = os.path.join(d, name + ".db")
            open(path, "wb").write(data)
            con = sqlite3.connect(path)
            try:
                ic = con.execute("PRAGMA integrity_check").fetchall()
                if is_index:
                    rows = con.execute("SELECT k, rowid FROM t INDEXED BY ti ORDER BY k, rowid").fetchall()
                else:
                    rows = con.execute("SELECT id, v FROM t ORDER BY id").fetchall()
            except sqlite3.DatabaseError as e:
                raise Infra("page builder produced an image SQLite rejects (%s): shape %s" % (e, json.dumps(sh)))
            finally:
                con.close()
            if ic != [("ok",)] or rows != [tuple(x) for x in expect]:
                raise Infra("page builder image fails SQLite's validation: %r shape %s" % (ic[:2], json.dumps(sh)))
            desc = gen.describe(path)
            out.append({"name": name, "path": path, "desc": desc, "tdb": btrace.TraceDB(path, name),
                        "kw": {"built_from_shape": sh, "index": is_index, "stale": stale, "pattern": pat, "overflow": ovf}})
    return out


def suite_summary(suite):
    out = []
    for s in suite:
        t = s["tdb"]
        if s["name"].startswith("P"):
            continue
        out.append({"db": s["name"], "page_size": t.f.page_size, "pages": t.f.npages,
                    "depth": {k: t.f.depth(o["rootpage"]) for k, o in t.objects.items() if o["rootpage"]}})
    np = sum(1 for s in suite if s["name"].startswith("P"))
    if np:
        out.append({"page_built_images_from_model_shapes": np})
    return out


# ---------------------------------------------------------------- SQLite as oracle

def _q(name):
    return '"%s"' % name.replace('"', '""')


def index_order_terms(t, ix):
    """ORDER BY / WHERE terms of an index from what SQLite reports (index_xinfo)."""
    terms = []
    for pos, c in enumerate(ix["cols"]):
        if c["cid"] == -1:
            e = rowid_alias(t)
        elif c["cid"] == -2:
            e = "(" + EXPR[ix["name"]][pos] + ")"
        else:
            e = _q(c["name"])
        terms.append((e, c["coll"], c["desc"]))
    return terms


def order_by(terms):
    return ", ".join("%s COLLATE %s%s" % (e, coll, " DESC" if desc else "") for e, coll, desc in terms)


def sqlite_rows(path, sql, params=()):
    con = sqlite3.connect("file:%s?mode=ro" % path, uri=True)
    con.text_factory = values.TextBytes
    try:
        return [tuple(values.from_sqlite(x) for x in r) for r in con.execute(sql, params)]
    finally:
        con.close()


def bind(v):
    k = v[0]
    if k == "n":
        return None
    if k in "ir":
        return v[1]
    return v[1]     # text as bytes is bound as BLOB: wrap with CAST in the SQL


def eq_where(terms, key):
    conds, params = [], []
    for (e, coll, desc), v in zip(terms, key):
        if v[0] == "t":
            conds.append("+%s COLLATE %s IS +CAST(? AS TEXT)" % (e, coll))   # unary + strips the TEXT affinity of CAST
        else:
            conds.append("+%s COLLATE %s IS ?" % (e, coll))
        params.append(bind(v))
    return conds, params


def rowid_alias(t):
    """a name that denotes the rowid in SQL for this table (not shadowed by a real column), or None"""
    names = {c["name"].lower() for c in t["columns"]}
    for a in ("rowid", "_rowid_", "oid"):
        if a not in names:
            return a
    return None


def table_order(t):
    if not t["without_rowid"]:
        return rowid_alias(t)
    pk = next(i for i in t["indexes"].values() if i["origin"] == "pk")
    return order_by([(_q(c["name"]), c["coll"], c["desc"]) for c in pk["cols"] if c["key"]])


def id_cols(t):
    """columns that identify a row: rowid, or the primary key columns"""
    if not t["without_rowid"]:
        return [rowid_alias(t)]
    return [_q(c["name"]) for c in sorted((c for c in t["columns"] if c["pk"]), key=lambda c: c["pk"])]


def sq_ids(s, t, sql, params=()):
    """entry ids (BTree.tla numbering) of the rows SQLite returns; sql selects id_cols(t)"""
    tdb = s["tdb"]
    troot = tdb.root(t["name"])
    rows = sqlite_rows(s["path"], sql, params)
    if not t["without_rowid"]:
        return [tdb.byrowid.get((troot, r[0][1]), 0) for r in rows]
    m = tdb.pkmap(troot, len(rows[0]) if rows else 1)
    return [m.get(tuple(r), 0) for r in rows]


# ---------------------------------------------------------------- cut points and keys

def neighbours(v, rnd):
    k = v[0]
    out = []
    if k == "i":
        n = v[1]
        out += [("i", n + 1) if n < 2 ** 63 - 1 else ("r", 9.3e18), ("i", n - 1) if n > -2 ** 63 else ("r", -9.3e18)]
        if abs(n) <= 2 ** 53:
            out.append(("r", float(n)))
            out.append(("r", n + 0.5))
        else:
            out.append(("r", float(n)))
    elif k == "r":
        f = v[1]
        if not math.isinf(f):
            out += [("r", math.nextafter(f, math.inf)), ("r", math.nextafter(f, -math.inf))]
            if f == int(f) and abs(f) < 2 ** 63:
                out.append(("i", int(f)))
    elif k == "t":
        b = v[1]
        out += [("t", b.swapcase()), ("t", b + b" "), ("t", b.rstrip(b" ")), ("t", b + b"\t"), ("t", b[:-1]), ("t", b + b"a"),
                ("b", b)]
    elif k == "b":
        b = v[1]
        out += [("b", b + b"\x00"), ("b", b[:-1]), ("t", b)]
    else:
        out += [("i", 0), ("t", b"")]
    return out


def boundary_positions(tdb, root):
    """positions (in b-tree order) of entries at page boundaries: first/last cell of every leaf and
    every entry stored in an interior page"""
    order = tdb.order[root]
    pos = {e: i for i, e in enumerate(order)}
    out = set()
    for pg, n in tdb.nodes.items():
        if "ents" in n and n["ents"] and n["ents"][0] in pos and pos_in_tree(tdb, root, pg):
            if n["kind"] in ("il", "tl"):
                out.add(pos[n["ents"][0]])
                out.add(pos[n["ents"][-1]])
            else:
                out.update(pos[e] for e in n["ents"])
    return sorted(out)


_tree_pages = {}


def pos_in_tree(tdb, root, pg):
    key = (id(tdb), root)
    if key not in _tree_pages:
        seen, todo = set(), [root]
        while todo:
            p = todo.pop()
            if p in seen:
                continue
            seen.add(p)
            n = tdb.nodes[p]
            if "kids" in n:
                todo += n["kids"] + [n["right"]]
        _tree_pages[key] = seen
    return pg in _tree_pages[key]


def cut_keys(tdb, root, ncols, rnd, budget):
    """search keys (tuples of canonical values) around the stored entries of an index tree"""
    order = tdb.order[root]
    recs = [tdb.entries[i - 1]["vals"] for i in order]
    keys, seen = [], set()

    def add(k):
        k = tuple(k)
        if k not in seen and not any(x[0] == "r" and x[1] != x[1] for x in k):
            seen.add(k)
            keys.append(k)
    add(())
    add((("n",),))
    add((("i", 0),))
    add((("t", b""),))
    add((("b", b""),))
    add((("b", b"\xff\xff\xff"),))
    if not recs:
        return keys
    bpos = boundary_positions(tdb, root)
    chosen = set(bpos) | {0, len(recs) - 1}
    if len(recs) <= 80:
        chosen |= set(range(len(recs)))
    else:
        chosen |= set(rnd.sample(range(len(recs)), 40))
    chosen = sorted(chosen)
    rnd.shuffle(chosen)
    for p in chosen:
        r = recs[p]
        for plen in range(1, min(len(r), ncols) + 1):
            add(r[:plen])
            for nb in neighbours(r[plen - 1], rnd):
                add(list(r[:plen - 1]) + [nb])
        if len(keys) > budget:
            break
    add(list(recs[0]) + [("i", 1)])      # longer than the stored records
    add(list(recs[len(recs) // 2]) + [("n",)])
    add(list(recs[-1]) + [("t", b"x"), ("i", 0)])
    if len(keys) > budget:
        head, tail, last = keys[:8], keys[8:-3], keys[-3:]
        rnd.shuffle(tail)
        keys = head + tail[:max(0, budget - 11)] + last
    return keys


def index_keydef(ix):
    return [(c["coll"], c["desc"]) for c in ix["cols"]]


# ---------------------------------------------------------------- reporting

def save_case(prop, s, it, tag):
    d = common.replay_dir(prop)
    dbp = os.path.join(d, "%s-%s.db" % (tag, s["name"]))
    if not os.path.exists(dbp):
        shutil.copy(s["path"], dbp)
    p = os.path.join(d, "%s-%s-op%d.json" % (tag, s["name"], it["h"]["id"]))
    with open(p, "w") as f:
        json.dump({"property": prop, "db": dbp, "harness_op": it["h"], "tla_op": it["o"], "why": it.get("why"),
                   "result": {k: it["res"].get(k) for k in ("err", "panic", "n", "reads", "fired", "found")}}, f, indent=1)
    return p


def judge(v, prop, suite, ops, tlc_res, owned_flags, what):
    """Turn TraceOps' verdict into violations of `prop` (flags it owns), notes for other properties."""
    byname = {s["name"]: s for s in suite}
    v.add_tlc(tlc_res)
    v.cov["traces_validated_against_impl"] += len(ops.items)
    drift = 0
    other = {}
    for it in ops.items:
        s = byname[it["db"]]
        if it.get("panic"):
            v.report("%s:panic:%s" % (prop, it["h"]["op"]), "%s panicked: %s" % (it["h"]["op"], it["panic"]),
                     lambda it=it, s=s: save_case(prop, s, it, "panic"))
            continue
        if it["drift"]:
            drift += 1
        for flag in it["why"]:
            owner = PROP_OF_FLAG.get(flag) or prop
            if flag in owned_flags:
                m = it["meta"]
                key = "%s:%s:%s:%s" % (prop, flag, it["h"]["op"], m.get("cls", ""))
                v.report(key, "%s %s on db %s (%s): recorded outcome violates %s [rows=%d err=%r]" %
                         (it["h"]["op"], json.dumps({k: it["h"][k] for k in it["h"] if k not in ("id", "op", "cols")})[:200],
                          s["name"], json.dumps(s["kw"]), flag, it["res"].get("n", 0), it["res"].get("err")),
                         lambda it=it, s=s: save_case(prop, s, it, flag))
            else:
                other[owner] = other.get(owner, 0) + 1
    for owner, n in sorted(other.items()):
        print("NOTE: %d operations of this run also violate a predicate owned by %s (reported by that check)" % (n, owner))
    v.cov["conformance_drift_ops"] = v.cov.get("conformance_drift_ops", 0) + drift
    if drift:
        print("CONFORMANCE-DRIFT: %d of %d operations: recorded events differ from the transcribed algorithm "
              "(BTree.tla Run); properties are judged on the recorded outcome regardless" % (drift, len(ops.items)))
    return drift


def rows_events(v, prop, pairs, tag):
    """pairs: list of (info, got rows, want rows) as canonical values -> judged by TLC (TraceCalls rows op)"""
    if not pairs:
        return
    d = common.sub("rows-" + tag)
    evs = [{"op": "rows", "got": [[values.to_tla(x) for x in r] for r in got],
            "want": [[values.to_tla(x) for x in r] for r in want], "res": True} for _, got, want in pairs]
    tr = os.path.join(d, "calls.ndjson")
    common.write_ndjson(tr, evs)
    r = common.tlc("TraceCalls", files={tr: "calls.ndjson"}, workers=1, timeout=1800, name="rows-tlc-" + tag, heap="12g")
    if not r.ok:
        raise Infra("TraceCalls(rows) failed:\n" + (r.error or r.out)[-3000:])
    v.add_tlc(r)
    verdict = json.load(open(os.path.join(r.workdir, "verdict.json")))
    if verdict["n"] != len(evs):
        raise Infra("TLC consumed %s of %d row events" % (verdict["n"], len(evs)))
    for n in verdict["bad"]:
        info, got, want = pairs[n - 1]
        v.report("%s:rows:%s" % (prop, info["cls"]),
                 "%s: rows differ from what SQLite returns for %s (got %d rows, SQLite %d)" % (info["what"], info["sql"][:200], len(got), len(want)),
                 lambda info=info, got=got, want=want: common.write_replay(prop, "rows-%s.json" % info["cls"].replace("/", "_")[:80],
                                                                            {"info": info, "got": [values.to_jval(x) for r in got[:50] for x in r],
                                                                             "want": [values.to_jval(x) for r in want[:50] for x in r]}))
    v.cov["row_comparisons"] = v.cov.get("row_comparisons", 0) + len(evs)


def pick_positions(n, boundary, rnd, full_upto, sample):
    """indices 0..n-1: all when small, else page boundaries plus a seeded sample"""
    if n <= full_upto:
        return list(range(n))
    s = set(p for p in boundary if 0 <= p < n) | {0, n - 1}
    for p in list(s):
        s.update(q for q in (p - 1, p + 1) if 0 <= q < n)
    rest = [i for i in range(n) if i not in s]
    s.update(rnd.sample(rest, min(sample, len(rest))))
    return sorted(s)


def table_boundary_rowids(tdb, root):
    """first/last rowid of every leaf and every separator key of the table tree"""
    out = set()
    for pg, n in tdb.nodes.items():
        if not pos_in_tree(tdb, root, pg):
            continue
        if n["kind"] == "tl" and n["ents"]:
            out.add(tdb.entries[n["ents"][0] - 1]["rowid"])
            out.add(tdb.entries[n["ents"][-1] - 1]["rowid"])
        elif n["kind"] == "ti":
            out.update(n["keys"])
    return out


def warm_groups(v, ops, rnd, tier):
    """A sample of the operations is run again on LONG-LIVED handles: groups of six operations, executed a-b-c-d-e-f-a-b-..
    on one handle, so that every one of them also runs on a warm page / schema cache and after other operations (anything
    an operation leaves behind in the handle -- a half-filled memo, a moved cursor -- shows in the second round)."""
    import copy
    free = [i for i, it in enumerate(ops.items) if it.get("group") is None and not it["o"].get("fail") and not it["o"].get("lockfail")]
    by_db = {}
    for i in free:
        by_db.setdefault(ops.items[i]["db"], []).append(i)
    ng = 0
    for dbn, idx in sorted(by_db.items()):
        take = rnd.sample(idx, min(len(idx), 12 if tier == "quick" else 120))
        for a in range(0, len(take), 6):
            g = "warm%d" % ng
            ng += 1
            for rep in range(2):
                for i in take[a:a + 6]:
                    it = copy.deepcopy({k_: v_ for k_, v_ in ops.items[i].items() if k_ not in ("res", "line")})
                    it["h"]["id"] = len(ops.items)
                    it.update(group=g, conf=False)
                    it["meta"] = dict(it.get("meta") or {}, cls=(it.get("meta") or {}).get("cls", "") + "/warm-handle")
                    ops.items.append(it)
    v.cov["operations_repeated_on_long_lived_handles"] = ng * 12


def run_family(prop, tier, focus, build, owned, rule, extra=None):
    """Common driver: (M) the MC slice, (B)+(C) the operations `build` adds, judged by TraceOps."""
    v = common.Verdict(prop, tier)
    rnd = random.Random(common.seed())
    for f in focus.split("+"):
        mc_btree(v, tier, f)
    h = common.build_harness()
    suite = build_suite(tier, rnd)
    d = common.sub(prop.lower())
    ops = btrace.OpSet()
    for s in suite:
        ops.add_db(s["tdb"])
    build(v, suite, ops, rnd, tier, h, d)
    warm_groups(v, ops, rnd, tier)
    r = ops.run(h, d, tag=prop.lower(), timeout=3000)
    judge(v, prop, suite, ops, r, owned, prop)
    if extra:
        extra(v, suite, ops, rnd, tier, h, d)
    v.cov["suite"] = suite_summary(suite)
    v.cov["evaluations"] = v.cov.get("evaluations", 0) + len(ops.items)
    v.cov["rule"] = rule
    for it in ops.items[:1] + ops.items[len(ops.items) // 2:len(ops.items) // 2 + 1] + ops.items[-1:]:
        v.sample({"db": it["db"], "op": it["h"], "rows": it["res"].get("n"), "err": it["res"].get("err"), "reads": it["res"].get("reads")})
    v.assumptions += ["SQLite 3.40.1 wrote the files and answers the reference queries",
                      "independent reader vlib/sqlitefmt.py is cross-checked against SQLite (mode C), not trusted",
                      "exact value encoder vlib/values.py"]
    return v.finish()

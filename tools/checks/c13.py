"""C13 Low-level range scans agree with the full scan and the comparison order."""
from checks import btfamily as bf
from checks.c01 import replay_generic


def index_objects(s):
    """(object name, is table, key definition, number of columns) of every index b-tree incl. WITHOUT ROWID tables"""
    out = []
    for tname, t in s["desc"]["tables"].items():
        for iname, ix in t["indexes"].items():
            if ix["origin"] == "pk" and t["without_rowid"]:
                out.append((tname, True, bf.index_keydef(ix), t, ix))
            elif iname.lower() in s["tdb"].objects:
                out.append((iname, False, bf.index_keydef(ix), t, ix))
    return out


def build(v, suite, ops, rnd, tier, h, d):
    budget = 24 if tier == "quick" else 400
    for s in suite:
        tdb = s["tdb"]
        for name, is_table, kd, t, ix in index_objects(s):
            root = tdb.root(name)
            keys = bf.cut_keys(tdb, root, len(kd), rnd, bf.budget_for(len(tdb.order[root]), budget))
            kw = dict(obj=name) if is_table else dict(index=name)

            def mk(k):
                # columns beyond the index definition (a key longer than the stored records): default collation, ascending
                return [(val, kd[i][0] if i < len(kd) else "binary", kd[i][1] if i < len(kd) else False) for i, val in enumerate(k)]
            for n, k in enumerate(keys):
                cls = "%s/%s" % (s["name"], name)
                ops.add(s["name"], "scan_min", key=mk(k), meta={"cls": "scan_min/" + cls}, **kw)
                ops.add(s["name"], "scan_eq", key=mk(k), meta={"cls": "scan_eq/" + cls}, **kw)
                to = keys[(n * 7 + 3) % len(keys)]
                ops.add(s["name"], "scan_range", key=mk(k), to=mk(to), meta={"cls": "scan_range/" + cls}, **kw)
                if n % 5 == 0:
                    ops.add(s["name"], "scan_range", key=mk(k), to=mk(k), meta={"cls": "scan_range/" + cls}, **kw)
                v.nontrivial((s["name"], name, k))
            ops.add(s["name"], "index_scan", meta={"cls": "index_scan/%s/%s" % (s["name"], name)}, **kw)
            # an inner equality scan on the SAME *Index object from inside the outer scan's callback, stopping early: the
            # outer scan goes on as if nothing had happened (the scans keep no state in the object)
            from vlib import btrace
            for k in keys[:2]:
                for op_, extra_ in (("index_scan", {}), ("scan_eq", {"key": mk(k)}), ("scan_min", {"key": mk(k)})):
                    for inner_stop in (1, 2):
                        i_ = ops.add(s["name"], op_, meta={"cls": "%s/%s/%s/nested-scan-eq" % (op_, s["name"], name)}, **dict(kw, **extra_))
                        ops.items[i_]["h"].update(nested_at=1, nested={"op": "scan_eq", "dbkey": btrace.harness_key(mk(keys[-1])), "stop": inner_stop})
                        ops.items[i_]["conf"] = False


def run(tier):
    return bf.run_family("C13", tier, "range", build, {"complete"},
                         "per index b-tree (incl. WITHOUT ROWID tables, depth 1..3+, overflowing entries) of every generated database: ScanMin, "
                         "ScanEq and ScanRange for cut points drawn from the stored entries (every prefix length, entries at page "
                         "boundaries and in interior pages, neighbours of the last key column: +-1, int/real twins, case swapped, trailing "
                         "space/tab, truncated, other storage classes, NULL, empty key, key longer than the records) with the index's own "
                         "collations and directions; judged by TLC: delivered entries = the filter of the in-order walk under Values.tla. "
                         "non-trivial = distinct (db, index, key)")


def replay(path):
    return replay_generic("C13", path)

"""C14 Records, varints and spilled payloads decode exactly per the file format.

(M) MC_Format: algebra of Format.tla (split rule on every legal page size; varint encode/decode for every length).
(B1) call events from the real readVarint / calculateCellInPageBytes / parseRecord judged by TLC against Format.tla.
(B2) SQLite writes rows and index entries whose payload lengths sweep the spill thresholds of several page sizes;
     the real Table.Scan / Index.Scan run under the tracing pager; for every cell TLC judges (a) the decoded record
     against RecordDecode of the raw payload bytes taken from the file by an independent reader, and against the
     values SQLite itself returns (validates the spec), (b) the number of overflow pages read against OverflowPages.
"""
import json, os, random, struct
from vlib import common, values, grid, gen, sqlitefmt
from vlib.common import Infra

PAGE_SIZES = [512, 1024, 2048, 4096, 8192, 16384, 32768, 65536]


def bits_of(n):
    n &= (1 << 64) - 1
    return [int(c) for c in bin(n)[2:]] if n else []


def rec_tla(vals):
    return {"err": False, "vals": [values.to_tla(v) for v in vals]}


def pset(U, idx):
    X, M = sqlitefmt.max_local(U, idx), sqlitefmt.min_local(U)
    cs = [X, M, X + (U - 4), X + 2 * (U - 4), M + (U - 4), U, 2 * U, 3 * (U - 4) + X]
    s = set(range(0, 4))
    for c in cs:
        s.update(range(c - 3, c + 4))
    return sorted(p for p in s if p >= 0)


def call_events(tier, rnd):
    reqs, evs = [], []

    def add(req, ev):
        req["id"] = len(reqs)
        reqs.append(req)
        evs.append(ev)
    # local payload: every page size; U=512 exhaustive
    for U in PAGE_SIZES:
        for idx in (False, True):
            ps = range(0, 3 * U + 1) if (U == 512 or (tier == "thorough" and U == 1024)) else pset(U, idx)
            for P in ps:
                add({"op": "local", "u": U, "p": P, "x": sqlitefmt.max_local(U, idx)},
                    {"op": "local", "u": U, "p": P, "idx": idx})
    # varints
    vals = set()
    for k in range(0, 65):
        for d in (-1, 0, 1):
            vals.add(((1 << k) + d) & ((1 << 64) - 1))
    for _ in range(200 if tier == "quick" else 3000):
        vals.add(rnd.getrandbits(rnd.randrange(1, 65)))
    for n in sorted(vals):
        enc = sqlitefmt.put_varint(n)
        for tail in (b"", b"\xff\x01"):
            b = enc + tail
            add({"op": "varint", "hex": b.hex()}, {"op": "varint", "bytes": list(b)})
        if len(enc) > 1:
            b = enc[:-1]
            add({"op": "varint", "hex": b.hex()}, {"op": "varint", "bytes": list(b)})
    # non canonical encodings (leading 0x80 bytes) and 9-byte forms
    for b in (b"\x80\x00", b"\x80\x80\x01", b"\x80" * 8 + b"\x01", b"\xff" * 9, b"\xff" * 8 + b"\x00", b"\x81" * 8 + b"\x80",
              b"\x80" * 8, b"\xff", b"\x80" * 9 + b"\x01"):
        add({"op": "varint", "hex": b.hex()}, {"op": "varint", "bytes": list(b)})
    # records built by the independent encoder over the value grid
    g = [v for v in grid.grid("quick", rnd) if not (v[0] in "tb" and len(v[1]) > 40)]
    recs = []
    for v in g:
        recs.append(([v], None))
        if v[0] == "i":  # non minimal widths: every integer width that can hold the value
            for t in range(1, 7):
                ln = sqlitefmt.serial_len(t)
                if -(1 << (8 * ln - 1)) <= v[1] < (1 << (8 * ln - 1)):
                    recs.append(([v], [t]))
    for _ in range(150 if tier == "quick" else 2000):
        n = rnd.randrange(0, 7)
        recs.append(([rnd.choice(g) for _ in range(n)], None))
    recs.append(([("i", i % 3) for i in range(140)], None))                 # header longer than 127 bytes
    recs.append(([("t", b"x" * (i % 5)) for i in range(200)], None))
    recs.append(([("b", gen.pattern_blob(300, 1)), ("t", b"y" * 70), ("n",)], None))   # two-byte serial types
    for vals_, widths in recs:
        b = sqlitefmt.encode_record(vals_, widths)
        add({"op": "record", "hex": b.hex()}, {"op": "record", "bytes": list(b)})
        if len(b) > 2 and rnd.random() < 0.3:
            cut = b[:rnd.randrange(1, len(b))]
            add({"op": "record", "hex": cut.hex()}, {"op": "record", "bytes": list(cut)})
    return reqs, evs


def call_result_tla(ev, rs):
    """harness result -> the value Expected(e) has in TraceCalls.tla"""
    if ev["op"] == "local":
        return rs["res"]
    if ev["op"] == "varint":
        v, n = int(rs["res"][0]), rs["res"][1]
        return {"n": n, "bits": bits_of(v) if n > 0 else []}
    if ev["op"] == "record":
        if rs["res"].get("err"):
            return {"err": True, "vals": []}
        return rec_tla([values.from_jval(j) for j in rs["res"]["vals"]])
    raise Infra("unknown op")


def blob_lengths(U, tier, rnd):
    """blob lengths so that table payloads P = len + 3..5 and index payloads sweep the thresholds"""
    if U == 512:
        top = 2 * U if tier == "quick" else 3 * U + 8
        return list(range(0, top))
    out = set()
    for idx in (False, True):
        for P in pset(U, idx):
            for d in range(3, 10):   # record overhead: header (2..4 bytes) [+ rowid column for index entries]
                if P - d >= 0:
                    out.add(P - d)
    ls = sorted(out)
    if tier == "quick":
        # the full neighbourhood of the first thresholds, a sample of the multi-page ones
        X = sqlitefmt.max_local(U, False)
        ls = [l for l in ls if l <= X + 12 or rnd.random() < 0.35]
    return ls


def file_events(v, h, tier, rnd):
    """(B2) events from SQLite-written files."""
    sizes = [512, 1024, 4096, 65536] if tier == "quick" else PAGE_SIZES
    d = common.sub("c14-files")
    events, info = [], []
    for U in sizes:
        path = os.path.join(d, "pl%d.db" % U)
        lens = blob_lengths(U, tier, rnd)
        if U >= 16384 and tier == "quick":
            lens = lens[::3]
        gen.payload_db(path, U, lens, salt=common.seed())
        f = sqlitefmt.DBFile(path)
        m = {o["name"]: o for o in f.master()}
        tnodes, tents = f.tree(m["t"]["rootpage"])
        inodes, ients = f.tree(m["tb"]["rootpage"])
        # in-order entry lists by the independent reader
        trows = list(f.table_rows(m["t"]["rootpage"]))
        irows = list(f.index_entries(m["tb"]["rootpage"]))
        sq_t = gen.oracle_rows(path, "SELECT id, b FROM t ORDER BY id")
        sq_i = gen.oracle_rows(path, "SELECT b, id FROM t ORDER BY b, id")
        if len(trows) != len(sq_t) or len(irows) != len(sq_i):
            raise Infra("independent reader and SQLite disagree on row counts for %s" % path)
        req = os.path.join(d, "req%d.ndjson" % U)
        out = os.path.join(d, "res%d.ndjson" % U)
        common.write_ndjson(req, [{"db": path, "mode": "fresh", "ops": [
            {"id": 0, "op": "table_scan", "table": "t"}, {"id": 1, "op": "index_scan", "index": "tb"}]}])
        rc, txt, _ = common.run([h, "ops", req, out], timeout=900)
        if rc != 0:
            raise common.harness_failure(txt)
        res = common.read_ndjson(out)
        btree_pages = set(tnodes) | set(inodes) | {1}
        for r, rows, sq, isidx in ((res[0], trows, sq_t, False), (res[1], irows, sq_i, True)):
            name = "table t" if not isidx else "index tb"
            if r.get("panic") or r.get("err") or r["n"] != len(rows):
                v.report("c14:scan-failed:U=%d:%s" % (U, name),
                         "scan of %s (page size %d) failed: err=%r panic=%r rows=%d/%d" %
                         (name, U, r.get("err"), r.get("panic"), r["n"], len(rows)),
                         lambda: save_db("C14", path, "U%d-%s" % (U, "idx" if isidx else "tab")))
                continue
            # overflow pages read before each callback
            window, per_row = [], []
            for e in r["events"]:
                if e[0] == "P" and e[1] not in btree_pages:
                    window.append(e[1])
                elif e[0] == "C":
                    per_row.append(window)
                    window = []
            for k, row in enumerate(rows):
                if isidx:
                    rec, ov = row
                    got = [values.from_jval(j) for j in r["rows"][k]]
                    sqv = list(sq[k])
                else:
                    rowid, rec, ov = row
                    got = [values.from_jval(j) for j in r["rows"][k]][1:]
                    # the id column is stored as NULL in the record (rowid alias)
                    sqv = [("n",), sq[k][1]]
                    if values.from_jval(r["rows"][k][0]) != ("i", rowid) or sq[k][0] != ("i", rowid):
                        v.report("c14:rowid:U=%d" % U, "rowid mismatch at row %d of %s" % (k, path),
                                 lambda: save_db("C14", path, "U%d-rowid" % U))
                events.append({"op": "record", "bytes": list(rec), "res": rec_tla(got), "sq": rec_tla(sqv)})
                info.append({"file": path, "U": U, "index": isidx, "row": k, "P": len(rec), "kind": "record"})
                events.append({"op": "ovfl", "u": U, "p": len(rec), "idx": isidx, "res": len(per_row[k]), "sq": len(ov)})
                info.append({"file": path, "U": U, "index": isidx, "row": k, "P": len(rec), "kind": "ovfl",
                             "read": per_row[k], "chain": ov})
                v.nontrivial(("file", U, isidx, len(rec)))
        v.cov.setdefault("files", []).append({"page_size": U, "rows": len(trows), "table_depth": f.depth(m["t"]["rootpage"]),
                                              "index_depth": f.depth(m["tb"]["rootpage"])})
    # very long overflow chains (hundreds of pages): the number of overflow pages read is judged by TLC (OverflowPages),
    # the content by its digest (a 300 000-byte record as a TLA+ sequence is out of TLC's reach)
    import hashlib
    for U, lens in ((512, [61000, 61438, 126000, 300000]), (1024, [260000, 520000])) if tier == "quick" else \
            ((512, [61000, 61438, 126000, 300000, 1000000]), (1024, [260000, 520000]), (4096, [4200000]), (65536, [3000000])):
        path = os.path.join(d, "long%d.db" % U)
        gen.payload_db(path, U, lens, salt=common.seed() + 1)
        f = sqlitefmt.DBFile(path)
        m = {o["name"]: o for o in f.master()}
        trows = list(f.table_rows(m["t"]["rootpage"]))
        irows = list(f.index_entries(m["tb"]["rootpage"]))
        sq_t = gen.oracle_rows(path, "SELECT id, b FROM t ORDER BY id")
        sq_i = gen.oracle_rows(path, "SELECT b, id FROM t ORDER BY b, id")
        tnodes, _ = f.tree(m["t"]["rootpage"])
        inodes, _ = f.tree(m["tb"]["rootpage"])
        btree_pages = set(tnodes) | set(inodes) | {1}
        req, out = os.path.join(d, "lreq%d.ndjson" % U), os.path.join(d, "lres%d.ndjson" % U)
        common.write_ndjson(req, [{"db": path, "mode": "fresh", "ops": [
            {"id": 0, "op": "table_scan", "table": "t"}, {"id": 1, "op": "index_scan", "index": "tb"},
            {"id": 2, "op": "select_all", "table": "t", "cols": ["id", "b"]}, {"id": 3, "op": "rowid", "table": "t", "rowid": str(len(lens))}]}])
        rc, txt, _ = common.run([h, "ops", req, out], timeout=900)
        if rc != 0:
            raise common.harness_failure(txt)
        res = common.read_ndjson(out)

        def dig(vals):
            return hashlib.sha1(json.dumps([values.to_jval(x) for x in vals]).encode()).hexdigest()
        for r, rows, sq, isidx in ((res[0], trows, sq_t, False), (res[1], irows, sq_i, True)):
            name = "table t" if not isidx else "index tb"
            if r.get("panic") or r.get("err") or r["n"] != len(rows):
                v.report("c14:scan-failed:long:U=%d:%s" % (U, name), "scan of %s with payloads of %s bytes (page size %d) failed: err=%r panic=%r rows=%d/%d" %
                         (name, lens, U, r.get("err"), r.get("panic"), r["n"], len(rows)), lambda: save_db("C14", path, "long-U%d" % U))
                continue
            window, per_row = [], []
            for e in r["events"]:
                if e[0] == "P" and e[1] not in btree_pages:
                    window.append(e[1])
                elif e[0] == "C":
                    per_row.append(window)
                    window = []
            for k, row in enumerate(rows):
                rec, ov = (row[0], row[1]) if isidx else (row[1], row[2])
                got = [values.from_jval(j) for j in r["rows"][k]]
                if not isidx:
                    got = [got[0]] + got[2:]       # rowid, then the record without its NULL placeholder of the alias column
                want = list(sq[k])
                if dig(got) != dig(want):
                    v.report("c14:long-payload:U=%d:%s" % (U, "idx" if isidx else "tab"), "row %d of %s (payload %d bytes, %d overflow pages, page size %d) decoded to other bytes than SQLite returns"
                             % (k, name, len(rec), len(ov), U), lambda: save_db("C14", path, "long-U%d" % U))
                events.append({"op": "ovfl", "u": U, "p": len(rec), "idx": isidx, "res": len(per_row[k]), "sq": len(ov)})
                info.append({"file": path, "U": U, "index": isidx, "row": k, "P": len(rec), "kind": "ovfl", "read": per_row[k][:5], "chain": ov[:5]})
                v.nontrivial(("long", U, isidx, len(rec)))
        for r in res[2:]:
            if r.get("err") or r.get("panic"):
                v.report("c14:scan-failed:long:U=%d:%s" % (U, r.get("op")), "%s on payloads of %s bytes (page size %d) failed: err=%r panic=%r" %
                         (r.get("op"), lens, U, r.get("err"), r.get("panic")), lambda: save_db("C14", path, "long-U%d" % U))
    # record headers longer than 127 bytes (the header-size varint takes two bytes) and schema rows on page 1 that are
    # near / beyond the local-payload limit of that page (its usable size is the same as everywhere: U, not U - 100)
    import sqlite3
    for U in ((512, 4096) if tier == "quick" else (512, 1024, 4096, 65536)):
        path = os.path.join(d, "wide%d.db" % U)
        con = gen.connect(path, U)
        specs = {}
        for ncol in (100, 126, 127, 128, 140, 300):
            cols = ["c%d" % i for i in range(ncol)]
            con.execute("CREATE TABLE wide%d(%s)" % (ncol, ", ".join(cols)))
            for r_ in range(3):
                con.execute("INSERT INTO wide%d VALUES(%s)" % (ncol, ",".join("?" * ncol)), [(i * 7 + r_) if i % 3 else "t%d_%d" % (i, r_) for i in range(ncol)])
            specs["wide%d" % ncol] = cols
        con.execute("CREATE TABLE longtext(%s)" % ", ".join("t%d" % i for i in range(70)))
        con.execute("INSERT INTO longtext VALUES(%s)" % ",".join("?" * 70), ["x" * (60 + i) for i in range(70)])
        specs["longtext"] = ["t%d" % i for i in range(70)]
        con.commit()
        con.close()
        # further files with ONE object each (sqlite_master stays one leaf on page 1) whose definition has a length around U
        files = [(path, specs)]
        for k, target in enumerate([U - 150, U - 140, U - 135, U - 130, U - 120, U - 100, U - 36, U + 50, 2 * U + 10] if U <= 4096 else [U - 135, U + 50]):
            path2 = os.path.join(d, "ddl%d_%d.db" % (U, k))
            con = gen.connect(path2, U)
            stem = "CREATE TABLE d%d(a, b" % k
            colname = "p" + "q" * max(1, target - len(stem) - 8)
            con.execute("%s, %s)" % (stem, colname))
            con.execute("INSERT INTO d%d VALUES(1, 2, 3)" % k)
            con.commit()
            con.close()
            files.append((path2, {"d%d" % k: ["a", "b", colname]}))
        for pth, sp in files:
            req, out = os.path.join(d, "wreq%d.ndjson" % U), os.path.join(d, "wres%d.ndjson" % U)
            names = sorted(sp)
            common.write_ndjson(req, [{"db": pth, "mode": "keep", "ops": [{"op": "tables", "id": 0}] + [{"op": "select_all", "id": 1 + i, "table": t_, "cols": sp[t_]} for i, t_ in enumerate(names)]}])
            rc, txt, _ = common.run([h, "ops", req, out], timeout=600)
            if rc != 0:
                raise common.harness_failure(txt)
            res = {r_["id"]: r_ for r_ in common.read_ndjson(out)}
            for i, t_ in enumerate(names):
                r_ = res[1 + i]
                want = gen.oracle_rows(pth, "SELECT %s FROM %s" % (", ".join(sp[t_]), t_))
                got = [tuple(values.from_jval(j) for j in row) for row in r_.get("rows") or []]
                if r_.get("err") or r_.get("panic") or sorted(got) != sorted(want):
                    v.report("c14:wide-or-long-definition:U=%d:%s" % (U, "wide" if pth == path else "ddl"),
                             "table %s (%d columns, definition of %d bytes, page size %d): err=%r panic=%r, %d rows equal SQLite's: %s" %
                             (t_, len(sp[t_]), len(t_) + sum(len(c_) + 2 for c_ in sp[t_]) + 16, U, r_.get("err"), r_.get("panic"), len(got), sorted(got) == sorted(want)),
                             lambda pth=pth: save_db("C14", pth, "wide-U%d" % U))
                v.nontrivial(("wide", U, t_))
            if res[0].get("err"):
                v.report("c14:wide-or-long-definition:U=%d:tables" % U, "Tables() on %s failed: %r" % (pth, res[0].get("err")), lambda pth=pth: save_db("C14", pth, "wide-U%d" % U))
    return events, info


def save_db(prop, path, tag):
    import shutil
    dst = os.path.join(common.replay_dir(prop), "%s-%s" % (tag, os.path.basename(path)))
    shutil.copy(path, dst)
    return dst


def run(tier):
    v = common.Verdict("C14", tier)
    rnd = random.Random(common.seed())
    values.selftest()
    r = common.tlc("MC_Format", workers=8, timeout=600, name="mcformat")
    common.tlc_require_ok(r, "MC_Format")
    v.add_tlc(r)
    v.cov["mc_format_states"] = r.distinct
    h = common.build_harness()
    d = common.sub("c14")
    # (B1) call events
    reqs, evs = call_events(tier, rnd)
    inp, outp = os.path.join(d, "req.ndjson"), os.path.join(d, "res.ndjson")
    common.write_ndjson(inp, reqs)
    rc, txt, _ = common.run([h, "calls", inp, outp], timeout=600)
    if rc != 0:
        raise common.harness_failure(txt, "harness calls")
    res = common.read_ndjson(outp)
    events, info = [], []
    for rq, ev, rs in zip(reqs, evs, res):
        if rs.get("panic") or rs.get("err"):
            # well-formed inputs and plain truncations must never panic
            v.report("c14:call-panic:%s" % rq["op"], "%s(%s) panicked: %s" % (rq["op"], rq.get("hex", "")[:60], rs.get("panic") or rs.get("err")),
                     lambda rq=rq, rs=rs: common.write_replay("C14", "panic-%d.json" % rq["id"], {"req": rq, "res": rs}))
            continue
        ev = dict(ev, res=call_result_tla(ev, rs))
        events.append(ev)
        info.append({"kind": "call", "req": rq})
        v.nontrivial(("call", rq["op"], rq.get("u"), len(rq.get("hex", "")), rq.get("p", 0) if rq.get("u") == 512 else 0))
    ncalls = len(events)
    # (B2) file events
    fe, fi = file_events(v, h, tier, rnd)
    events += fe
    info += fi
    tr = os.path.join(d, "calls.ndjson")
    common.write_ndjson(tr, events)
    r = common.tlc("TraceCalls", files={tr: "calls.ndjson"}, workers=1, timeout=3000, name="c14-trace", heap="12g")
    if not r.ok:
        raise Infra("TraceCalls failed:\n" + (r.error or r.out)[-3000:])
    v.add_tlc(r)
    verdict = json.load(open(os.path.join(r.workdir, "verdict.json")))
    if verdict["n"] != len(events):
        raise Infra("TLC consumed %s of %d events" % (verdict["n"], len(events)))
    if verdict["specbad"]:
        k = verdict["specbad"][0] - 1
        raise Infra("Format.tla disagrees with real SQLite on %d events, e.g. %s" % (len(verdict["specbad"]), json.dumps(info[k])[:400]))
    for n in verdict["bad"]:
        i = info[n - 1]
        if i["kind"] == "call":
            rq = i["req"]
            key = "c14:call:%s:%s" % (rq["op"], json.dumps({k: rq[k] for k in rq if k != "id"}, sort_keys=True)[:120])
            v.report(key, "%s disagrees with Format.tla on %s" % (rq["op"], json.dumps(rq)[:200]),
                     lambda rq=rq, n=n: common.write_replay("C14", "call-%d.json" % n, {"req": rq}))
        else:
            key = "c14:file:%s:U=%d:%s:P=%d" % (i["kind"], i["U"], "index" if i["index"] else "table", i["P"])
            v.report(key, "%s cell with payload %d bytes on %d-byte pages: %s disagrees with Format.tla %s" %
                     ("index" if i["index"] else "table", i["P"], i["U"], i["kind"], json.dumps({k: i[k] for k in ("read", "chain") if k in i})),
                     lambda i=i: save_db("C14", i["file"], "U%d-P%d" % (i["U"], i["P"])))
    v.cov["traces_validated_against_impl"] = 1 + len(v.cov.get("files", [])) * 2
    v.cov["evaluations"] = len(events)
    v.cov["call_events"] = ncalls
    v.cov["file_events"] = len(events) - ncalls
    v.cov["rule"] = ("call events: calculateCellInPageBytes for every P in 0..3U (U=512) and threshold neighbourhoods of all 8 page sizes, "
                     "table and index; readVarint on encodings of 2^k-1, 2^k, 2^k+1 (k=0..64), random values, with trailing bytes, "
                     "truncated and non-canonical; parseRecord on records of the value grid in every integer width, long headers, "
                     "random rows, truncations. file events: per cell of SQLite-written tables/indexes sweeping the spill thresholds: "
                     "decoded record vs RecordDecode(raw bytes) and overflow pages read vs OverflowPages. non-trivial = distinct "
                     "(op, page size, length class)")
    for k in (0, ncalls // 2, ncalls - 1):
        v.sample(info[k]["req"])
    if fi:
        v.sample({k: fi[len(fi) // 2][k] for k in ("U", "index", "row", "P", "kind")})
    v.assumptions += ["SQLite 3.40.1 wrote the files and defines the expected values",
                      "vlib/sqlitefmt.py (independent reader) is cross-checked against SQLite row by row, not trusted",
                      "the exact value encoder vlib/values.py"]
    return v.finish()


def replay(path):
    print("replay for C14: re-run `tools/check C14`; stored artefact:", path)
    if path.endswith(".json"):
        data = json.load(open(path))
        h = common.build_harness()
        d = common.sub("c14-replay")
        inp, outp = os.path.join(d, "req.ndjson"), os.path.join(d, "res.ndjson")
        common.write_ndjson(inp, [data["req"]])
        common.run([h, "calls", inp, outp], timeout=60, check=True)
        rs = common.read_ndjson(outp)[0]
        print("current result:", json.dumps(rs)[:500])
        rq = data["req"]
        if rq["op"] == "local":
            ev = {"op": "local", "u": rq["u"], "p": rq["p"], "idx": rq["x"] != rq["u"] - 35}
        elif rq["op"] == "varint":
            ev = {"op": "varint", "bytes": list(bytes.fromhex(rq["hex"]))}
        else:
            ev = {"op": "record", "bytes": list(bytes.fromhex(rq["hex"]))}
        if rs.get("panic"):
            print("VIOLATION property=C14 replay=%s" % path)
            return 1
        ev["res"] = call_result_tla(ev, rs)
        tr = os.path.join(d, "calls.ndjson")
        common.write_ndjson(tr, [ev])
        r = common.tlc("TraceCalls", files={tr: "calls.ndjson"}, workers=1, timeout=120, name="c14-replay-tlc")
        verdict = json.load(open(os.path.join(r.workdir, "verdict.json")))
        if verdict["bad"]:
            print("VIOLATION property=C14 replay=%s" % path)
            return 1
        return 0
    # a database image: scan it and compare with SQLite
    h = common.build_harness()
    d = common.sub("c14-replay")
    req, out = os.path.join(d, "req.ndjson"), os.path.join(d, "res.ndjson")
    common.write_ndjson(req, [{"db": path, "mode": "fresh", "ops": [{"id": 0, "op": "table_scan", "table": "t"},
                                                                     {"id": 1, "op": "index_scan", "index": "tb"}]}])
    common.run([h, "ops", req, out], timeout=600, check=True)
    res = common.read_ndjson(out)
    sq_t = gen.oracle_rows(path, "SELECT id, NULL, b FROM t ORDER BY id")
    sq_i = gen.oracle_rows(path, "SELECT b, id FROM t ORDER BY b, id")
    bad = False
    for r, sq in ((res[0], sq_t), (res[1], sq_i)):
        got = [tuple(values.from_jval(j) for j in row) for row in r.get("rows", [])]
        if r.get("err") or r.get("panic") or got != sq:
            bad = True
            print("scan differs from SQLite: err=%r panic=%r rows=%d/%d" % (r.get("err"), r.get("panic"), len(got), len(sq)))
    if bad:
        print("VIOLATION property=C14 replay=%s" % path)
        return 1
    return 0

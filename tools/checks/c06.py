"""C06 A read holds SQLite's SHARED lock from its first page read until it returns.

(M) Locks.tla: every fcntl call of sqlittle's RLock/RUnlock/Open/Close and of SQLite's ladder is a separate action;
    TLC explores all interleavings of 2 handles in 2 processes with 2 writers (SharedWhileReading, Released,
    NoWriterWhileReading, YieldToWriters, ...), and finds the same-process counterexample.
(B) schedules executed by REAL processes (Go agents stopped at every lock/page/callback event, python SQLite writers)
    with the kernel's lock table (/proc/locks) recorded after every step are validated by TLC (TraceLocks.tla): the
    unobservable fcntl calls are silent steps of the acting process, the recorded table must be the specification's after
    every step; the property is evaluated on the recorded tables.
"""
import json, os, random, shutil
from vlib import common, lockrun
from vlib.common import Infra

SEL_META = {"op": "select", "table": "meta", "cols": ["k", "v"]}

OPS = {
    "select": {"op": "select", "table": "t", "cols": ["id", "a"]},
    "select_meta": SEL_META,
    "select_stop": {"op": "select", "table": "t", "cols": ["id"], "stop": 2},
    "select_rowid": {"op": "select_rowid", "table": "t", "rowid": "7", "cols": ["b"]},
    "indexed_select": {"op": "indexed_select", "table": "t", "index": "ta", "cols": ["id", "a"]},
    "indexed_select_eq": {"op": "indexed_select_eq", "table": "t", "index": "ta", "key": [["i", "3"]], "cols": ["id"]},
    "pk_select": {"op": "pk_select", "table": "w", "key": [["t", "6b3033"]], "cols": ["v"]},
    "columns": {"op": "columns", "table": "t"},
    "pk_select_alias": {"op": "pk_select", "table": "t", "key": [["i", "7"]], "cols": ["b", "id"]},
    "select_w": {"op": "select", "table": "w", "cols": ["k", "v"]},
    # exit paths
    "err_no_table": {"op": "select", "table": "nosuch", "cols": ["x"]},
    "err_no_column": {"op": "select", "table": "t", "cols": ["nosuch"]},
    "err_no_index": {"op": "indexed_select", "table": "t", "index": "nosuch", "cols": ["id"]},
    "err_fault": {"op": "select", "table": "t", "cols": ["id"], "fail_at": 4},
    "err_fault_header": {"op": "select", "table": "t", "cols": ["id"], "fail_at": 1},
    "err_fault_master": {"op": "select", "table": "t", "cols": ["id"], "fail_at": 2},
    "err_fault_short": {"op": "select", "table": "t", "cols": ["id"], "fail_at": 3, "fail_mode": "short"},
    "err_fault_rowid": {"op": "select_rowid", "table": "t", "rowid": "7", "cols": ["b"], "fail_at": 3},
    "err_fault_pk": {"op": "pk_select", "table": "w", "key": [["t", "6b3033"]], "cols": ["v"], "fail_at": 3},
    "err_fault_eq": {"op": "indexed_select_eq", "table": "t", "index": "ta", "key": [["i", "3"]], "cols": ["id"], "fail_at": 4},
    "err_fault_columns": {"op": "columns", "table": "t", "fail_at": 2},
    "err_fault_nested": {"op": "indexed_select", "table": "t", "index": "ta", "cols": ["id"], "fail_at": 7},
    "panic_cb": {"op": "select", "table": "t", "cols": ["id"], "panic_at": 2},
    "panic_cb_indexed": {"op": "indexed_select", "table": "t", "index": "ta", "cols": ["id"], "panic_at": 1},
}


def fresh(d, name):
    p = os.path.join(d, name + ".db")
    lockrun.make_db(p)
    return p


def sched_exit_paths(h, d, layout):
    """every operation x exit path, one handle, no writer: lock taken before the first read, held at every page and
    callback, released at the end"""
    out = []
    for name, op in OPS.items():
        r = lockrun.Runner(h, fresh(d, "exit-" + name), layout)
        try:
            r.open("h1")
            r.start("h1", op)
            r.finish("h1")
            r.close("h1")
        finally:
            r.shutdown()
        out.append(("exit:" + name, r.events, {"op": name, "res": {k: r.results.get("h1", {}).get(k) for k in ("err", "panic", "n")}}))
    return out


def sched_writer_vs_parked_reader(h, d, layout, rnd, n):
    """the reader is parked at a gate (after the lock, at a page read, inside the callback) while a real SQLite
    connection walks its ladder: BEGIN IMMEDIATE ok, COMMIT must be BUSY; after the reader returned COMMIT succeeds"""
    out = []
    positions = [("L",), ("P",), ("C",), ("C", "C"), ("P", "P", "P"), ("C", "P")]
    opnames = ["select_meta", "select", "indexed_select", "select_w", "select_stop", "panic_cb", "pk_select_alias", "pk_select", "indexed_select_eq"]
    for i in range(n):
        pos = positions[i % len(positions)]
        opn = opnames[(i // len(positions) + i) % len(opnames)]
        r = lockrun.Runner(h, fresh(d, "park-%d" % i), layout)
        try:
            r.open("h1")
            k = r.start("h1", OPS[opn])
            for want in pos[1:] if pos[0] == "L" else pos:
                if k == "done":
                    break
                k = r.run_until("h1", {want})
            r.sql("w1", "BEGIN IMMEDIATE")
            r.sql("w1", "UPDATE meta SET v = v + 1")
            c = r.sql("w1", "COMMIT", commits=True)
            if k != "done" and c.get("ok"):
                pass     # the specification will reject this trace (writer committed during a read)
            if i % 2 == 0:
                r.step("h1")
                r.sql("w1", "COMMIT", commits=not c.get("ok")) if not c.get("ok") else None
            r.finish("h1")
            if not c.get("ok"):
                c2 = r.sql("w1", "COMMIT", commits=True) if r.writer("w1").call(cmd="in_transaction").get("in_transaction") else None
            r.start("h1", SEL_META)
            r.finish("h1")
            r.close("h1")
        finally:
            r.shutdown()
        out.append(("park:%d:%s@%s" % (i, opn, "".join(pos)), r.events, {"op": opn, "parked_at": pos}))
    return out


def sched_two_handles(h, d, layout, rnd, n):
    """a second sqlittle handle opens / reads / closes while the first is parked inside its callback"""
    out = []
    variants = ["open", "open_close", "read", "read_close", "open_read_writer"]
    for i in range(n):
        var = variants[i % len(variants)]
        r = lockrun.Runner(h, fresh(d, "two-%s-%d" % (layout, i)), layout)
        try:
            r.open("h1")
            if var.startswith("read"):
                r.open("h2")
            r.start("h1", OPS["select"])
            r.run_until("h1", {"C"})
            if var in ("open", "open_close", "open_read_writer"):
                r.open("h2")
            if var in ("read", "read_close", "open_read_writer"):
                r.start("h2", OPS["select_meta"])
                r.finish("h2")
            if var in ("open_close", "read_close"):
                r.close("h2")
            r.step("h1")                       # h1 is still inside its transaction: page reads / callbacks
            if var == "open_read_writer":
                r.sql("w1", "BEGIN IMMEDIATE")
                r.sql("w1", "UPDATE meta SET v = v + 1")
                r.sql("w1", "COMMIT", commits=True)
            r.step("h1")
            r.finish("h1")
            r.close("h1")
        finally:
            r.shutdown()
        out.append(("two:%s:%d:%s" % (layout, i, var), r.events, {"variant": var, "layout": layout}))
    return out


NESTED = {
    "select_rowid": {"op": "select_rowid", "table": "t", "rowid": "7", "cols": ["b"]},
    "select": {"op": "select", "table": "meta", "cols": ["k"]},
    "indexed_select": {"op": "indexed_select", "table": "t", "index": "ta", "cols": ["id"]},
    "indexed_select_eq": {"op": "indexed_select_eq", "table": "t", "index": "ta", "key": [["i", "3"]], "cols": ["id"]},
    "pk_select": {"op": "pk_select", "table": "w", "key": [["t", "6b3033"]], "cols": ["v"]},
    "columns": {"op": "columns", "table": "t"},
    "rlock": {"op": "rlock"},
}


def sched_nested(h, d, layout):
    """the row callback calls another operation on the SAME handle.  The handle is locked, so the nested call is refused
    ('trying to lock a locked lock'); it must leave the outer transaction's lock alone: the remaining rows are still
    read under the SHARED lock and a writer still cannot commit"""
    out = []
    for i, (nname, nop) in enumerate(sorted(NESTED.items())):
        outer = ["select", "indexed_select", "select_w"][i % 3]
        r = lockrun.Runner(h, fresh(d, "nested-%s" % nname), layout)
        try:
            r.open("h1")
            k = r.start("h1", dict(OPS[outer], nested_at=2, nested=nop))
            ncb = 0
            while k != "done" and ncb < 3:          # park at the callback AFTER the nested call
                k = r.run_until("h1", {"C"})
                ncb += 1
            if k != "done":
                r.sql("w1", "BEGIN IMMEDIATE")
                r.sql("w1", "UPDATE meta SET v = v + 1")
                c = r.sql("w1", "COMMIT", commits=True)
                r.step("h1")
                r.step("h1")
            r.finish("h1")
            if r.writer("w1").call(cmd="in_transaction").get("in_transaction"):
                r.sql("w1", "COMMIT", commits=True)
            r.start("h1", SEL_META)
            r.finish("h1")
            r.close("h1")
        finally:
            r.shutdown()
        ne = ((r.results.get("h1") or {}).get("extra") or {})
        out.append(("nested:%s:in:%s" % (nname, outer), r.events, {"nested": nname, "outer": outer}))
    return out


def sched_error_at_lock(h, d, layout):
    """a long-lived handle whose next transaction fails right after the lock was taken: a hot journal appeared (the
    writer was killed mid-transaction), or the header turned unsupported (another connection switched to WAL).  The error
    exit must release the lock: SQLite can then recover / switch back, and the handle works again"""
    out = []
    for opn in ("select", "select_rowid", "indexed_select", "columns"):
        r = lockrun.Runner(h, fresh(d, "hot-%s" % opn), layout)
        errs = []
        try:
            r.open("h1")
            r.start("h1", SEL_META)
            r.finish("h1")
            r.sql("w1", "PRAGMA cache_size=1")
            r.sql("w1", "BEGIN")
            r.sql("w1", "UPDATE t SET b = b || 'yyyyyyyyyyyyyyyyyyyyyyyyyyyyyyyyyyyyyyyyyyyyyyyyyyyyyyyyyyyyyyyyyyyyyyyy', a = a + 100")
            r.kill("w1")
            for _ in range(2):
                r.start("h1", OPS[opn])
                r.finish("h1")
                errs.append(bool((r.results.get("h1") or {}).get("err")))
            r.sql("w2", "SELECT count(*) FROM t")         # real SQLite rolls the hot journal back
            r.start("h1", SEL_META)
            r.finish("h1")
            errs.append(bool((r.results.get("h1") or {}).get("err")))
            r.close("h1")
        finally:
            r.shutdown()
        out.append(("hotjournal:%s" % opn, r.events, {"op": opn, "variant": "hot journal under a long-lived handle", "errors": errs}))
    for opn in ("select", "indexed_select"):
        r = lockrun.Runner(h, fresh(d, "wal-%s" % opn), layout)
        errs = []
        try:
            r.open("h1")
            r.start("h1", SEL_META)
            r.finish("h1")
            r.sql("w1", "PRAGMA journal_mode=WAL")
            for _ in range(2):
                r.start("h1", OPS[opn])
                r.finish("h1")
                errs.append(bool((r.results.get("h1") or {}).get("err")))
            r.sql("w1", "PRAGMA journal_mode=DELETE")
            r.start("h1", SEL_META)
            r.finish("h1")
            errs.append(bool((r.results.get("h1") or {}).get("err")))
            r.close("h1")
        finally:
            r.shutdown()
        out.append(("walswitch:%s" % opn, r.events, {"op": opn, "variant": "header turned WAL under a long-lived handle", "errors": errs}))
    return out


def sched_second_step_refused(h, d, layout):
    """the reader's first lock step (pending byte) succeeds and its second (shared range) is refused: the pending byte
    must be released again on that path too; afterwards a real writer can commit and the handle reads again"""
    out = []
    for opn in ("select", "select_rowid", "indexed_select", "pk_select", "columns"):
        r = lockrun.Runner(h, fresh(d, "step2-%s" % opn), layout)
        try:
            r.open("h1")
            r.start("h1", SEL_META)
            r.finish("h1")
            r.foreign_lock("f1")
            r.start("h1", OPS[opn])
            r.finish("h1")
            r.foreign_unlock("f1")
            r.sql("w1", "BEGIN IMMEDIATE")
            r.sql("w1", "UPDATE meta SET v = v + 1")
            r.sql("w1", "COMMIT", commits=True)
            r.start("h1", SEL_META)
            r.finish("h1")
            r.close("h1")
        finally:
            r.shutdown()
        out.append(("step2refused:%s" % opn, r.events, {"op": opn, "variant": "shared range refused after the pending byte was granted"}))
    return out


def sched_refused_by_writer(h, d, layout):
    """a real SQLite writer rests in PENDING (its COMMIT is waiting for a third connection's SHARED lock) or EXCLUSIVE: the
    reader's request is refused at the first step -- whatever it took before giving up must be released again, and when
    the readers are gone the writer commits"""
    from checks import c07
    out = []
    for state in ("PENDING", "EXCLUSIVE"):
        for opn in ("select", "indexed_select", "select_rowid"):
            r = lockrun.Runner(h, fresh(d, "wref-%s-%s" % (state, opn)), layout)
            try:
                r.open("h1")
                r.start("h1", SEL_META)
                r.finish("h1")
                c07.park_writer(r, state, False)
                for _ in range(2):
                    r.start("h1", OPS[opn])
                    r.finish("h1")
                c07.release_writer(r, state)
                r.start("h1", SEL_META)
                r.finish("h1")
                r.close("h1")
            finally:
                r.shutdown()
            out.append(("writerrefuses:%s:%s" % (state, opn), r.events, {"op": opn, "variant": "refused by a writer in " + state}))
    return out


def sched_growth(h, d, layout):
    """the file grows (another connection commits) after the handle was opened; a later scan reads pages beyond the
    size at open: the lock must be held at every one of those reads too"""
    out = []
    for i, opn in enumerate(["select", "indexed_select"]):
        r = lockrun.Runner(h, fresh(d, "grow-%d" % i), layout)
        try:
            r.open("h1")
            r.start("h1", SEL_META)
            r.finish("h1")
            r.sql("w1", "BEGIN IMMEDIATE")
            r.sql("w1", "WITH RECURSIVE c(x) AS (SELECT 1000 UNION ALL SELECT x + 1 FROM c WHERE x < 1150) "
                        "INSERT INTO t SELECT x, x % 7, 'grown ' || x || hex(zeroblob(40)) FROM c")
            r.sql("w1", "UPDATE meta SET v = v + 1")
            r.sql("w1", "COMMIT", commits=True)
            r.start("h1", OPS[opn], gate_on=["L", "P", "C", "U"])
            r.finish("h1")
            r.start("h1", SEL_META)
            r.finish("h1")
            r.close("h1")
        finally:
            r.shutdown()
        out.append(("grow:%d:%s" % (i, opn), r.events, {"op": opn, "variant": "growth"}))
    return out


def report(v, prop, results, metas, layout):
    for name, res in results.items():
        meta = metas.get(name, {})
        cls = name.split(":")[0] + ":" + ":".join(name.split(":")[1:2])
        if not res["accepted"]:
            v.report("%s:rejected:%s:%s" % (prop, layout, name.split(":")[0]),
                     "schedule %s (%s): the kernel lock table recorded from the real processes is not a behaviour of Locks.tla; "
                     "stuck at %s" % (name, json.dumps(meta), json.dumps(res.get("stuck_at"))[:400]),
                     lambda name=name, res=res: common.write_replay(prop, "sched-%s.json" % name.replace(":", "_").replace("/", "_")[:60],
                                                                     {"schedule": name, "meta": meta, "stuck_at": res.get("stuck_at")}))
            continue
        for x in res["viol"]:
            for why in x["why"]:
                if layout == "same":
                    key = "%s:same-process:%s" % (prop, why)
                else:
                    key = "%s:%s:%s:%s" % (prop, why, layout, name.split(":")[0])
                v.report(key, "schedule %s: %s at step %s (kernel table %s)" % (name, why, x["line"]["ev"], json.dumps(x["line"]["table"])[:200]),
                         lambda name=name, x=x: common.write_replay(prop, "viol-%s.json" % name.replace(":", "_")[:60], {"schedule": name, "at": x["line"], "why": x["why"]}))


def run(tier):
    v = common.Verdict("C06", tier)
    rnd = random.Random(common.seed())
    r = common.tlc("MC_Locks", cfg="MC_Locks_sep.cfg", workers=16, timeout=900, name="mclocks", heap="8g")
    common.tlc_require_ok(r, "MC_Locks_sep")
    v.add_tlc(r)
    v.cov["mc_locks_sep"] = {"distinct_states": r.distinct}
    if tier == "thorough":
        # unbounded: the inductive invariant of LocksProof.tla (any number of handles in separate processes and of
        # writers, behaviours of any length) re-checked by the TLA+ proof system
        n_obl, wall = common.tlapm("LocksProof", deps=("Locks",))
        v.cov["tlaps_obligations_proved"] = n_obl
    r2 = common.tlc("MC_Locks", cfg="MC_Locks_same.cfg", workers=4, timeout=300, name="mclocks-same", heap="4g")
    v.cov["mc_locks_same_counterexample"] = bool(r2.violated)
    if not r2.violated:
        raise Infra("MC_Locks_same was expected to exhibit the same-process counterexample")
    h = common.build_harness()
    d = common.sub("c06")
    n = 12 if tier == "quick" else 60
    scheds = sched_exit_paths(h, d, "sep") + sched_writer_vs_parked_reader(h, d, "sep", rnd, n) + \
        sched_two_handles(h, d, "sep", rnd, 5 if tier == "quick" else 20) + sched_growth(h, d, "sep") + \
        sched_nested(h, d, "sep") + sched_error_at_lock(h, d, "sep") + sched_second_step_refused(h, d, "sep") + sched_refused_by_writer(h, d, "sep")
    errs_seen = [m["errors"] for name, _, m in scheds if "errors" in m]
    v.cov["error_at_lock_outcomes"] = errs_seen
    if not any(e[0] for e in errs_seen):
        raise Infra("no hot-journal / WAL-switch schedule made the operation fail: the error-exit schedules are vacuous")
    metas = {name: m for name, _, m in scheds}
    res = lockrun.validate(v, [(n_, e) for n_, e, _ in scheds], "sep", "c06")
    report(v, "C06", res, metas, "sep")
    same = sched_two_handles(h, d, "same", rnd, 5 if tier == "quick" else 20)
    metas_s = {name: m for name, _, m in same}
    res_s = lockrun.validate(v, [(n_, e) for n_, e, _ in same], "same", "c06same")
    report(v, "C06", res_s, metas_s, "same")
    allres = dict(res)
    allres.update(res_s)
    v.cov["traces_validated_against_impl"] = len(allres)
    v.cov["evaluations"] = sum(len(e) for _, e, _ in scheds + same)
    fam = {}
    for name, _, _ in scheds:
        fam[name.split(":")[0]] = fam.get(name.split(":")[0], 0) + 1
    fam["two_handles_same_process"] = len(same)
    v.cov["schedules"] = fam
    v.cov["accepted"] = sum(1 for x in allres.values() if x["accepted"])
    for name, evs, m in scheds + same:
        v.nontrivial((name.split(":")[0], m.get("op"), str(m.get("parked_at")), m.get("variant"), m.get("layout"), m.get("nested"), m.get("outer")))
    v.cov["rule_additions"] = ("(5) nested: the row callback calls each high level operation and RLock on the SAME handle (refused), a writer then "
                               "tries to commit while the outer scan is parked at its next callback; (6) error right after the lock: a hot journal left "
                               "by a killed writer / a header switched to WAL under a long-lived handle, twice, then SQLite recovers / switches back and "
                               "the handle reads again; (7) read faults at the header, the schema, a short read, in every lookup kind")
    v.cov["rule"] = ("schedules on real processes: (1) every high level operation x exit path (normal, early stop, missing table/column/index, "
                     "injected read error incl. in the nested lookup, callback panic recovered by the caller); (2) reader parked after the lock / at a "
                     "page read / inside the callback while a real SQLite connection does BEGIN IMMEDIATE, UPDATE, COMMIT (BUSY expected), COMMIT "
                     "after the reader returned; (3) a second handle opening / reading / closing while the first is inside its callback, in another "
                     "process and in the same process. Kernel lock table from /proc/locks after every step; judged by TLC (TraceLocks.tla). "
                     "non-trivial = distinct (family, operation, parking position, variant, layout)")
    v.sample({"schedule": scheds[0][0], "events": [{k: e[k] for k in ("who", "ev")} for e in scheds[0][1]][:12]})
    v.sample({"schedule": scheds[len(OPS) + 1][0], "events": [{k: e[k] for k in ("who", "ev", "table")} for e in scheds[len(OPS) + 1][1]][:8]})
    v.assumptions += ["/proc/locks is the kernel's POSIX lock table (Linux)", "SQLite 3.40.1 (python sqlite3) is the writer",
                      "the unobservable fcntl calls inside one API call are explained by silent steps of Locks.tla (any order the spec allows)"]
    return v.finish()


def replay(path):
    print(open(path).read()[:3000])
    print("re-run `tools/check C06` to judge on the current tree")
    return 0

"""C05 Corrupt or hostile files never crash or hang the reader.

(M) Corrupt.tla: the traversal (recursion budget, overflow chain walk) on ALL ill-formed page graphs of 2 (thorough: 3)
    pages -- pointers null / self / ancestor / wrong kind / beyond the file, payloads claiming more overflow pages than
    exist, cyclic chains: Robust (bounded page reads, never an undefined step).  With the overflow walk as the code had it
    (unbounded) TLC exhibits the hang.
(A) every corruption RECIPE the specification names (site x adversarial class) is applied, several times with different
    seeded choices of the site instance, to SQLite-written files of several page sizes; a worker process runs EVERY public
    operation on every image under a page-read budget with recover(); a panic, an exceeded budget or a dead process is a
    violation with the image as replay file.  Arbitrary bytes as -journal and unstructured mutations go through the same
    worker.  TLC judges the outcomes and the recipe coverage (TraceCorrupt.tla).
"""
import json, os, random, shutil, subprocess
from vlib import common, gen, patcher
from vlib.common import Infra

SITES = ["child-pointer", "rightmost-pointer", "overflow-first", "overflow-next", "cell-count", "cell-pointer", "payload-length",
         "record-header-size", "serial-type", "rowid-varint", "page-type", "master-rootpage", "master-sql", "header-field", "truncate", "free-bytes"]
PTR = ["zero", "self", "root", "other-kind", "beyond-file", "max32"]
APPLIES = {
    "child-pointer": PTR, "rightmost-pointer": PTR, "overflow-first": PTR, "overflow-next": PTR, "master-rootpage": PTR,
    "cell-count": ["zero", "plus-one", "doubled", "max32", "random-byte"], "cell-pointer": ["zero", "plus-one", "doubled", "max32", "random-byte"],
    "payload-length": ["zero", "plus-one", "minus-one", "doubled", "huge-length", "negative-varint"],   # + "shortened" (systematic, below)
    "record-header-size": ["zero", "plus-one", "minus-one", "doubled", "huge-length", "negative-varint"],
    "serial-type": ["zero", "plus-one", "minus-one", "doubled", "huge-length", "negative-varint"],
    "rowid-varint": ["zero", "plus-one", "minus-one", "doubled", "huge-length", "negative-varint"],
    "page-type": ["zero", "other-kind", "random-byte"], "master-sql": ["text-garbage", "zero", "cut"],
    "header-field": ["random-byte", "zero", "max32"], "free-bytes": ["random-byte", "zero", "max32"], "truncate": ["cut"],
    "journal-bytes": ["random-byte", "text-garbage", "cut"],
    "byte-sweep": ["zero", "max32", "plus-one", "minus-one", "huge-length", "doubled"],
    "journal-header": ["zero", "plus-one", "minus-one", "doubled", "max32", "huge-length", "cut"],
}


HOSTILE_SQL = [
    # (object whose sql is replaced, new sql)
    ("ser", "CREATE TABLE ser(a, b, z, PRIMARY KEY(nope))"),
    ("ser", "CREATE TABLE ser(a, b, z, PRIMARY KEY(nope, a))"),
    ("ser", "CREATE TABLE ser(a, b, z, PRIMARY KEY(a + 1))"),
    ("ser", "CREATE TABLE ser(a, b, z, PRIMARY KEY(a, b || z)) WITHOUT ROWID"),
    ("ser", "CREATE TABLE ser(a, b, z, UNIQUE(lower(b)))"),
    ("ser", "CREATE TABLE ser(a, b, z, UNIQUE(a, (b)))"),
    ("wr", "CREATE TABLE wr(k, v, PRIMARY KEY(k + 0)) WITHOUT ROWID"),
    ("ser", "CREATE TABLE ser(a, b, z, UNIQUE(nope))"),
    ("ser", "CREATE TABLE ser(a, b, z, PRIMARY KEY(nope)) WITHOUT ROWID"),
    ("ser", "CREATE TABLE ser(a, b, z, PRIMARY KEY(a)) WITHOUT ROWID"),
    ("ser", "CREATE TABLE ser(a INTEGER PRIMARY KEY, b, z)"),
    ("ser", "CREATE TABLE ser(a)"),
    ("ser", "CREATE TABLE ser(a, b, z, y, x, w DEFAULT 3, v NOT NULL)"),
    ("ser", "CREATE TABLE ser(a, a, a)"),
    ("ser", "CREATE TABLE ser(a, b, z, PRIMARY KEY(a, a, a))"),
    ("ser", "CREATE TABLE other(a, b, z)"),
    ("ser", "CREATE INDEX ser ON ser(a)"),
    ("ser", "CREATE TABLE ser(rowid, oid, _rowid_)"),
    ("ser", "CREATE TABLE ser(a PRIMARY KEY, b PRIMARY KEY, z PRIMARY KEY)"),
    ("ser", "CREATE TABLE ser(a PRIMARY KEY, b PRIMARY KEY, z PRIMARY KEY) WITHOUT ROWID"),
    ("ser", "CREATE TABLE ser(a, b, z) WITHOUT ROWID"),
    ("wr", "CREATE TABLE wr(k PRIMARY KEY, v)"),
    ("wr", "CREATE TABLE wr(k, v, PRIMARY KEY(nope)) WITHOUT ROWID"),
    ("wr", "CREATE TABLE wr(k, v, PRIMARY KEY(v, k, v)) WITHOUT ROWID"),
    ("wr", "CREATE TABLE wr(k INTEGER PRIMARY KEY, v) WITHOUT ROWID"),
    ("wr", "CREATE TABLE wr(k, v) WITHOUT ROWID"),
    ("wr", "CREATE TABLE wr(k PRIMARY KEY) WITHOUT ROWID"),
    ("wr", "CREATE TABLE wr(k, v, u, t, PRIMARY KEY(t, u)) WITHOUT ROWID"),
    ("wr", "CREATE TABLE wr(k UNIQUE, v UNIQUE, PRIMARY KEY(k, v), UNIQUE(v, k), UNIQUE(k)) WITHOUT ROWID"),
    ("ser_z", "CREATE INDEX ser_z ON ser(nope)"),
    ("ser_z", "CREATE INDEX ser_z ON ser(z, b, a, z, b, a)"),
    ("ser_z", "CREATE INDEX ser_z ON wr(k)"),
    ("ser_z", "CREATE INDEX ser_z ON nosuchtable(z)"),
    ("ser_z", "CREATE TABLE ser_z(z)"),
    ("ser_z", "CREATE INDEX ser_z ON ser(z COLLATE nosuchcollation DESC)"),
    ("ser_z", "CREATE UNIQUE INDEX ser_z ON ser(z) WHERE nope > 1"),
    ("ser_ba", "CREATE INDEX ser_ba ON ser(b)"),
    ("ser_ba", "CREATE INDEX ser_ba ON ser(b, a, z, b)"),
    ("deep", "CREATE TABLE deep(id, t, PRIMARY KEY(id DESC)) WITHOUT ROWID"),
    ("deep", "CREATE TABLE deep(t, id INTEGER PRIMARY KEY)"),
    ("deep_t", "CREATE INDEX deep_t ON deep(id)"),
    ("deep_t", "CREATE INDEX deep_t ON deep(nope, t, id)"),
    ("big", "CREATE TABLE big(id INTEGER PRIMARY KEY, t, PRIMARY KEY(nope))"),
]


# definitions cut at every length (a text that ends in the middle of a token, an operator, a string, a comment)
for _obj, _sql in (("ser", "CREATE TABLE ser(a, b, z, CHECK (a >= 1 AND b != 2 OR z <> 3 AND a << 1 | b & z), UNIQUE(a, b))"),
                   ("ser_z", "CREATE INDEX ser_z ON ser(z) WHERE z > 1 AND z <= 5 OR z || 'x' == 'y' AND z % 2 = 1 /* c */ -- d")):
    for _n in range(8, len(_sql)):
        HOSTILE_SQL.append((_obj, _sql[:_n]))
for _ch in "><|/%&=!*-+~.,(\"'[`;":
    HOSTILE_SQL.append(("ser", "CREATE TABLE ser(a, b, z, CHECK (a " + _ch))
    HOSTILE_SQL.append(("ser_z", "CREATE INDEX ser_z ON ser(z) WHERE z " + _ch))
    HOSTILE_SQL.append(("ser", "CREATE TABLE ser(a DEFAULT " + _ch))


def hostile_schemas(base_path, d):
    """copies of the sweep file whose sqlite_master.sql was replaced through writable_schema"""
    import sqlite3
    out = []
    for i, (obj, sql_) in enumerate(HOSTILE_SQL):
        p = os.path.join(d, "hostile%04d.db" % i)
        shutil.copy(base_path, p)
        con = sqlite3.connect(p)
        con.execute("PRAGMA writable_schema=ON")
        n = con.execute("UPDATE sqlite_master SET sql=? WHERE name=?", (sql_, obj)).rowcount
        con.commit()
        con.close()
        if n != 1:
            raise Infra("hostile schema: object %s not found" % obj)
        out.append((open(p, "rb").read(), "sql of %s := %s" % (obj, sql_)))
        os.remove(p)
    return out


def sweep_db(path, ps):
    """a small file whose records end in a value of every serial type (so that a record cut short by k bytes ends inside
    a value of every width), with an index, a WITHOUT ROWID table, an overflowing row and a two-level tree"""
    import sqlite3
    if os.path.exists(path):
        os.remove(path)
    con = sqlite3.connect(path)
    con.execute("PRAGMA page_size=%d" % ps)
    con.execute("CREATE TABLE ser(a, b, z)")
    lasts = [None, 5, 300, 70000, 1 << 25, (1 << 40) + 3, (1 << 60) + 7, 1.5, 0, 1, b"\x01\x02\x03", "xyz", -1, -(1 << 40)]
    for i, z in enumerate(lasts):
        con.execute("INSERT INTO ser VALUES(?,?,?)", (i, "t%d" % i, z))
    for i, z in enumerate(lasts):            # the same values first and in the middle
        con.execute("INSERT INTO ser VALUES(?,?,?)", (z, z, "e"))
    con.execute("CREATE INDEX ser_z ON ser(z)")
    con.execute("CREATE INDEX ser_ba ON ser(b, a)")
    con.execute("CREATE TABLE wr(k PRIMARY KEY, v) WITHOUT ROWID")
    con.execute("CREATE INDEX wr_v ON wr(v)")          # its entries are (v, k): a corrupt one may lack the key part
    for i, z in enumerate(lasts[1:]):
        con.execute("INSERT INTO wr VALUES(?,?)", (z, i))
    con.execute("CREATE TABLE emp(a, b)")              # no rows: its root page is a header followed by zeros
    con.execute("CREATE INDEX emp_a ON emp(a)")
    con.execute("CREATE TABLE big(id INTEGER PRIMARY KEY, t)")
    con.execute("INSERT INTO big VALUES(1, ?)", ("o" * (ps * 2 + 50),))
    con.execute("INSERT INTO big VALUES(2, 'small')")
    con.execute("CREATE TABLE deep(id INTEGER PRIMARY KEY, t)")
    for i in range(1, 3 * ps // 60):
        con.execute("INSERT INTO deep VALUES(?, ?)", (i * 3, "d" * 40))
    con.execute("CREATE INDEX deep_t ON deep(t, id)")
    con.commit()
    con.close()
    desc = gen.describe(path)
    # a table whose key column has a collation the reader does not know (a valid file: the application that wrote it
    # registered "mycoll"); made after describe(), whose own connection does not know the collation either
    con = sqlite3.connect(path)
    con.create_collation("mycoll", lambda a, b: (a > b) - (a < b))
    con.execute("CREATE TABLE wc(k TEXT COLLATE mycoll PRIMARY KEY, v) WITHOUT ROWID")
    con.execute("CREATE INDEX wc_v ON wc(v)")
    con.execute("CREATE TABLE rc(a TEXT COLLATE mycoll UNIQUE, b)")
    for i in range(6):
        con.execute("INSERT INTO wc VALUES(?,?)", ("key%d" % i, i % 3))
        con.execute("INSERT INTO rc VALUES(?,?)", ("val%d" % i, i))
    con.commit()
    con.close()
    desc["tables"]["wc"] = {"columns": [{"name": "k"}, {"name": "v"}], "indexes": {"wc_v": {}}}
    desc["tables"]["rc"] = {"columns": [{"name": "a"}, {"name": "b"}], "indexes": {"sqlite_autoindex_rc_1": {}}}
    return desc


def _worker_once(h, todo, d, name, limit):
    """one worker process over `todo`; returns (results, image the process died on or None, killed by the time limit?, stderr)"""
    inp, out = os.path.join(d, name + "-in.ndjson"), os.path.join(d, name + "-out.ndjson")
    common.write_ndjson(inp, todo)
    p = subprocess.run(["timeout", "-s", "KILL", str(limit), h, "worker", inp, out], stdout=subprocess.PIPE, stderr=subprocess.PIPE,
                       env=dict(os.environ, GOMEMLIMIT="6GiB", GOMAXPROCS="4"))
    results, started = {}, None
    if os.path.exists(out):
        for line in open(out):
            try:
                r = json.loads(line)
            except ValueError:
                continue
            if "start" in r:
                started = r["start"]
            else:
                results[r["id"]] = r
                started = None
    for f_ in (inp, out):
        if os.path.exists(f_):
            os.remove(f_)
    if p.returncode == 0:
        return results, None, False, ""
    return results, started, p.returncode in (137, -9), p.stderr.decode("utf-8", "replace")


def run_worker(h, reqs, d, tag):
    """runs the worker over all images, in chunks, several processes at a time.  A process that dies is attributed to the
    image it was working on (a crash the library did not contain) and the rest of its chunk goes to a new process.  A
    process killed by the chunk's time limit proves nothing about the image it happened to be at: that image is run again
    alone with its own limit, and only if it does not finish alone is it reported (as a hang)."""
    from concurrent.futures import ThreadPoolExecutor
    CH = 2500
    chunks = [reqs[a:a + CH] for a in range(0, len(reqs), CH)]

    def one(arg):
        k, chunk = arg
        results, crashed = {}, {}
        todo = list(chunk)
        rounds = 0
        while todo:
            rounds += 1
            res, died, killed, err = _worker_once(h, todo, d, "%s-c%d-r%d" % (tag, k, rounds), 900)
            results.update(res)
            if died is None and not killed and len(res) < len(todo) and err:
                raise Infra("worker died outside an image: %s" % err[-800:])
            if died is None:
                if killed:
                    raise Infra("worker killed by the time limit outside an image")
                break
            ids = [r["id"] for r in todo]
            if killed:
                alone = [r for r in todo if r["id"] == died]
                res1, died1, killed1, err1 = _worker_once(h, alone, d, "%s-c%d-alone%d" % (tag, k, rounds), 180)
                results.update(res1)
                if died1 is not None:
                    crashed[died] = "did not finish within 180 s when run alone" if killed1 else ((err1[:300] + " ... " + err1[-300:]) if len(err1) > 700 else err1)
            else:
                crashed[died] = (err[:300] + " ... " + err[-300:]) if len(err) > 700 else err
            todo = todo[ids.index(died) + 1:]
            if rounds > 200:
                raise Infra("too many worker crashes")
        return results, crashed
    results, crashed = {}, {}
    with ThreadPoolExecutor(max_workers=4) as ex:
        for res, cr in ex.map(one, list(enumerate(chunks))):
            results.update(res)
            crashed.update(cr)
    return results, crashed


def run(tier):
    v = common.Verdict("C05", tier)
    rnd = random.Random(common.seed())
    cfg = "MC_Corrupt.cfg" if tier == "quick" else "MC_Corrupt_thorough.cfg"
    r = common.tlc("Corrupt", cfg=cfg, workers=16, timeout=900, name="mccorrupt", heap="8g")
    common.tlc_require_ok(r, cfg)
    v.add_tlc(r)
    r2 = common.tlc("Corrupt", cfg="MC_Corrupt_unbounded.cfg", workers=4, timeout=300, name="mccorrupt-unb", heap="4g")
    if not r2.violated:
        raise Infra("the unbounded overflow walk was expected to violate Robust in the model")
    v.cov["mc_corrupt"] = {"cfg": cfg, "distinct_states": r.distinct, "unbounded_chain_counterexample": True}
    h = common.build_harness()
    d = common.sub("c05")
    bases = []
    for ps, n in ((512, 60), (1024, 40), (4096, 40)) if tier == "quick" else ((512, 120), (1024, 80), (2048, 60), (4096, 60), (65536, 30)):
        p = os.path.join(d, "base%d.db" % ps)
        desc = gen.tree_db(p, ps, random.Random(rnd.randrange(1 << 30)), n=n, longkeys=(ps == 512), pad=120)
        bases.append((p, desc, patcher.Patcher(p, rnd)))
    reps = 3 if tier == "quick" else 40
    reqs, meta = [], {}

    def add(img_bytes, site, cls, what, base, journal=None):
        i = len(reqs)
        ip = os.path.join(d, "img%05d.db" % i)
        open(ip, "wb").write(img_bytes)
        if journal is not None:
            open(ip + "-journal", "wb").write(journal)
        desc = base[1]
        tables = list(desc["tables"])
        idx = [[t, i_] for t, tt in desc["tables"].items() for i_ in tt["indexes"] if not i_.startswith("sqlite_autoindex_w")]
        cols = {t: [c["name"] for c in tt["columns"]] for t, tt in desc["tables"].items()}
        reqs.append({"id": i, "image": ip, "pages": max(1, len(img_bytes) // base[2].ps), "tables": tables, "indexes": idx, "cols": cols})
        meta[i] = {"site": site, "class": cls, "what": what, "base": os.path.basename(base[0])}
    for base in bases:
        pt = base[2]
        for site in SITES:
            for cls in APPLIES[site]:
                for _ in range(reps):
                    try:
                        res = pt.apply(site, cls)
                    except Exception as e:
                        raise Infra("patcher failed on %s/%s: %r" % (site, cls, e))
                    if res is None:
                        continue
                    add(res[0], site, cls, res[1], base)
        for cls in APPLIES["journal-bytes"]:
            for _ in range(reps):
                add(pt.data, "journal-bytes", cls, "arbitrary bytes as -journal", base, journal=pt.journal(cls))
    # the systematic part: every structured byte of a small file, every class; every payload length shortened by 2..8
    sweeps = 0
    for ps in (512,) if tier == "quick" else (512, 1024, 4096):
        sp = os.path.join(d, "sweep%d.db" % ps)
        sdesc = sweep_db(sp, ps)
        spt = patcher.Patcher(sp, rnd)
        sbase = (sp, sdesc, spt)
        offs = spt.sweep_offsets(body=6 if tier == "quick" else 16)
        if tier == "quick":
            # the two-level table "deep" has many similar cells: keep every byte of the other pages, every 4th of its leaves
            deep_pages = {p for p, (pg, root) in spt.pages.items() if root in (spt.roots.get("deep"), spt.roots.get("deep_t")) and pg.kind in ("tl", "il")}
            keep_first = {min(deep_pages)} if deep_pages else set()
            offs = [o for o in offs if (o // ps + 1) not in deep_pages or (o // ps + 1) in keep_first or o % 4 == 0]
        for off in offs:
            for cls in APPLIES["byte-sweep"]:
                res = spt.sweep(off, cls)
                if res is not None:
                    add(res[0], "byte-sweep", cls, res[1], sbase)
                    sweeps += 1
        for img, what in spt.shortened():
            add(img, "payload-length", "shortened", what, sbase)
            sweeps += 1
        # cell counts around the point where the cell pointer array reaches the end of the page, on the emptiest pages
        # (what lies behind their few cells is zeros: every "pointer" read from there is in range)
        for pno, (pg, root) in sorted(spt.pages.items()):
            if pg.ncells > 3 and pno != 1:
                continue
            off = spt.base(pno) + pg.hdr + 3
            for n_ in range(ps // 2 - 62, ps // 2 + 3):
                img = bytearray(spt.data)
                img[off:off + 2] = n_.to_bytes(2, "big")
                add(bytes(img), "cell-count", "window", "cell count of page %d := %d" % (pno, n_), sbase)
                sweeps += 1
        for img, what in hostile_schemas(sp, d):
            add(img, "master-sql", "inconsistent", what, sbase)
            sweeps += 1
        for cls, jb, what in spt.journal_headers():
            add(spt.data, "journal-header", cls, what, sbase, journal=jb)
            sweeps += 1
    v.cov["byte_sweep_images"] = sweeps
    results, crashed = run_worker(h, reqs, d, "w")
    lines, order = [], []
    errs = 0
    for rq in reqs:
        i = rq["id"]
        m = meta[i]
        if i in crashed:
            outcome, detail = "crash", crashed[i]
        elif i not in results:
            raise Infra("no result for image %d" % i)
        else:
            rs = results[i]
            errs += rs.get("errs", 0)
            kinds = {b["outcome"] for b in rs.get("bad") or []}
            outcome = "panic" if "panic" in kinds else "budget" if "budget" in kinds else "returned"
            detail = json.dumps((rs.get("bad") or [])[:3])
        lines.append({"site": m["site"], "class": m["class"], "outcome": outcome})
        order.append((i, outcome, detail))
        v.nontrivial((m["base"], m["site"], m["class"]))
    tr = os.path.join(d, "corrupt.ndjson")
    common.write_ndjson(tr, lines)
    t = common.tlc("TraceCorrupt", files={tr: "corrupt.ndjson"}, workers=1, timeout=900, name="c05-tlc")
    if not t.ok:
        raise Infra("TraceCorrupt failed (a recipe the specification does not name?):\n" + (t.error or t.out)[-2000:])
    v.add_tlc(t)
    verdict = json.load(open(os.path.join(t.workdir, "verdict.json")))
    if verdict["n"] != len(lines):
        raise Infra("TLC consumed %s of %d images" % (verdict["n"], len(lines)))
    for n in verdict["bad"]:
        i, outcome, detail = order[n - 1]
        m = meta[i]
        first = ""
        try:
            b = json.loads(detail)[0]
            first = b["op"].split(":")[0] + ":" + b["detail"][:60]
        except Exception:
            first = detail[:80]
        key = "C05:%s:%s" % (outcome, first)

        def save(i=i, m=m, detail=detail):
            dst = os.path.join(common.replay_dir("C05"), "img%05d-%s-%s.db" % (i, m["site"], m["class"]))
            shutil.copy(reqs[i]["image"], dst)
            if os.path.exists(reqs[i]["image"] + "-journal"):
                shutil.copy(reqs[i]["image"] + "-journal", dst + "-journal")
            json.dump({"image": dst, "recipe": m, "detail": detail, "request": dict(reqs[i], image=dst)}, open(dst + ".json", "w"), indent=1)
            return dst + ".json"
        v.report(key, "%s on an image made by %s/%s (%s; base %s): %s" % (outcome, m["site"], m["class"], m["what"], m["base"], detail[:300]), save)
    v.cov["traces_validated_against_impl"] = len(lines)
    v.cov["evaluations"] = len(lines)
    v.cov["operations_run"] = sum(r_.get("ops", 0) for r_ in results.values())
    v.cov["operations_returning_an_error"] = errs
    v.cov["recipes_named_by_spec"] = verdict["recipes"]
    v.cov["recipes_covered"] = verdict["covered"]
    v.cov["recipes_missing"] = verdict["missing"]
    v.cov["rule"] = ("every recipe (site x class) of Corrupt.tla applied %d times per base file (page sizes %s; long keys so that index entries overflow) with "
                     "seeded choice of the site instance; every image goes through ~150-300 public operations (open, Tables/Indexes/Info/Schema/Def, scans, "
                     "Rowid for 5 rowids, ScanMin/ScanEq/IndexedSelectEq/PKSelect with keys of 8 classes, ScanRange, Select, IndexedSelect, Columns, the driver) "
                     "under a budget of 200*(pages+31)+2000 page reads each. non-trivial = distinct (base, site, class)" % (reps, [b[2].ps for b in bases]))
    v.sample({"recipe": meta[0], "outcome": lines[0]["outcome"]})
    v.sample({"recipe": meta[len(reqs) // 2], "outcome": lines[len(reqs) // 2]["outcome"]})
    v.assumptions += ["'all byte strings' is not enumerable: the claim is all recipe classes x the generated base files x seeded site choices",
                      "a hang is judged by the deterministic page-read budget; exponential-but-finite work below the budget is not flagged"]
    return v.finish()


def replay(path):
    data = json.load(open(path))
    h = common.build_harness()
    d = common.sub("c05-replay")
    results, crashed = run_worker(h, [dict(data["request"], id=0)], d, "rp")
    if crashed or (results.get(0, {}).get("bad")):
        print("outcome now:", crashed or results[0]["bad"][:3])
        print("VIOLATION property=C05 replay=%s" % path)
        return 1
    print("every operation returned normally on this image now")
    return 0

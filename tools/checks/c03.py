"""C03 Index and primary-key equality search returns exactly the matching rows."""
import os, random
from vlib import common, values, btrace
from vlib.common import Infra
from checks import btfamily as bf
from checks.c01 import replay_generic


def eq_query(s, t, ix, key, select_cols):
    terms = bf.index_order_terms(t, ix)
    conds, params = bf.eq_where(terms, key)
    where = bf.PARTIAL.get(ix["name"])
    if where:
        conds.append("(" + where + ")")
    sql = "SELECT %s FROM %s%s ORDER BY %s" % (", ".join(select_cols), bf._q(t["name"]),
                                               (" WHERE " + " AND ".join(conds)) if conds else "", bf.order_by(terms))
    return sql, params


def build(v, suite, ops, rnd, tier, h, d):
    budget = 22 if tier == "quick" else 300
    for s in suite:
        tdb = s["tdb"]
        for tname, t in s["desc"]["tables"].items():
            for iname, ix in t["indexes"].items():
                nkey = sum(1 for c in ix["cols"] if c["key"])
                is_pk = ix["origin"] == "pk"
                if iname.lower() in tdb.objects:
                    root = tdb.root(iname)
                elif is_pk and t["without_rowid"]:
                    root = tdb.root(tname)
                else:
                    continue
                keys = bf.cut_keys(tdb, root, nkey, rnd, bf.budget_for(len(tdb.order[root]), budget))
                for k in keys:
                    k = k[:nkey]
                    sql, params = eq_query(s, t, ix, k, bf.id_cols(t))
                    want = bf.sq_ids(s, t, sql, params)
                    cls = "%s/%s/%s" % (s["name"], tname, iname)
                    if iname.lower() in tdb.objects:
                        i = ops.add_hl(s["name"], "indexed_select_eq", tname, s["desc"], index=iname, key=list(k), meta={"cls": "ise/" + cls})
                        ops.items[i]["sq"] = want
                    if is_pk:
                        i = ops.add_hl(s["name"], "pk_select", tname, s["desc"], key=list(k), meta={"cls": "pk/" + cls})
                        ops.items[i]["sq"] = want
                    v.nontrivial((s["name"], iname, k))


def run(tier):
    return bf.run_family("C03", tier, "range", build, {"complete"},
                         "IndexedSelectEq through every index and PKSelect through every index-backed or WITHOUT ROWID primary key of the "
                         "generated databases, keys of every prefix length 0..n drawn from stored entries (page-boundary and interior "
                         "entries, sample), their neighbours (+-1, int/real twins, 2^53 and 2^63 edges present in the data, case-swapped, "
                         "trailing space/tab, truncated), other storage classes, NULL, the empty key; the high level API derives collation "
                         "and direction from its own reading of the schema, the specification takes them from SQLite's index_xinfo; judged "
                         "by TLC: delivered rows = Reference (KeyEquals under Values.tla, in index order) = SQLite's "
                         "`WHERE +col COLLATE c IS ?` rows. non-trivial = distinct (db, index, key)")


def replay(path):
    return replay_generic("C03", path)

"""C19 The database/sql driver returns the native API's rows and cleans up.

(M) Driver.tla: producer goroutine / consumer over an unbuffered channel, cancel, wait group, error hand-off;
    exhaustive for <= 3 rows, every fault position, every point of Close / cancel: Cleanup, ErrBeforeClose, NoSilentShort,
    PrefixDelivered, FailureSurfaces, no deadlock.
(B) scenarios on the real driver through database/sql: Next x k then Close / context cancel + Close / drain, for every k
    (bounded), with GOMAXPROCS 1 and 4 and with/without letting the producer run first, with read faults injected into
    the statement's handle; observed: rows, rows.Err, Close result, file lock of the process afterwards (/proc/locks),
    goroutine count, pager activity after Close returned.  TLC accepts a scenario iff Driver.tla explains it
    (TraceDriver.tla, producer steps silent).  Rows of complete result sets are compared with the native Select by TLC.
"""
import json, os, random, sqlite3
from vlib import common, values, gen, lockrun
from vlib.common import Infra
from checks import btfamily as bf


def run(tier):
    v = common.Verdict("C19", tier)
    rnd = random.Random(common.seed())
    r = common.tlc("Driver", cfg="MC_Driver.cfg", workers=4, timeout=300, name="mcdriver")
    common.tlc_require_ok(r, "MC_Driver")
    # unbounded: any number of rows (DriverProof.tla, an inductive invariant checked by the TLA+ proof system)
    n_obl, _ = common.tlapm("DriverProof", deps=("Driver",), timeout=600, threads=4)
    v.cov["tlaps_obligations_proved"] = n_obl
    v.add_tlc(r)
    h = common.build_harness()
    d = common.sub("c19")
    db = os.path.join(d, "drv.db")
    desc = gen.tree_db(db, 1024, random.Random(rnd.randrange(1 << 30)), n=40, extreme=False, deep_rows=600)
    con = sqlite3.connect(db)
    # a table whose second row takes long to load (hundreds of overflow pages): Close arrives while the producer is inside it
    con.execute("CREATE TABLE slow(id INTEGER PRIMARY KEY, b)")
    con.execute("INSERT INTO slow VALUES(1, 'small'), (2, ?), (3, 'small too')", (b"S" * 300000,))
    con.commit()
    counts = {t: con.execute("SELECT count(*) FROM %s" % t).fetchone()[0] for t in ("r", "w", "alt", "e", "deep", "slow")}
    con.close()
    queries = [("SELECT * FROM alt", "alt", None), ("SELECT id, a, b FROM r", "r", ["id", "a", "b"]), ("select * from w", "w", None),
               ("SELECT q, p, d1 FROM alt", "alt", ["q", "p", "d1"]), ("SELECT * FROM e", "e", None), ("SELECT rowid, c FROM r", "r", ["rowid", "c"]),
               # `*` is expanded in place, wherever it stands
               ("SELECT q, * FROM alt", "alt", ["q", "*"]), ("SELECT d1, *, p FROM alt", "alt", ["d1", "*", "p"]), ("SELECT *, * FROM e", "e", ["*", "*"])]
    scen = []

    def add(**kw):
        kw["id"] = len(scen)
        kw.setdefault("db", db)
        scen.append(kw)
    reps = 1 if tier == "quick" else 6
    for q, t, cols in queries:
        n = counts[t]
        ks = sorted(set([0, 1, 2, 3, n - 1, n, n + 1] + ([rnd.randrange(0, n + 1) for _ in range(3)] if n > 4 else []))) if tier == "quick" else range(0, n + 2)
        for k in ks:
            if k < 0:
                continue
            for action in ("close", "cancel_close"):
                for gmp in (1, 4):
                    for yf in (False, True):
                        for _ in range(reps):
                            add(query=q, next_k=k, action=action, gomaxprocs=gmp, yield_first=yf, table=t, n=n, fault=False)
        add(query=q, next_k=-1, action="drain", gomaxprocs=4, yield_first=False, table=t, n=n, fault=False, compare=(t, cols))
        add(query=q, next_k=-1, action="drain", gomaxprocs=1, yield_first=True, table=t, n=n, fault=False, compare=(t, cols))
    # a table of many pages closed early: Close must STOP the producer, not let it run through the rest of the table
    for k in (0, 1, 2, 7, 40):
        for action in ("close", "cancel_close"):
            for yf in (False, True):
                add(query="SELECT id, t FROM deep", next_k=k, action=action, gomaxprocs=4, yield_first=yf, table="deep", n=counts["deep"], fault=False, stopcost=True)
    # Close / cancel while the producer is in the middle of a row that takes ~0.5 s to load (slow page reads): Close returns
    # only when the producer has stopped and released the lock
    for action in ("close", "cancel_close"):
        for k in (1, 0):
            add(query="SELECT id, b FROM slow", next_k=k, action=action, gomaxprocs=4, yield_first=True, table="slow", n=counts["slow"], fault=False, delay_us=1500)
    # read faults inside the statement's handle, at every read position of a scan of r
    for j in range(1, 26 if tier == "quick" else 60):
        for k, action in ((-1, "drain"), (1, "close"), (3, "cancel_close")):
            add(query="SELECT id, a, b FROM r", next_k=k, action=action, gomaxprocs=rnd.choice([1, 4]), yield_first=bool(j % 2), table="r", n=counts["r"],
                fault=True, fail_at=j)
        # the same as a short read (what a truncated file gives: io.EOF, which database/sql takes for the end of the rows
        # unless the driver says otherwise)
        add(query="SELECT id, a, b FROM r", next_k=-1, action="drain", gomaxprocs=rnd.choice([1, 4]), yield_first=bool(j % 2), table="r", n=counts["r"],
            fault=True, fail_at=j, fail_mode="short")
    # really truncated files: cut inside a page and at a page boundary, inside the table that is read
    # (cut from a copy without the big tables `deep` and `slow`, which lie at the end of the file)
    small = os.path.join(d, "small.db")
    shutil_ = __import__("shutil")
    shutil_.copy(db, small)
    c2 = sqlite3.connect(small, isolation_level=None)
    c2.execute("DROP TABLE slow")
    c2.execute("DROP TABLE deep")
    c2.execute("VACUUM")
    c2.close()
    c2 = sqlite3.connect(small)
    last_r = c2.execute("SELECT max(pageno) FROM dbstat WHERE name = 'r'").fetchone()[0]
    first_w = c2.execute("SELECT min(pageno) FROM dbstat WHERE name = 'w'").fetchone()[0]
    c2.close()
    size = os.path.getsize(small)
    # inside the last page of table r, at the boundary before it, and in the middle of the file
    for name, cut in (("cut-mid", (last_r - 1) * 1024 + 300), ("cut-page", (last_r - 1) * 1024), ("cut-half", (size // 2048) * 1024 + 17),
                      ("cut-w", (first_w - 1) * 1024 + 100)):
        tp = os.path.join(d, name + ".db")
        open(tp, "wb").write(open(small, "rb").read()[:cut])
        for q, t, cols in queries[:6]:
            add(query=q, next_k=-1, action="drain", gomaxprocs=4, yield_first=False, table=t, n=counts[t], fault=False, db=tp, truncated=True)
    # errors that must surface
    bad = [("SELECT * FROM nosuch", "query"), ("SELECT nosuch FROM r", "rows"), ("DELETE FROM r", "query"), ("INSERT INTO r VALUES(1)", "query"),
           ("this is not sql", "query"), ("SELECT id FROM r WHERE id = 1", "query"), ("CREATE TABLE x(a)", "query"), ("SELECT a, nosuch FROM r", "rows")]
    for q, where in bad:
        add(query=q, next_k=-1, action="drain", gomaxprocs=4, yield_first=False, table="r", n=counts["r"], fault=True, must_fail=where)
        add(query=q, next_k=-1, action="drain", gomaxprocs=4, yield_first=False, table="r", n=counts["r"], fault=True, must_fail=where, prepared=True)
    # prepared statements that stay open while the observations are taken
    for q, t, cols in queries[:3]:
        for k, action in ((0, "close"), (2, "cancel_close"), (-1, "drain")):
            add(query=q, next_k=k, action=action, gomaxprocs=4, yield_first=True, table=t, n=counts[t], fault=False, prepared=True)
    req, out = os.path.join(d, "req.ndjson"), os.path.join(d, "res.ndjson")
    common.write_ndjson(req, [{k: s[k] for k in s if k in ("id", "db", "query", "next_k", "action", "gomaxprocs", "yield_first", "fail_at", "fail_mode", "prepared", "delay_us")} for s in scen])
    rc, txt, _ = common.run([h, "driver", req, out], timeout=3000)
    if rc != 0:
        raise common.harness_failure(txt, "harness driver")
    res = {r_["id"]: r_ for r_ in common.read_ndjson(out)}
    schedules, metas, pairs = [], {}, []
    truncated_seen = {"native_err": 0, "native_ok": 0}
    for s in scen:
        rs = res[s["id"]]
        name = "s%d" % s["id"]
        metas[name] = {k: s[k] for k in s if k in ("query", "next_k", "action", "gomaxprocs", "yield_first", "fail_at", "fail_mode", "must_fail", "prepared", "truncated", "db")}
        if rs.get("panic"):
            v.report("C19:panic", "scenario %s panicked: %s" % (json.dumps(metas[name]), rs["panic"]),
                     lambda s=s, rs=rs: common.write_replay("C19", "panic-%d.json" % s["id"], {"scenario": metas["s%d" % s["id"]], "result": rs}))
            continue
        if s.get("truncated"):
            # what the native API says about the same truncated file decides: if it reports an error, so must the driver
            t = s["table"]
            allcols = [c["name"] for c in desc["tables"][t]["columns"]]
            nreq, nout = os.path.join(d, "t-req.ndjson"), os.path.join(d, "t-res.ndjson")
            common.write_ndjson(nreq, [{"db": s["db"], "mode": "fresh", "ops": [{"op": "select_all", "id": 0, "table": t, "cols": allcols}]}])
            common.run([h, "ops", nreq, nout], timeout=120, check=True)
            nat = common.read_ndjson(nout)[0]
            surfaced = bool(rs.get("query_err") or rs.get("next_err") or rs.get("close_err"))
            truncated_seen["native_err" if nat.get("err") else "native_ok"] += 1
            if nat.get("err") and not surfaced:
                v.report("C19:error-not-surfaced:truncated-file", "%r on a truncated file returned %d rows and no error through Query, Scan, rows.Err or Close; the native select reports %r after %d rows"
                         % (s["query"], len(rs.get("rows") or []), nat.get("err"), len(nat.get("rows") or [])),
                         lambda s=s, rs=rs: common.write_replay("C19", "truncated-%d.json" % s["id"], {"scenario": metas["s%d" % s["id"]], "result": {k_: rs[k_] for k_ in rs if k_ != "rows"}}))
            v.nontrivial((s["query"], os.path.basename(s["db"])))
            continue
        if s.get("must_fail"):
            surfaced = bool(rs.get("query_err") or rs.get("next_err") or rs.get("close_err"))
            if not surfaced:
                v.report("C19:error-not-surfaced:%s" % s["query"][:30], "%r returned %d rows and no error through Query, Scan, rows.Err or Close" % (s["query"], len(rs.get("rows") or [])),
                         lambda s=s, rs=rs: common.write_replay("C19", "noerr-%d.json" % s["id"], {"scenario": metas["s%d" % s["id"]], "result": rs}))
            if rs.get("query_err") and rs.get("locked"):
                v.report("C19:lock-left-after-failed-query", "%r failed (%s) but the process still holds the file lock while the statement is open" % (s["query"], rs["query_err"]),
                         lambda s=s, rs=rs: common.write_replay("C19", "locked-%d.json" % s["id"], {"scenario": metas["s%d" % s["id"]], "result": rs}))
            if rs.get("query_err") and "second query" in rs.get("query_err"):
                v.report("C19:statement-unusable-after-failed-query", "%r: %s" % (s["query"], rs["query_err"]),
                         lambda s=s, rs=rs: common.write_replay("C19", "second-%d.json" % s["id"], {"scenario": metas["s%d" % s["id"]], "result": rs}))
            if rs.get("query_err"):
                continue
        if rs.get("query_err"):
            if not s.get("fault") or not rs.get("fired"):
                v.report("C19:query-failed:%s" % s["query"][:30], "Query %r failed: %s" % (s["query"], rs["query_err"]),
                         lambda s=s, rs=rs: common.write_replay("C19", "qerr-%d.json" % s["id"], {"scenario": metas["s%d" % s["id"]], "result": rs}))
            continue        # the failure surfaced through Query: nothing to hand over
        fault = bool(s.get("fault")) and (bool(rs.get("fired")) or bool(s.get("must_fail")))
        evs = [{"ev": "reset", "n": s["n"], "fault": fault}]
        evs += [{"ev": e} for e in rs["events"]]
        evs.append({"ev": "settled", "locked": bool(rs["locked"]), "leak": bool(rs["leak"]), "late": bool(rs["late"])})
        if s.get("stopcost"):
            # one row step of this table: root-to-leaf path plus slack (the table has > 70 pages; a drained scan reads them all)
            evs[-1].update(closereads=int(rs.get("close_reads", 0)), rowcost=8)
        schedules.append((name, evs))
        v.nontrivial((s["query"], s["next_k"] if s["next_k"] < 4 else "k", s["action"], s["gomaxprocs"], s["yield_first"], fault))
        if s.get("compare"):
            t, cols = s["compare"]
            tt = desc["tables"][t]
            allcols = [c["name"] for c in tt["columns"]]
            want_cols = []
            for c_ in (cols or ["*"]):
                want_cols += allcols if c_ == "*" else [c_]
            if [c.lower() for c in rs.get("cols") or []] != [c.lower() for c in want_cols]:
                v.report("C19:columns:%s" % t, "columns of %r are %s, expected %s" % (s["query"], rs.get("cols"), want_cols),
                         lambda s=s, rs=rs: common.write_replay("C19", "cols-%d.json" % s["id"], {"scenario": metas["s%d" % s["id"]], "cols": rs.get("cols")}))
            # the native API on the same file
            nreq, nout = os.path.join(d, "n-req.ndjson"), os.path.join(d, "n-res.ndjson")
            common.write_ndjson(nreq, [{"db": db, "mode": "fresh", "ops": [{"op": "select_all", "id": 0, "table": t, "cols": want_cols}]}])
            common.run([h, "ops", nreq, nout], timeout=120, check=True)
            nat = common.read_ndjson(nout)[0]
            got = [tuple(values.from_jval(j) for j in row) for row in rs.get("rows") or []]
            want = [tuple(values.from_jval(j) for j in row) for row in nat.get("rows") or []]
            pairs.append(({"cls": "%s/%d" % (s["query"], s["id"]), "what": "database/sql %r" % s["query"], "sql": "native Select(%s, %s)" % (t, want_cols)}, got, want))
    prepared_again(v, "C19", h, d, db, desc, pairs)
    # two result sets open at the same time on ONE connection (sql.Conn, sql.Tx: the nested-loop join every application
    # writes): each returns all its rows, as the native select does
    over = []
    for i, (q, t, cols) in enumerate(queries[:4]):
        for kind in ("conn", "tx"):
            over.append({"id": len(over), "db": db, "query": q, "next_k": -1, "action": "drain", "gomaxprocs": 4, "yield_first": False, "overlap": kind, "_t": t, "_cols": cols})
    oreq, oout = os.path.join(d, "over-req.ndjson"), os.path.join(d, "over-res.ndjson")
    common.write_ndjson(oreq, [{k: s_[k] for k in s_ if not k.startswith("_")} for s_ in over])
    rc, txt, _ = common.run([h, "driver", oreq, oout], timeout=600)
    if rc != 0:
        raise common.harness_failure(txt, "harness driver")
    ores = {r_["id"]: r_ for r_ in common.read_ndjson(oout)}
    for s_ in over:
        ov = ores[s_["id"]].get("over") or {}
        problems = [k_ for k_ in ("begin_err", "conn_err", "err1", "err2") if ov.get(k_)]
        n_ = counts[s_["_t"]]
        if not problems and (len(ov.get("rows2") or []) != n_ or int(ov.get("rest1", -1)) != max(n_ - 1, 0)):
            problems.append("row counts %s / %s of %d" % (len(ov.get("rows2") or []), ov.get("rest1"), n_))
        if problems:
            v.report("C19:overlapping-result-sets:%s" % s_["overlap"], "two result sets of %r open on one %s: %s %s" % (s_["query"], s_["overlap"], problems, {k_: ov.get(k_) for k_ in problems if k_ in ov}),
                     lambda s_=s_, ov=ov: common.write_replay("C19", "overlap-%d.json" % s_["id"], {"scenario": {k: s_[k] for k in s_ if not k.startswith("_")}, "result": {k: ov[k] for k in ov if k != "rows2"}}))
        v.nontrivial(("overlap", s_["query"], s_["overlap"]))
    v.cov["overlapping_result_sets"] = len(over)
    # the same error / fault scenarios under the race detector build: the error hand-off (store, wait group, close of the
    # channel) must be ordered, an unordered one shows as a data race on the result set's fields
    hrace = common.build_harness(race=True)
    rsc = [s for s in scen if s.get("must_fail") or s.get("fail_at")][: (40 if tier == "quick" else 400)]
    rreq, rout = os.path.join(d, "race-req.ndjson"), os.path.join(d, "race-res.ndjson")
    common.write_ndjson(rreq, [{k: s[k] for k in s if k in ("id", "db", "query", "next_k", "action", "gomaxprocs", "yield_first", "fail_at", "prepared")} for s in rsc])
    import subprocess
    p = subprocess.run([hrace, "driver", rreq, rout], stdout=subprocess.PIPE, stderr=subprocess.PIPE, timeout=1800,
                       env=dict(os.environ, GORACE="halt_on_error=0 exitcode=66"))
    rerr = p.stderr.decode("utf-8", "replace")
    nraces = rerr.count("WARNING: DATA RACE")
    if p.returncode not in (0, 66):
        raise Infra("race-detector run of the driver scenarios failed rc=%d: %s" % (p.returncode, rerr[-1000:]))
    v.cov["truncated_file_scenarios"] = truncated_seen
    if not truncated_seen["native_err"]:
        raise Infra("no truncated-file scenario made the native select fail: the scenarios are vacuous")
    v.cov["race_detector_scenarios"] = len(rsc)
    v.cov["race_reports"] = nraces
    if nraces:
        import re
        m = re.search(r"WARNING: DATA RACE(.*?)(?:==================|\Z)", rerr, re.S)
        where = re.findall(r"\n\s+(\S+\(\))\n\s+(\S+:\d+)", m.group(1))[:2] if m else []
        v.report("C19:data-race:%s" % (where[0][0] if where else "?"), "%d data race reports in the driver's error hand-off, first: %s" % (nraces, where),
                 lambda: common.write_replay("C19", "race.json", {"reports": nraces, "first": rerr[rerr.find("WARNING: DATA RACE"):][:3000]}))
    results = lockrun.validate(v, schedules, "", "c19", module="TraceDriver", cfg="TraceDriver.cfg", fname="driver.ndjson", reset=True)
    for name, rr in results.items():
        if not rr["accepted"]:
            m = metas[name]
            rs = res[int(name[1:])]
            v.report("C19:rejected:%s:%s" % (m["action"], "fault" if m.get("fail_at") or m.get("must_fail") else "clean"),
                     "scenario %s: observations %s (locked=%s leak=%s late=%s next_err=%r close_err=%r) are not a behaviour of Driver.tla" %
                     (json.dumps(m), rs["events"][-6:], rs["locked"], rs["leak"], rs["late"], rs.get("next_err"), rs.get("close_err")),
                     lambda name=name, rs=rs: common.write_replay("C19", "scenario-%s.json" % name, {"scenario": metas[name], "result": {k: rs[k] for k in rs if k != "rows"}}))
    bf.rows_events(v, "C19", pairs, "c19")
    v.cov["traces_validated_against_impl"] = len(schedules)
    v.cov["evaluations"] = len(scen)
    v.cov["accepted"] = sum(1 for x in results.values() if x["accepted"])
    v.cov["faults_fired"] = sum(1 for s in scen if s.get("fail_at") and res[s["id"]].get("fired"))
    v.cov["rule"] = ("scenarios through database/sql on a generated database: 6 queries (`*` and column lists, rowid and WITHOUT ROWID tables, DEFAULT-completed "
                     "columns, empty table) x Next x k (0..3, n-1, n, n+1, sample; thorough: every k) x {Close, cancel+Close} x GOMAXPROCS {1,4} x producer "
                     "first or not; full drains compared with the native Select; a read fault at each of the first 25 page reads of the statement's handle x "
                     "{drain, close after 1, cancel after 3}; 8 statements that must fail. Observed after every scenario: file lock of the process, "
                     "goroutine count, pager activity after Close. non-trivial = distinct (query, k class, action, GOMAXPROCS, yield, fault)")
    v.sample({"scenario": metas[schedules[0][0]], "events": [e["ev"] for e in schedules[0][1]]})
    v.sample({"scenario": metas[schedules[-1][0]], "events": [e["ev"] for e in schedules[-1][1]]})
    v.assumptions += ["goroutine leaks are judged after a settle period of up to 200 ms", "schedules are driven by GOMAXPROCS and short yields, not by gates: the interleavings actually reached are sampled"]
    return v.finish()


def prepared_again(v, prop, h, d, db, desc, pairs):
    """a prepared statement executed again after another connection changed the table's definition (C19: `*` means the
    columns the table has NOW; C08: nothing remembered from an earlier state)"""
    # a prepared statement executed again after another connection changed the table's definition: `*` means the columns
    # the table has NOW
    import shutil
    again = []
    for i, (q, t, alter) in enumerate([("SELECT * FROM alt", "alt", "ALTER TABLE alt ADD COLUMN zz DEFAULT 7"),
                                      ("SELECT q, * FROM alt", "alt", "ALTER TABLE alt ADD COLUMN zz DEFAULT 'x'"),
                                      ("select * from w", "w", "ALTER TABLE w ADD COLUMN extra"),
                                      ("SELECT * FROM e", "e", "ALTER TABLE e RENAME COLUMN %s TO renamed" % desc["tables"]["e"]["columns"][0]["name"])]):
        p2 = os.path.join(d, "again%d.db" % i)
        shutil.copy(db, p2)
        code = "import sqlite3, sys\nc = sqlite3.connect(sys.argv[1])\nc.execute(sys.argv[2])\nc.commit()\nc.close()\n"
        again.append({"id": i, "db": p2, "query": q, "next_k": -1, "action": "drain", "gomaxprocs": 4, "yield_first": False, "prepared": True,
                      "between": [common.PYTHON, "-c", code, p2, alter], "_t": t, "_alter": alter})
    areq, aout = os.path.join(d, "again-req.ndjson"), os.path.join(d, "again-res.ndjson")
    common.write_ndjson(areq, [{k: s_[k] for k in s_ if not k.startswith("_")} for s_ in again])
    rc, txt, _ = common.run([h, "driver", areq, aout], timeout=600)
    if rc != 0:
        raise common.harness_failure(txt, "harness driver")
    ares = {r_["id"]: r_ for r_ in common.read_ndjson(aout)}
    for s_ in again:
        ag = ares[s_["id"]].get("again") or {}
        if ag.get("exec_err"):
            raise Infra("the ALTER between the two executions failed: %s" % ag["exec_err"])
        con = sqlite3.connect(s_["db"])
        allcols = [c[1] for c in con.execute("PRAGMA table_xinfo(%s)" % s_["_t"]).fetchall() if c[6] == 0]
        con.close()
        want_cols = []
        import re as _re
        for c_ in [x.strip() for x in _re.split(r"(?i)\bfrom\b", _re.sub(r"(?i)^\s*select\b", "", s_["query"]))[0].split(",")]:
            want_cols += allcols if c_ == "*" else [c_]
        key = "%s:prepared-after-schema-change:%s" % (prop, s_["_alter"].split()[3])
        if ag.get("query_err") or ag.get("err"):
            continue            # an error is a visible outcome (the property asks for errors not to be silent)
        if [c.lower() for c in ag.get("cols") or []] != [c.lower() for c in want_cols]:
            v.report(key, "prepared %r executed again after %r: columns %s, the table now has %s" % (s_["query"], s_["_alter"], ag.get("cols"), want_cols),
                     lambda s_=s_, ag=ag: common.write_replay(prop, "again-%d.json" % s_["id"], {"scenario": {k: s_[k] for k in s_ if k != "between"}, "again": {"cols": ag.get("cols")}}))
            continue
        nreq, nout = os.path.join(d, "an-req.ndjson"), os.path.join(d, "an-res.ndjson")
        common.write_ndjson(nreq, [{"db": s_["db"], "mode": "fresh", "ops": [{"op": "select_all", "id": 0, "table": s_["_t"], "cols": want_cols}]}])
        common.run([h, "ops", nreq, nout], timeout=120, check=True)
        nat = common.read_ndjson(nout)[0]
        got = [tuple(values.from_jval(j) for j in row) for row in ag.get("rows") or []]
        want = [tuple(values.from_jval(j) for j in row) for row in nat.get("rows") or []]
        pairs.append(({"cls": "again/%d" % s_["id"], "what": "prepared %r executed again after %r" % (s_["query"], s_["_alter"]), "sql": "native Select after the change"}, got, want))
        v.nontrivial(("again", s_["query"], s_["_alter"]))
    v.cov["prepared_statements_rerun_after_schema_change"] = len(again)


def driver_faults(v, prop, h, hrace, d, rnd, tier):
    """The fault part alone, for C12: a read fault (I/O error / short read) at each of the first page reads of a statement
    run through database/sql must surface through Next or Close -- judged by TLC on Driver.tla (NoSilentShort,
    FailureSurfaces), also in a race-detector build (the hand-off of the error to the consumer must be ordered)."""
    db = os.path.join(d, "drvfault.db")
    gen.tree_db(db, 1024, random.Random(rnd.randrange(1 << 30)), n=40, extreme=False)
    con = sqlite3.connect(db)
    n = con.execute("SELECT count(*) FROM r").fetchone()[0]
    con.close()
    scen = []
    for j in range(1, 22 if tier == "quick" else 60):
        for mode in ("err", "short"):
            scen.append({"id": len(scen), "db": db, "query": "SELECT id, a, b FROM r", "next_k": -1, "action": "drain", "gomaxprocs": rnd.choice([1, 4]),
                         "yield_first": bool(j % 2), "fail_at": j, "fail_mode": mode})
    req, out = os.path.join(d, "df-req.ndjson"), os.path.join(d, "df-res.ndjson")
    common.write_ndjson(req, scen)
    rc, txt, _ = common.run([h, "driver", req, out], timeout=1800)
    if rc != 0:
        raise common.harness_failure(txt, "harness driver")
    res = {r_["id"]: r_ for r_ in common.read_ndjson(out)}
    schedules = []
    fired = 0
    for s in scen:
        rs = res[s["id"]]
        if rs.get("panic"):
            v.report("%s:driver:panic" % prop, "database/sql scenario %s panicked: %s" % (json.dumps(s), rs["panic"]),
                     lambda s=s, rs=rs: common.write_replay(prop, "driver-panic-%d.json" % s["id"], {"scenario": s, "result": rs}))
            continue
        if rs.get("query_err") or not rs.get("fired"):
            continue
        fired += 1
        evs = [{"ev": "reset", "n": n, "fault": True}] + [{"ev": e} for e in rs["events"]]
        evs.append({"ev": "settled", "locked": bool(rs["locked"]), "leak": bool(rs["leak"]), "late": bool(rs["late"])})
        schedules.append(("s%d" % s["id"], evs))
    if not fired:
        raise Infra("no fault fired in the database/sql fault scenarios")
    results = lockrun.validate(v, schedules, "", prop.lower() + "-drv", module="TraceDriver", cfg="TraceDriver.cfg", fname="driver.ndjson", reset=True)
    for name, rr in results.items():
        if not rr["accepted"]:
            s, rs = scen[int(name[1:])], res[int(name[1:])]
            v.report("%s:driver:fault-not-reported:%s" % (prop, s["fail_mode"]),
                     "through database/sql, a %s at page read %d: observations %s (next_err=%r close_err=%r) are not a behaviour of Driver.tla: "
                     "the failure did not surface" % ("short read" if s["fail_mode"] == "short" else "read error", s["fail_at"], rs["events"][-5:], rs.get("next_err"), rs.get("close_err")),
                     lambda s=s, rs=rs: common.write_replay(prop, "driver-fault-%d.json" % s["id"], {"scenario": s, "result": {k: rs[k] for k in rs if k != "rows"}}))
    rreq, rout = os.path.join(d, "dfr-req.ndjson"), os.path.join(d, "dfr-res.ndjson")
    common.write_ndjson(rreq, scen[: (30 if tier == "quick" else 120)])
    import subprocess
    p = subprocess.run([hrace, "driver", rreq, rout], stdout=subprocess.PIPE, stderr=subprocess.PIPE, timeout=1800, env=dict(os.environ, GORACE="halt_on_error=0 exitcode=66"))
    rerr = p.stderr.decode("utf-8", "replace")
    if p.returncode not in (0, 66):
        raise common.harness_failure(rerr, "race-detector run of the driver fault scenarios (rc=%d)" % p.returncode)
    nraces = rerr.count("WARNING: DATA RACE")
    if nraces:
        v.report("%s:driver:data-race" % prop, "%d data race reports in the driver's hand-off of a read failure to the consumer" % nraces,
                 lambda: common.write_replay(prop, "driver-race.json", {"reports": nraces, "first": rerr[rerr.find("WARNING: DATA RACE"):][:3000]}))
    v.cov["driver_fault_scenarios"] = {"run": len(scen), "fired": fired, "validated": len(schedules), "race_build_reports": nraces}


def replay(path):
    print(open(path).read()[:3000])
    print("re-run `tools/check C19` to judge on the current tree")
    return 0

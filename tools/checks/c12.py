"""C12 Read failures are reported, never turned into silently missing rows."""
import random
from vlib import common, btrace
from checks import btfamily as bf
from checks.c01 import replay_generic
from checks.c13 import index_objects


def templates(s, rnd, tier):
    """one clean operation of every kind on every object of a database: (adder, kwargs, class)"""
    tdb, desc = s["tdb"], s["desc"]
    out = []
    for tname, t in desc["tables"].items():
        root = tdb.root(tname)
        ents = tdb.order[root]
        if t["without_rowid"]:
            out.append(("low", "index_scan", dict(obj=tname), "index_scan/" + tname))
            if ents:
                e = tdb.entries[rnd.choice(ents) - 1]["vals"]
                npk = sum(1 for c in t["columns"] if c["pk"])
                out.append(("hl", "pk_select", dict(table=tname, key=list(e[:min(2, npk)])), "pk_select/" + tname))
                out.append(("hl", "pk_select", dict(table=tname, key=list(e[:1])), "pk_select1/" + tname))
        else:
            out.append(("low", "table_scan", dict(obj=tname), "table_scan/" + tname))
            if ents:
                rid = tdb.entries[rnd.choice(ents) - 1]["rowid"]
                rid2 = tdb.entries[ents[0] - 1]["rowid"]
                out.append(("low", "rowid", dict(obj=tname, rowid=rid), "rowid/" + tname))
                out.append(("hl", "select_rowid", dict(table=tname, rowid=rid2), "select_rowid/" + tname))
                if any(c["pk"] for c in t["columns"]) and not any(i["origin"] == "pk" for i in t["indexes"].values()):
                    out.append(("hl", "pk_select", dict(table=tname, key=[("i", rid)]), "pk_select/" + tname))
        out.append(("hl", "select", dict(table=tname), "select/" + tname))
        for iname, ix in t["indexes"].items():
            if iname.lower() not in tdb.objects:
                continue
            out.append(("hl", "indexed_select", dict(table=tname, index=iname), "indexed_select/" + iname))
            iroot = tdb.root(iname)
            if tdb.order[iroot]:
                e = tdb.entries[rnd.choice(tdb.order[iroot]) - 1]["vals"]
                out.append(("hl", "indexed_select_eq", dict(table=tname, index=iname, key=list(e[:1])), "indexed_select_eq/" + iname))
    for name, is_table, kd, t, ix in index_objects(s):
        root = tdb.root(name)
        if not tdb.order[root]:
            continue
        kw = dict(obj=name) if is_table else dict(index=name)
        ents = tdb.order[root]
        for pick in (ents[len(ents) // 2], ents[0]):
            e = tdb.entries[pick - 1]["vals"]
            key = [(val, kd[i][0], kd[i][1]) for i, val in enumerate(e[:min(2, len(kd))])]
            out.append(("low", "scan_min", dict(key=key, **kw), "scan_min/" + name))
            out.append(("low", "scan_eq", dict(key=key[:1], **kw), "scan_eq/" + name))
        e2 = tdb.entries[ents[-1] - 1]["vals"]
        to = [(val, kd[i][0], kd[i][1]) for i, val in enumerate(e2[:1])]
        out.append(("low", "scan_range", dict(key=key[:1], to=to, **kw), "scan_range/" + name))
        if not is_table:
            out.append(("low", "index_scan", dict(**kw), "index_scan/" + name))
    return out


def add(ops, s, tpl, **extra):
    kind, op, kw, cls = tpl
    meta = {"cls": "%s/%s" % (s["name"], cls)}
    if kind == "low":
        return ops.add(s["name"], op, meta=meta, **kw, **extra)
    kw = dict(kw)
    table = kw.pop("table")
    return ops.add_hl(s["name"], op, table, s["desc"], meta=meta, **kw, **extra)


def positions(R, rnd, tier):
    if R <= (24 if tier == "quick" else 120):
        return list(range(1, R + 1))
    s = set(range(1, 11)) | set(range(R - 4, R + 1))
    s.update(rnd.sample(range(11, R - 4), min(R - 15, 9 if tier == "quick" else 60)))
    return sorted(s)


def run(tier):
    v = common.Verdict("C12", tier)
    rnd = random.Random(common.seed())
    bf.mc_btree(v, tier, "fault")
    h = common.build_harness()
    suite = bf.build_suite(tier, rnd, only=("A", "C", "P", "Z") if tier == "quick" else None)
    d = common.sub("c12")
    # pass 1: the clean operations (also gives the number of reads R of each)
    clean = btrace.OpSet()
    tpls = []
    for s in suite:
        clean.add_db(s["tdb"])
        for tpl in templates(s, rnd, tier):
            add(clean, s, tpl)
            tpls.append((s, tpl))
    r1 = clean.run(h, d, tag="c12-clean", timeout=3000)
    bf.judge(v, "C12", suite, clean, r1, {"fault", "lockfail"}, "clean run")
    # pass 2: a fault at the k-th page read for every k (bounded), as I/O error and as short read; lock failure
    faulty = btrace.OpSet()
    for s in suite:
        faulty.add_db(s["tdb"])
    nfault = 0
    for (s, tpl), it in zip(tpls, clean.items):
        R = it["res"].get("reads", 0)
        for j in positions(R, rnd, tier):
            add(faulty, s, tpl, fail=j, fail_mode="short" if j % 3 == 0 else "err")
            nfault += 1
        add(faulty, s, tpl, lockfail=True)
    # a long-lived handle: an operation meets a fault, the NEXT operations on the same handle run without one. They may
    # fail (the error may be remembered) but must never succeed with rows or schema objects missing
    ngroups = 0
    for s in suite:
        if s["name"].startswith("P"):
            continue
        tpl_of = [tpl for (s2, tpl) in tpls if s2 is s]
        first = [t_ for t_ in tpl_of if t_[1] in ("table_scan", "select", "index_scan", "indexed_select")][:6]
        for tpl, it in [(t_, i_) for (s2, t_), i_ in zip(tpls, clean.items) if s2 is s and t_ in first]:
            R = it["res"].get("reads", 0)
            for j in positions(R, rnd, tier)[: (10 if tier == "quick" else 60)]:
                g = "g%d" % ngroups
                ngroups += 1
                k = add(faulty, s, tpl, fail=j)
                faulty.items[k].update(group=g, conf=False)
                follow = [("list", "table"), ("list", "index")] + [("tpl", t_) for t_ in rnd.sample(tpl_of, 2)]
                for kind, x in follow:
                    k = faulty.add_list(s["name"], x, meta={"cls": "%s/after-fault/list-%s" % (s["name"], x)}, conf=False) if kind == "list" else add(faulty, s, x)
                    faulty.items[k].update(group=g, conf=False, lenient=True)
                    faulty.items[k]["h"]["id"] = k
    r2 = faulty.run(h, d, tag="c12-fault", timeout=3000)
    bf.judge(v, "C12", suite, faulty, r2, {"fault", "lockfail", "complete"}, "fault run")
    v.cov["follow_up_sequences_on_one_handle"] = ngroups
    # pass 3: the lock is REALLY refused by the kernel -- another process (this one) holds a write lock (a) on the shared
    # byte range only, so that the reader's first step (pending byte) succeeds and its second step fails, (b) on the pending
    # byte only.  (A real SQLite writer always holds the pending byte when it holds the range; C07 covers those states.)
    import fcntl, os
    for which, start, length in (("shared-range", 0x40000000 + 2, 510), ("pending-byte", 0x40000000, 1)):
        real = btrace.OpSet()
        for s in suite:
            real.add_db(s["tdb"])
        picked = [(s, tpl) for (s, tpl) in tpls if not s["name"].startswith("P")]
        picked = rnd.sample(picked, min(len(picked), 40 if tier == "quick" else 400))
        for s, tpl in picked:
            k = add(real, s, tpl, lockfail=True)
            real.items[k]["h"].pop("lock_fail", None)           # nothing is injected: the kernel refuses
            real.items[k]["conf"] = False
            real.items[k]["meta"]["cls"] += "/kernel-refuses-" + which
        fds = []
        try:
            for s in suite:
                fd = os.open(s["path"], os.O_RDWR)
                fcntl.lockf(fd, fcntl.LOCK_EX | fcntl.LOCK_NB, length, start, 0)
                fds.append(fd)
            r3 = real.run(h, d, tag="c12-lock-" + which, timeout=3000)
        finally:
            for fd in fds:
                os.close(fd)
        bf.judge(v, "C12", suite, real, r3, {"lockfail", "fault"}, "lock refused by the kernel (%s)" % which)
        v.cov["kernel_lock_refusals_" + which.replace("-", "_")] = len(real.items)
    # the same through database/sql: the failure must reach the consumer (Driver.tla), also under the race detector
    from checks import c19
    c19.driver_faults(v, "C12", h, common.build_harness(race=True), d, rnd, tier)
    fired = sum(1 for it in faulty.items if it["res"].get("fired"))
    for it in faulty.items:
        if it["res"].get("fired"):
            v.nontrivial((it["db"], it["meta"].get("cls"), it["o"]["fail"]))
    v.cov["suite"] = bf.suite_summary(suite)
    v.cov["evaluations"] = len(clean.items) + len(faulty.items)
    v.cov["faults_injected"] = nfault
    v.cov["faults_fired"] = fired
    v.cov["rule"] = ("per database and object one clean operation of every kind (Table.Scan, Rowid, Index.Scan, ScanMin, ScanEq, ScanRange; "
                     "Select, SelectRowid, PKSelect, IndexedSelect, IndexedSelectEq incl. the nested index->table lookups on rowid and WITHOUT "
                     "ROWID tables); then, on a fresh handle each, the k-th page read of the operation fails for every k in 1..R (sampled above "
                     "the limit, always the first 10 and last 5), as I/O error or short read, and once with the lock unobtainable; judged by TLC: "
                     "error returned and delivered rows a prefix of the Reference; zero rows on lock failure. "
                     "non-trivial = distinct (db, operation class, k) whose fault actually fired")
    for it in faulty.items[:1] + faulty.items[len(faulty.items) // 2:len(faulty.items) // 2 + 1]:
        v.sample({"db": it["db"], "op": it["h"], "rows": it["res"].get("n"), "err": it["res"].get("err"), "fired": it["res"].get("fired")})
    v.assumptions += ["faults are injected at the pager interface (the file pager's Page call) of the traced handle",
                      "SQLite 3.40.1 wrote the files; independent reader cross-checked"]
    return v.finish()


def replay(path):
    return replay_generic("C12", path)

"""C10 Table and index definitions are interpreted the way SQLite interprets them (also produces C16's locality evidence).

Schema.tla transcribes SQLite's rules (rowid alias, automatic index creation / de-duplication / numbering, collation
inheritance, WITHOUT ROWID).  ASTs are generated (seeded, small scope: <=4 columns, every constraint kind, duplicate and
overlapping constraints, ASC/DESC, COLLATE, WITHOUT ROWID, CREATE [UNIQUE] INDEX incl. partial), rendered to text in many
spellings (keyword case, "quoted" / [bracketed] / `backticked` identifiers, CONSTRAINT names, white space), executed by real
SQLite, and read back three ways: SQLite's PRAGMAs (validates Schema.tla: mode C), sqlittle's Database.Schema on the
stored text, sqlittle's parser on the stored text.  TLC judges every AST (TraceSchema.tla).
"""
import json, os, random, sqlite3
from vlib import common, sqlgen, gen, values
from vlib.common import Infra


def norm_res(r):
    if r.get("err") or r.get("panic") or not r.get("extra"):
        return {"err": True, "cols": [], "wr": False, "alias": "", "pk": [], "pkcols": [], "primarykey": "", "indexes": []}
    x = r["extra"]
    alias = [c["name"].lower() for c in x["columns"] if c["rowid"]]

    def ic(cs):
        return [{"name": (c["column"] or "").lower(), "coll": (c["collate"] or "").lower(), "desc": bool(c["desc"])} for c in cs]
    return {"err": False, "cols": [c["name"].lower() for c in x["columns"]], "wr": bool(x["without_rowid"]),
            "alias": alias[0] if alias else "", "pk": [c["name"] for c in ic(x["pk"])], "pkcols": ic(x["pk"]),
            "primarykey": (x["primary_key"] or "").lower(),
            "indexes": [{"name": i["name"].lower(), "cols": ic(i["cols"])} for i in x["indexes"]]}


def norm_parsed(p, kind):
    if not p or not p.get("ok") or p.get("kind") != kind:
        if kind == "table":
            return {"ok": False, "wr": False, "cols": [], "tcons": []}
        return {"ok": False, "name": "", "unique": False, "cols": []}
    if kind == "table":
        return {"ok": True, "wr": p["wr"],
                "cols": [dict({k: c[k] for k in ("name", "pk", "pkdesc", "autoinc", "unique", "notnull", "collate", "hasdefault", "ncheck", "references")},
                              defaultval=str(c.get("default", ""))) for c in p["cols"]],
                "tcons": [{"k": t["k"], "cols": [{"name": c["name"], "coll": c["coll"], "desc": c["desc"]} for c in t["cols"]]} for t in p["tcons"]]}
    return {"ok": True, "name": p["name"], "unique": p["unique"], "cols": [{"name": c["name"], "coll": c["coll"], "desc": c["desc"]} for c in p["cols"]]}


DATA_PAIRS = []


def collect(v, tier, rnd, h, d, prop):
    n_target = 1500 if tier == "quick" else 20000
    per_file = 150
    events, info = [], []
    made = rejected = 0
    fileno = 0
    i = 0
    while made < n_target:
        fileno += 1
        path = os.path.join(d, "schema%d.db" % fileno)
        con = gen.connect(path, 4096)
        con.execute("CREATE TABLE other(x PRIMARY KEY)")
        batch = []
        while len(batch) < per_file and made + len(batch) < n_target:
            i += 1
            ast = sqlgen.gen_ast(rnd, i)
            st = sqlgen.Style(rnd)
            if i % 40 == 7:
                # regularly: a name containing the quote character it is quoted with (written doubled), in every quoting style
                qn = [("b`t", "bt"), ('q"t', "dq"), ("m`n`o", "bt"), ('u""v', "dq")][(i // 40) % 4]
                tgt = ast["cols"][i % len(ast["cols"])]
                tgt["name"] = qn[0]
                if (i // 40) % 2 == 0:
                    tgt["type"], tgt["isint"], tgt["cons"] = "", False, []      # nothing after the name: what follows the quote decides
                for c_ in ast["cols"]:
                    c_["cons"] = [k_ for k_ in c_["cons"] if k_["k"] != "check"]
                ast["tcons"], ast["idx"] = [], []
                st.quote = qn[1]
            if any(not c["name"].isascii() for c in ast["cols"]) and rnd.random() < 0.75:
                # names beyond ASCII written bare with nothing (or one blank) between them and the punctuation around them
                st.quote = "bare"
                st.ws = rnd.choice(["", "", " "])
            sql = sqlgen.render_table(ast, st)
            try:
                con.execute(sql)
                isql = []
                for x in ast["idx"]:
                    s2 = sqlgen.render_index(ast, x, sqlgen.Style(rnd))
                    con.execute(s2)
                    isql.append(s2)
            except sqlite3.Error:
                rejected += 1
                try:
                    con.execute('DROP TABLE IF EXISTS "%s"' % ast["name"])
                except sqlite3.Error:
                    pass
                continue
            batch.append((ast, sql, isql))
        con.commit()
        # two rows per table with a different value in every column: whatever the interpretation of the definition gets wrong
        # about WHERE a column is stored (rowid alias, primary key columns first in a WITHOUT ROWID table, names spelled in
        # another case in a constraint) shows as values in the wrong columns
        datarows = {}
        if prop == "C10":
            for ast, sql, isql in batch:
                names = [c[1] for c in con.execute('PRAGMA table_xinfo("%s")' % ast["name"]).fetchall() if c[6] == 0]
                try:
                    for base in (10, 60):
                        con.execute('INSERT INTO "%s"(%s) VALUES(%s)' % (ast["name"], ",".join('"%s"' % n_.replace('"', '""') for n_ in names), ",".join("?" * len(names))),
                                    [base + j if base == 10 else base + len(names) - j for j in range(len(names))])
                    want = con.execute('SELECT %s FROM "%s"' % (",".join('"%s"' % n_.replace('"', '""') for n_ in names), ast["name"])).fetchall()
                    datarows[ast["name"]] = (names, want)
                except sqlite3.Error:
                    pass
            con.commit()
        rows = []
        for ast, sql, isql in batch:
            sq = sqlgen.sqlite_view(con, ast)
            stored = con.execute("SELECT sql FROM sqlite_master WHERE name=? COLLATE NOCASE", (ast["name"],)).fetchone()[0]
            istored = [con.execute("SELECT sql FROM sqlite_master WHERE name=? COLLATE NOCASE", (x["name"],)).fetchone()[0] for x in ast["idx"]]
            rows.append((ast, sq, stored, istored))
        con.close()
        # sqlittle: Schema on the file, parser on the stored texts
        req, out = os.path.join(d, "req%d.ndjson" % fileno), os.path.join(d, "res%d.ndjson" % fileno)
        common.write_ndjson(req, [{"db": path, "mode": "keep", "ops": [{"op": "schema", "table": a["name"], "id": k} for k, (a, _, _, _) in enumerate(rows)]}])
        rc, txt, _ = common.run([h, "ops", req, out], timeout=600)
        if rc != 0:
            raise common.harness_failure(txt)
        res = {r["id"]: r for r in common.read_ndjson(out)}
        # Def() of every object through every handle kind the low level API gives out (Table, Index, and the *Index of a
        # WITHOUT ROWID table, whose text is a CREATE TABLE): a parsed statement or an error, never a panic
        dops = []
        for a_, _, _, _ in rows:
            dops.append({"op": "index_def" if a_["wr"] else "table_def", "table": a_["name"], "id": len(dops)})
            dops.append({"op": "table_def" if a_["wr"] else "index_def", "table": a_["name"], "id": len(dops)})     # the wrong kind
            for x_ in a_["idx"]:
                dops.append({"op": "index_def", "index": x_["name"], "id": len(dops)})
        fq, fo = os.path.join(d, "freq%d.ndjson" % fileno), os.path.join(d, "fres%d.ndjson" % fileno)
        common.write_ndjson(fq, [{"db": path, "mode": "keep", "ops": dops}])
        rc, txt, _ = common.run([h, "ops", fq, fo], timeout=600)
        if rc != 0:
            raise common.harness_failure(txt)
        for r_ in common.read_ndjson(fo):
            if r_.get("panic"):
                o_ = dops[r_["id"]]
                v.report("%s:def-panic:%s" % (prop, o_["op"]), "%s on %s panicked: %s" % (o_["op"], o_.get("table") or o_.get("index"), r_["panic"]),
                         lambda o_=o_: common.write_replay(prop, "def-panic-%s.json" % (o_.get("table") or o_.get("index")), {"op": o_, "db": "a database holding the definition in question"}))
        if datarows:
            dreq, dout = os.path.join(d, "dreq%d.ndjson" % fileno), os.path.join(d, "dres%d.ndjson" % fileno)
            order = sorted(datarows)
            common.write_ndjson(dreq, [{"db": path, "mode": "keep", "ops": [{"op": "select_all", "table": t_, "cols": datarows[t_][0], "id": k} for k, t_ in enumerate(order)]}])
            rc, txt, _ = common.run([h, "ops", dreq, dout], timeout=600)
            if rc != 0:
                raise common.harness_failure(txt)
            dres = {r["id"]: r for r in common.read_ndjson(dout)}
            for k, t_ in enumerate(order):
                if dres[k].get("err"):
                    continue          # a definition sqlittle refuses: no rows, as the property allows
                got = sorted(tuple(values.from_jval(j) for j in row) for row in dres[k].get("rows") or [])
                want = sorted(tuple(values.from_sqlite(x) for x in row) for row in datarows[t_][1])
                stored_sql = [sql_ for a_, sql_, _ in batch if a_["name"] == t_][0]
                ast_ = [a_ for a_, _, _ in batch if a_["name"] == t_][0]
                tag_ = "integer-with-parameters/" if any("(" in c_["type"] and c_["type"].upper().startswith("INTEGER") for c_ in ast_["cols"]) else ""
                DATA_PAIRS.append(({"cls": "data/%s%d" % (tag_, len(DATA_PAIRS)), "what": "rows of a table defined as %r" % stored_sql[:300], "sql": "SELECT all columns"}, got, want))
        creq = []
        for k, (a, sq, stored, istored) in enumerate(rows):
            creq.append({"op": "sqlparse", "sql": stored, "id": len(creq)})
            for s2 in istored:
                creq.append({"op": "sqlparse", "sql": s2, "id": len(creq)})
        cin, cout = os.path.join(d, "creq%d.ndjson" % fileno), os.path.join(d, "cres%d.ndjson" % fileno)
        common.write_ndjson(cin, creq)
        rc, txt, _ = common.run([h, "calls", cin, cout], timeout=600)
        if rc != 0:
            raise common.harness_failure(txt, "harness calls")
        cres = common.read_ndjson(cout)
        ci = 0
        for k, (a, sq, stored, istored) in enumerate(rows):
            pr = cres[ci]
            ci += 1
            ipr = cres[ci:ci + len(istored)]
            ci += len(istored)
            for x in [pr] + ipr:
                if x.get("panic"):
                    v.report("%s:parser-panic" % prop, "sql.Parse panicked on %r: %s" % (stored[:200], x["panic"]),
                             lambda stored=stored: common.write_replay(prop, "panic-%d.json" % made, {"sql": stored}))
            if res[k].get("panic"):
                v.report("%s:schema-panic" % prop, "Database.Schema panicked on %r: %s" % (stored[:200], res[k]["panic"]),
                         lambda stored=stored: common.write_replay(prop, "schema-panic-%d.json" % made, {"sql": stored}))
            events.append({"ast": sqlgen.tla_ast(a), "sq": sq, "res": norm_res(res[k]),
                           "parsed": norm_parsed(pr.get("res"), "table"), "iparsed": [norm_parsed(x.get("res"), "index") for x in ipr]})
            info.append({"sql": stored, "isql": istored, "res": res[k].get("extra"), "err": res[k].get("err"), "sq": sq,
                         "parsed": pr.get("res")})
            made += 1
    v.cov["asts"] = made
    v.cov["rejected_by_sqlite"] = rejected
    return events, info


def judge(v, prop, events, info, d, owned):
    tr = os.path.join(d, "schema.ndjson")
    common.write_ndjson(tr, events)
    r = common.tlc("TraceSchema", files={tr: "schema.ndjson"}, workers=1, timeout=2400, name="schema-tlc", heap="8g")
    if not r.ok:
        raise Infra("TraceSchema failed:\n" + (r.error or r.out)[-3000:])
    v.add_tlc(r)
    verdict = json.load(open(os.path.join(r.workdir, "verdict.json")))
    if verdict["n"] != len(events):
        raise Infra("TLC consumed %s of %d ASTs" % (verdict["n"], len(events)))
    if verdict["specbad"]:
        k = verdict["specbad"][0] - 1
        raise Infra("Schema.tla disagrees with real SQLite on %d definitions, e.g. %s\n SQLite: %s" %
                    (len(verdict["specbad"]), info[k]["sql"], json.dumps(info[k]["sq"])))
    other = 0
    for b in verdict["bad"]:
        i = info[b["i"] - 1]
        for why in b["why"]:
            if why not in owned:
                other += 1
                continue
            cls = classify(events[b["i"] - 1], why)
            v.report("%s:%s:%s" % (prop, why, cls), "%s: sqlittle describes %r differently from SQLite (%s); sqlittle: %s" %
                     (why, i["sql"][:300] + " ; " + " ; ".join(i["isql"]), cls, json.dumps(i["res"] if why == "schema" else i["parsed"])[:500]),
                     lambda i=i, b=b: common.write_replay(prop, "def-%d.json" % b["i"], {"sql": i["sql"], "indexes": i["isql"], "sqlite": i["sq"], "sqlittle": i["res"]}))
    if other:
        print("NOTE: %d definitions also fail a predicate owned by the sibling property (C10/C16)" % other)
    return verdict


def classify(e, why):
    """a coarse class of the disagreement, used as the finding key"""
    ast, res = e["ast"], e["res"]
    if why != "schema":
        # which element leaked: compare per column
        return "locality"
    sq = e["sq"]
    # the textual order of UNIQUE and PRIMARY KEY DESC inside ONE column decides the direction of the shared index
    # in SQLite; sqlittle's parser does not keep that order (known finding)
    for c in ast["cols"]:
        ks = [k["k"] for k in c["cons"]]
        if "unique" in ks and "pk" in ks and ks.index("unique") < ks.index("pk") and next(k for k in c["cons"] if k["k"] == "pk")["desc"]:
            return "unique-before-primary-key-desc-in-one-column"
    # INTEGER with parameters -- INTEGER(8) -- is not the type name INTEGER: no rowid alias in SQLite; sqlittle's grammar
    # drops the parameters (known finding)
    # (as a rowid alias in a rowid table, as the "integer primary key made last" in a WITHOUT ROWID table)
    for c in ast["cols"]:
        if "(" in c.get("type", "") and c["type"].upper().startswith("INTEGER"):
            single_pk = any(k["k"] == "pk" for k in c["cons"]) or \
                any(t["k"] == "pk" and len(t["cols"]) == 1 and t["cols"][0]["name"].lower() == c["name"].lower() for t in ast["tcons"])
            if single_pk:
                return "integer-with-parameters-read-as-integer"
    names_sq = {i["name"] for i in sq["indexes"]}
    extra = [i["name"] for i in res["indexes"] if i["name"] not in names_sq]
    if extra:
        return "index-that-does-not-exist"
    for i in res["indexes"]:
        j = next(x for x in sq["indexes"] if x["name"] == i["name"])
        if [c["name"] for c in j["cols"]] != [c["name"] for c in i["cols"]]:
            return "index-name-denotes-other-columns"
        if [(c["coll"] or "binary") for c in i["cols"]] != [c["coll"] for c in j["cols"]]:
            return "index-collation"
        if [c["desc"] for c in i["cols"]] != [c["desc"] for c in j["cols"]]:
            return "index-direction"
    if res["alias"] != sq["alias"]:
        return "rowid-alias"
    if ast["wr"]:
        return "without-rowid-primary-key"
    return "other"


def run(tier):
    v = common.Verdict("C10", tier)
    rnd = random.Random(common.seed())
    h = common.build_harness()
    d = common.sub("c10")
    del DATA_PAIRS[:]
    events, info = collect(v, tier, rnd, h, d, "C10")
    judge(v, "C10", events, info, d, {"schema"})
    from checks import btfamily as bf
    bf.rows_events(v, "C10", DATA_PAIRS, "c10")
    v.cov["tables_whose_rows_were_compared"] = len(DATA_PAIRS)
    accepted = sum(1 for e in events if not e["res"]["err"])
    v.cov["accepted_by_sqlittle"] = accepted
    v.cov["traces_validated_against_impl"] = len(events)
    v.cov["evaluations"] = len(events)
    for e in events:
        a = e["ast"]
        v.nontrivial((a["wr"], len(a["cols"]), len(a["tcons"]), len(a["idx"]), len(e["sq"]["indexes"]), e["sq"]["alias"] != "", e["res"]["err"]))
    v.cov["rule"] = ("seeded ASTs (1..4 columns; PRIMARY KEY column/table level ASC/DESC/AUTOINCREMENT, UNIQUE, COLLATE, NOT NULL, NULL, DEFAULT, CHECK, "
                     "REFERENCES in shuffled textual order; up to 3 table constraints with deliberate near-duplicates differing in direction or "
                     "collation; WITHOUT ROWID; up to 2 CREATE [UNIQUE] INDEX incl. partial) rendered in random spellings, accepted by real SQLite; "
                     "TLC: Interpret(ast) = SQLite's PRAGMAs (else exit 2) and sqlittle's Schema is an error or agrees on columns, WITHOUT ROWID, "
                     "rowid alias, primary key, and every index it reports (name -> key columns, collations, directions). non-trivial = distinct "
                     "(wr, #cols, #table constraints, #indexes, #sqlite indexes, alias?, rejected?)")
    v.sample({"sql": info[0]["sql"], "indexes": info[0]["isql"], "sqlite": info[0]["sq"]})
    v.sample({"sql": info[len(info) // 2]["sql"], "sqlite": info[len(info) // 2]["sq"]})
    v.assumptions += ["SQLite 3.40.1 accepted and stored every definition and reports its own interpretation through PRAGMAs",
                      "expression indexes and generated columns are not generated (sqlittle may reject them: covered by C01's odd definitions)"]
    return v.finish()


def replay(path):
    data = json.load(open(path))
    print(json.dumps(data, indent=1)[:3000])
    print("re-run `tools/check C10` to judge on the current tree")
    return 0

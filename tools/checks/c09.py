"""C09 A crashed writer's unfinished transaction is never read as data.

(M) Journal.tla: the writer transaction at system-call grain, crash at any point incl. torn writes, three journal modes,
    with and without sync: NeverReadsUnfinished, PostCommitReadable, AtomicCommit (exhaustive, 3 modified pages).
(A)/(B) a real SQLite writer (in-place fixed-width UPDATE of every row, tiny cache so pages spill before commit) runs
    under an LD_PRELOAD shim and is killed at its k-th file operation for every k (and at every torn half-write); for
    each image: the completed system calls are validated by TLC as a behaviour of the writer model (binds the model of
    SQLite to real SQLite), sqlittle reads the files with a fresh handle and with a handle opened BEFORE the crash,
    real SQLite recovers a copy; TLC judges the recorded outcomes (C09) and compares them with the model's.
"""
import json, os, random, re, shutil, sqlite3, subprocess
from vlib import common, gen
from vlib.common import Infra

ROWS = 60
SHIM = os.path.join(common.VERIF, "build", "crashshim.so")


def ensure_shim():
    if not os.path.exists(SHIM) or os.path.getmtime(SHIM) < os.path.getmtime(os.path.join(common.VERIF, "tools", "crashshim.c")):
        os.makedirs(os.path.dirname(SHIM), exist_ok=True)
        rc, txt, _ = common.run(["gcc", "-O1", "-shared", "-fPIC", "-o", SHIM, os.path.join(common.VERIF, "tools", "crashshim.c"), "-ldl"], timeout=120)
        if rc != 0:
            raise Infra("cannot build the crash shim: " + txt[-1000:])


def base_db(path, ps, rows):
    con = gen.connect(path, ps)
    con.execute("CREATE TABLE t(id INTEGER PRIMARY KEY, v INT, pad TEXT)")
    con.execute("BEGIN")
    for i in range(rows):
        con.execute("INSERT INTO t VALUES(?,?,?)", (i, 100000 + i, "p" * (ps // 5)))
    con.execute("COMMIT")
    con.close()


def shim_env(match, log, kill_at=0, torn=False):
    env = ["LD_PRELOAD=" + SHIM, "VERIF_SHIM_MATCH=" + match, "VERIF_SHIM_LOG=" + log]
    if kill_at:
        env.append("VERIF_SHIM_KILL_AT=%d" % kill_at)
    if torn:
        env.append("VERIF_SHIM_TORN=1")
    return env


def writer_cmd(db, mode, sync, env, newdb=0, sector=512):
    w = os.path.join(common.VERIF, "tools", "writer.py")
    if newdb:
        return ["/usr/bin/env"] + env + [common.PYTHON, w, "crashnew", db, mode, "3", sync, str(newdb), str(sector)]
    return ["/usr/bin/env"] + env + [common.PYTHON, w, "crashtxn", db, mode, "3", sync, str(sector)]


def parse_log(path, ps):
    out = []
    for line in open(path):
        f = line.split()
        out.append({"n": int(f[0]), "op": f[1], "file": f[2], "off": int(f[3]), "len": int(f[4]), "hex": f[5]})
    return out


def abstract_events(calls, ps, upto, torn_last, modified, orig_pages=1 << 30, sector=512):
    """system calls 1..upto-1 completed (call `upto` cut short when torn_last) -> writer actions of Journal.tla"""
    evs = []
    hdr = None           # the journal header write in progress: (next offset, content prefix)
    rec = None           # page number of a record in progress, parts seen
    parts = 0
    journaled = set()
    started = False

    def maybe_start():
        nonlocal started
        if not started and journaled == modified:
            pass
    seq = calls[:upto - 1] + ([dict(calls[upto - 1], torn=True)] if torn_last and upto <= len(calls) else [])
    for c in seq:
        torn = c.get("torn", False)
        if c["op"] == "fsync":
            continue
        if c["file"] == "j":
            if c["op"] == "unlink" or (c["op"].startswith("ftruncate") and c["off"] == 0):
                evs.append({"ev": "finalize"})
            elif c["op"] in ("pwrite", "write"):
                if hdr is not None and rec is None and c["off"] == hdr[0] and c["hex"] == hdr[1] and c["len"] == hdr[2] and c["off"] % sector != 0:
                    # a further chunk of the same header: a copy of it, filling the header's sector
                    evs.append({"ev": "jpad", "torn": torn})
                    hdr = (c["off"] + c["len"], c["hex"], c["len"])
                    continue
                if rec is None and c["len"] == 4:
                    rec, parts = int(c["hex"][:8], 16), 1
                    if torn:
                        evs.append({"ev": "jrec", "p": rec, "torn": True})
                        rec = None
                elif rec is not None:
                    parts += 1
                    if torn:
                        evs.append({"ev": "jrec", "p": rec, "torn": True})
                        rec = None
                    elif parts == 3:
                        evs.append({"ev": "jrec", "p": rec, "torn": False})
                        journaled.add(rec)
                        rec = None
                elif c["len"] == 12:
                    evs.append({"ev": "jcount", "torn": torn})
                elif c["len"] == 28 and set(c["hex"]) <= {"0"}:
                    evs.append({"ev": "finalize"}) if not torn else evs.append({"ev": "finalize"})
                else:
                    evs.append({"ev": "jhdr", "torn": torn})
                    hdr = (c["off"] + c["len"], c["hex"], c["len"])
        else:
            if c["op"] in ("pwrite", "write"):
                pno = c["off"] // ps + 1
                evs.append({"ev": "dbwrite" if pno <= orig_pages else "dbappend", "p": pno, "torn": torn})
    if rec is not None:
        evs.append({"ev": "jrec", "p": rec, "torn": True})      # died between the parts of a record
    # the commit phase begins once every modified page is journaled and the last header is synced
    out, jr = [], set()
    placed = False
    for i, e in enumerate(evs):
        if not placed and jr == modified and e["ev"] in ("dbwrite", "finalize") and \
                not any(x["ev"] in ("jrec", "jhdr", "jcount") for x in evs[i:]):
            # only after the header count of the last segment (sync mode) / immediately (nosync)
            out.append({"ev": "startcommit"})
            placed = True
        out.append(e)
        if e["ev"] == "jrec" and not e["torn"]:
            jr.add(e["p"])
    return out


def classify(rows):
    if rows is None:
        return "error"
    if rows == "notable":
        return "old"
    vs = [r for r in rows]
    if len(vs) != ROWS:
        return "mixed"
    old = all(v == 100000 + i for i, v in vs)
    new = all(v == 101000 + i for i, v in vs)
    return "old" if old else "new" if new else "mixed"


def sqlittle_rows(res):
    if res.get("err") or res.get("panic"):
        return None
    out = []
    for row in res.get("rows") or []:
        out.append((int(row[0][1]), int(row[1][1]) if row[1][0] == "i" else None))
    return out


def lowlevel_rows(res):
    """rows of Table.Scan on t(id INTEGER PRIMARY KEY, v, pad): [rowid, NULL, v, pad]"""
    if res.get("err") or res.get("panic"):
        return None
    out = []
    for row in res.get("rows") or []:
        out.append((int(row[0][1]), int(row[2][1]) if len(row) > 2 and row[2][0] == "i" else None))
    return out


def run_config(v, h, d, ps, mode, sync, tier, rnd, tag, newdb=False, sector=512):
    ensure_shim()
    cdir = os.path.join(d, tag)
    os.makedirs(cdir, exist_ok=True)
    base = os.path.join(cdir, "base", "crash.db")
    os.makedirs(os.path.dirname(base), exist_ok=True)
    if newdb:
        open(base, "wb").close()          # a brand-new (empty) database file
    else:
        base_db(base, ps, ROWS)
    orig_pages = os.path.getsize(base) // ps
    # reference run: the complete syscall log
    ref = os.path.join(cdir, "ref")
    os.makedirs(ref)
    shutil.copy(base, os.path.join(ref, "crash.db"))
    log = os.path.join(ref, "log.txt")
    rc, txt, _ = common.run(writer_cmd(os.path.join(ref, "crash.db"), mode, sync, shim_env("crash.db", log), ps if newdb else 0, sector), timeout=120)
    if rc != 0:
        raise Infra("reference writer run failed: " + txt[-500:])
    calls = parse_log(log, ps)
    N = len(calls)
    if N < 10:
        raise Infra("the shim logged only %d calls: interposition does not work" % N)
    written = {c["off"] // ps + 1 for c in calls if c["file"] == "d" and c["op"] in ("pwrite", "write")}
    modified = {p for p in written if p <= orig_pages}
    appended = {p for p in written if p > orig_pages}
    # crash points
    points = [(k, False) for k in range(1, N + 2)]
    points += [(k, True) for k in range(1, N + 1) if calls[k - 1]["op"] in ("pwrite", "write") and calls[k - 1]["len"] > 1]
    if tier == "quick":
        keep = set()
        for k, t in points:
            c = calls[k - 1] if k <= N else None
            interesting = c is None or c["file"] == "d" or c["len"] in (12, 28) or c["op"] in ("unlink",) or c["op"].startswith("ftrunc") \
                or k <= 8 + (sector // min(ps, sector) if sector > 512 else 0) or k >= N - 6 or (c["file"] == "j" and c["len"] >= 28 and c["len"] != ps and c["len"] != 4)
            if interesting or rnd.random() < 0.12:
                keep.add((k, t))
        points = [p for p in points if p in keep]
    batches, batches2, exps = [], [], []
    for (k, torn) in points:
        xd = os.path.join(cdir, "x%d%s" % (k, "t" if torn else ""))
        os.makedirs(xd)
        db = os.path.join(xd, "crash.db")
        shutil.copy(base, db)
        sel = {"op": "select", "table": "t", "cols": ["id", "v"]}
        cmd = writer_cmd(db, mode, sync, shim_env("crash.db", os.path.join(xd, "log.txt"), k if k <= N else 0, torn), ps if newdb else 0, sector)
        i0 = len(exps) * 10
        # the handle opened before the crash has read the header and the schema; every other experiment it has
        # also read (and cached) the table itself
        # ... and every third one is cold: opened on the healthy file, nothing read yet when the writer dies
        warm = dict(sel, id=i0) if len(exps) % 3 == 0 else {"op": "columns", "table": "t", "id": i0} if len(exps) % 3 == 1 else {"op": "noop", "id": i0}
        if newdb:
            # nothing to open before the first transaction: only the crash, then a fresh handle
            batches.append({"db": db, "mode": "keep", "ops": [{"op": "exec", "id": i0 + 1, "args": cmd}]})
        else:
            ops_ = [warm, {"op": "exec", "id": i0 + 1, "args": cmd}, dict(sel, id=i0 + 2)]
            if len(exps) % 2 == 1:
                # one explicit transaction of the low level API with several calls in it: if the first is refused, so must
                # the following ones be (nothing may be remembered as "already checked")
                ops_ += [{"op": "rlock", "id": i0 + 5}, {"op": "table_scan", "table": "t", "no_lock": True, "id": i0 + 6},
                         {"op": "table_scan", "table": "t", "no_lock": True, "id": i0 + 7}, {"op": "runlock", "id": i0 + 8}]
            batches.append({"db": db, "mode": "keep", "ops": ops_})
        batches2.append({"db": db, "mode": "fresh", "ops": [dict(sel, id=i0 + 3)]})
        exps.append({"k": k, "torn": torn, "dir": xd, "db": db, "i0": i0, "locked": len(exps) % 4 == 1})
    req, out = os.path.join(cdir, "req.ndjson"), os.path.join(cdir, "res.ndjson")
    common.write_ndjson(req, batches)
    rc, txt, _ = common.run([h, "ops", req, out], timeout=3000)
    if rc != 0:
        raise common.harness_failure(txt)
    res = {r["id"]: r for r in common.read_ndjson(out)}
    # second phase: the images are read by a fresh handle; for every third image ANOTHER process (this one) holds a
    # read lock on SQLite's shared byte range meanwhile -- a reader, not a writer: the journal stays hot
    import fcntl
    held = []
    for x in exps:
        if x["locked"] and os.path.exists(x["db"]):
            fd = os.open(x["db"], os.O_RDWR)
            fcntl.lockf(fd, fcntl.LOCK_SH, 510, 0x40000000 + 2, 0)
            held.append(fd)
    req2, out2 = os.path.join(cdir, "req2.ndjson"), os.path.join(cdir, "res2.ndjson")
    common.write_ndjson(req2, batches2)
    rc, txt, _ = common.run([h, "ops", req2, out2], timeout=3000)
    for fd in held:
        os.close(fd)
    if rc != 0:
        raise common.harness_failure(txt)
    res.update({r["id"]: r for r in common.read_ndjson(out2)})
    lines = []
    info = []
    for x in exps:
        fresh = classify(sqlittle_rows(res[x["i0"] + 3]))
        if newdb:
            aged = fresh
        else:
            warm = res[x["i0"]]
            if warm.get("err"):
                raise Infra("warm-up read failed: %r" % warm.get("err"))
            aged = classify(sqlittle_rows(res[x["i0"] + 2]))
        # the k-th call really was the last one logged?
        got = parse_log(os.path.join(x["dir"], "log.txt"), ps) if os.path.exists(os.path.join(x["dir"], "log.txt")) else []
        if x["k"] <= N and len(got) != x["k"]:
            raise Infra("crash experiment k=%d: the writer logged %d calls" % (x["k"], len(got)))
        # real SQLite recovers a copy
        rdir = os.path.join(x["dir"], "rec")
        os.makedirs(rdir)
        for suf in ("", "-journal"):
            if os.path.exists(x["db"] + suf):
                shutil.copy(x["db"] + suf, os.path.join(rdir, "crash.db" + suf))
        try:
            con = sqlite3.connect(os.path.join(rdir, "crash.db"))
            rows = con.execute("SELECT id, v FROM t ORDER BY id").fetchall()
            con.close()
            sq = classify(rows)
        except sqlite3.OperationalError as e:
            sq = "old" if "no such table" in str(e) else "mixed"
        except sqlite3.DatabaseError as e:
            sq = "mixed"
        lines.append({"ev": "reset"})
        lines += abstract_events(calls, ps, x["k"], x["torn"], modified, orig_pages, sector)
        lines.append({"ev": "crash", "sqlittle": fresh, "aged": aged, "sqlite": sq})
        info.append((len(lines), x, fresh, aged, sq))
        if (x["i0"] + 7) in res:
            # the second call inside one explicit transaction (a second judgement of the same crash state)
            aged2 = classify(lowlevel_rows(res[x["i0"] + 7]))
            lines.append({"ev": "crash", "sqlittle": fresh, "aged": aged2, "sqlite": sq})
            info.append((len(lines), x, fresh, aged2, sq))
        shutil.rmtree(x["dir"], ignore_errors=True)
    f = os.path.join(cdir, "crash.ndjson")
    common.write_ndjson(f, lines)
    cfg = os.path.join(cdir, "TraceJournal_run.cfg")
    with open(cfg, "w") as fh:
        fh.write("SPECIFICATION TJSpec\nCONSTANTS\n  Modified = {%s}\n  Appended = {%s}\n  Mode = \"%s\"\n  NoSync = %s\n  HdrChunks = %d\nINVARIANT Track\nPOSTCONDITION Post\nCHECK_DEADLOCK FALSE\n"
                 % (", ".join(map(str, sorted(modified))), ", ".join(map(str, sorted(appended))), mode, "TRUE" if sync == "OFF" else "FALSE", max(1, sector // min(ps, sector)) if sector > 512 else 1))
    r = common.tlc("TraceJournal", cfg="TraceJournal_run.cfg", files={f: "crash.ndjson", cfg: "TraceJournal_run.cfg"}, workers=1,
                   timeout=1800, name="c09-tlc-" + tag, heap="8g")
    v.add_tlc(r)
    vp = os.path.join(r.workdir, "verdict.json")
    if not os.path.exists(vp):
        m = re.search(r'"HIGHWATER", (\d+)', r.out)
        hw = int(m.group(1)) if m else 0
        raise Infra("the writer model (Journal.tla) does not explain real SQLite's system calls in config %s: stuck at line %d: %s\n%s" %
                    (tag, hw, json.dumps(lines[hw - 1:hw + 1]), (r.error or r.out)[-1500:]))
    verdict = json.load(open(vp))
    if verdict["specbad"]:
        i = verdict["specbad"][0]
        x = next(t for t in info if t[0] == i)
        raise Infra("Journal.tla's SqliteRecovered differs from what real SQLite recovered in %d experiments, e.g. k=%d torn=%s (%s): sqlite=%s" %
                    (len(verdict["specbad"]), x[1]["k"], x[1]["torn"], tag, x[4]))
    for i in verdict["bad"]:
        n, x, fresh, aged, sq = next(t for t in info if t[0] == i)
        c = calls[x["k"] - 1] if x["k"] <= N else {"op": "end"}
        key = "C09:%s:%s:fresh=%s:aged=%s:sqlite=%s" % (mode, "sync" + sync, fresh, aged, sq)
        v.report(key, "writer (page size %d, journal_mode=%s, synchronous=%s) killed %s its call %d/%d (%s %s len %s): sqlittle read '%s' "
                      "(handle opened before the crash: '%s') but SQLite recovers '%s'" %
                 (ps, mode, sync, "in the middle of" if x["torn"] else "before", x["k"], N, c.get("op"), c.get("file", ""), c.get("len", ""), fresh, aged, sq),
                 lambda x=x: common.write_replay("C09", "crash-%s-k%d%s.json" % (tag, x["k"], "t" if x["torn"] else ""),
                                                 {"page_size": ps, "mode": mode, "sync": sync, "kill_at": x["k"], "torn": x["torn"]}))
    v.cov["traces_validated_against_impl"] += len(exps)
    v.cov["conformance_drift_ops"] = v.cov.get("conformance_drift_ops", 0) + len(verdict["drift"])
    for sc in verdict["covered"]:
        v.nontrivial((mode, sync, json.dumps(sc)))
    oc = {}
    for _, x, fresh, aged, sq in info:
        oc[(fresh, sq)] = oc.get((fresh, sq), 0) + 1
    return {"config": tag, "syscalls": N, "crash_points": len(exps), "modified_pages": len(modified),
            "outcomes(sqlittle,sqlite)": {"%s/%s" % k: n for k, n in sorted(oc.items())}, "abstract_states": len(verdict["covered"])}


def run_parked(v, h, d, tier, rnd):
    """the writer spills and dies WHILE a read operation of a long-lived handle is under way -- after the operation was
    called, before it asked for its lock (the reader is parked at a gate there): whatever the operation checked before it
    holds the lock says nothing about the files it is going to read"""
    from vlib import procs
    ensure_shim()
    ps, mode, sync = 1024, "DELETE", "FULL"
    cdir = os.path.join(d, "parked")
    os.makedirs(cdir)
    base = os.path.join(cdir, "base.db")
    base_db(base, ps, ROWS)
    ref = os.path.join(cdir, "ref")
    os.makedirs(ref)
    shutil.copy(base, os.path.join(ref, "crash.db"))
    log = os.path.join(ref, "log.txt")
    rc, txt, _ = common.run(writer_cmd(os.path.join(ref, "crash.db"), mode, sync, shim_env("crash.db", log)), timeout=120)
    if rc != 0:
        raise Infra("reference writer run failed: " + txt[-500:])
    calls = parse_log(log, ps)
    N = len(calls)
    orig_pages = os.path.getsize(base) // ps
    written = {c["off"] // ps + 1 for c in calls if c["file"] == "d" and c["op"] in ("pwrite", "write")}
    modified = {p for p in written if p <= orig_pages}
    dbw = [i + 1 for i, c in enumerate(calls) if c["file"] == "d" and c["op"] in ("pwrite", "write")]
    if not dbw:
        raise Infra("the reference transaction wrote no database page")
    ks = sorted(set([dbw[0] + 1, dbw[len(dbw) // 2] + 1, dbw[-1] + 1, dbw[0]] + ([rnd.choice(dbw) + 1 for _ in range(2 if tier == "quick" else 12)])))
    lines, info = [], []
    for k in ks:
        xd = os.path.join(cdir, "k%d" % k)
        os.makedirs(xd)
        db = os.path.join(xd, "crash.db")
        shutil.copy(base, db)
        ag = procs.GoAgent(h, "p1")
        try:
            if not ag.call(cmd="open", h="h1", db=db).get("ok"):
                raise Infra("agent could not open the healthy file")
            if k % 2 == 0:
                # a warm handle: it has read before
                r0 = ag.call(cmd="start", h="h1", gate=False, op={"op": "select", "table": "t", "cols": ["id", "v"], "id": 0})
                if r0.get("state") != "done" or r0["res"].get("err"):
                    raise Infra("warm-up read failed: %r" % r0)
            r1 = ag.call(cmd="start", h="h1", gate=True, gate_on=["B"], op={"op": "select", "table": "t", "cols": ["id", "v"], "id": 1})
            if r1.get("state") != "gate" or r1["ev"][0] != "B":
                raise Infra("the reader did not stop before its lock: %r" % str(r1)[:200])
            common.run(writer_cmd(db, mode, sync, shim_env("crash.db", os.path.join(xd, "log.txt"), k, False)), timeout=120)
            r2 = ag.call(cmd="step", h="h1")
            n_ = 0
            while r2.get("state") == "gate" and n_ < 100000:
                r2 = ag.call(cmd="step", h="h1")
                n_ += 1
            if r2.get("state") != "done":
                raise Infra("the parked read did not finish")
            got = classify(sqlittle_rows(r2["res"]))
        finally:
            ag.close()
        rdir = os.path.join(xd, "rec")
        os.makedirs(rdir)
        for suf in ("", "-journal"):
            if os.path.exists(db + suf):
                shutil.copy(db + suf, os.path.join(rdir, "crash.db" + suf))
        try:
            con = sqlite3.connect(os.path.join(rdir, "crash.db"))
            sq = classify(con.execute("SELECT id, v FROM t ORDER BY id").fetchall())
            con.close()
        except sqlite3.DatabaseError:
            sq = "mixed"
        lines.append({"ev": "reset"})
        lines += abstract_events(calls, ps, k, False, modified, orig_pages)
        lines.append({"ev": "crash", "sqlittle": got, "aged": got, "sqlite": sq})
        info.append((len(lines), k, got, sq))
        shutil.rmtree(xd, ignore_errors=True)
    f = os.path.join(cdir, "crash.ndjson")
    common.write_ndjson(f, lines)
    cfg = os.path.join(cdir, "TraceJournal_parked.cfg")
    open(cfg, "w").write("SPECIFICATION TJSpec\nCONSTANTS\n  Modified = {%s}\n  Appended = {}\n  Mode = \"%s\"\n  NoSync = FALSE\n  HdrChunks = 1\n"
                         "INVARIANT Track\nPOSTCONDITION Post\nCHECK_DEADLOCK FALSE\n" % (", ".join(map(str, sorted(modified))), mode))
    r = common.tlc("TraceJournal", cfg="TraceJournal_parked.cfg", files={f: "crash.ndjson", cfg: "TraceJournal_parked.cfg"}, workers=1, timeout=900, name="c09-parked", heap="8g")
    v.add_tlc(r)
    vp = os.path.join(r.workdir, "verdict.json")
    if not os.path.exists(vp):
        raise Infra("TraceJournal did not consume the parked-reader trace:\n" + (r.error or r.out)[-1500:])
    verdict = json.load(open(vp))
    if verdict["specbad"]:
        raise Infra("Journal.tla's SqliteRecovered differs from real SQLite in the parked-reader experiments")
    for i in verdict["bad"]:
        n, k, got, sq = next(t for t in info if t[0] == i)
        c = calls[k - 1] if k <= N else {"op": "end"}
        v.report("C09:parked-before-lock:sqlittle=%s:sqlite=%s" % (got, sq),
                 "a read operation was under way (called, not yet locked) when the writer spilled and died before its call %d/%d (%s %s): it read '%s', SQLite recovers '%s'"
                 % (k, N, c.get("op"), c.get("file", ""), got, sq),
                 lambda k=k: common.write_replay("C09", "parked-k%d.json" % k, {"page_size": ps, "mode": mode, "sync": sync, "kill_at": k, "reader": "parked before its lock call"}))
    for _, k, got, sq in info:
        v.nontrivial(("parked", got, sq))
    shutil.rmtree(cdir, ignore_errors=True)
    return {"config": "reader parked between call and lock while the writer dies", "crash_points": len(ks), "bad": len(verdict["bad"])}


MAGIC = bytes([0xd9, 0xd5, 0x05, 0xf9, 0x20, 0xa1, 0x63, 0xd7])


def run_leftovers(v, h, d, tier):
    """the second sentence of C09: after a COMPLETED commit, whatever is left of the journal -- nothing, an empty file,
    a zeroed header, a file cut to any length (PRAGMA journal_size_limit), also lengths below one header -- does not
    prevent reading.  Real journal_size_limit runs plus synthetic lengths; SQLite reads a copy of every pair."""
    import struct
    cdir = os.path.join(d, "leftover")
    os.makedirs(cdir)
    ps = 1024
    base = os.path.join(cdir, "crash.db")
    base_db(base, ps, ROWS)
    con = sqlite3.connect(base, isolation_level=None)
    con.execute("PRAGMA journal_mode=PERSIST")
    con.execute("UPDATE t SET v = v + 1000")
    con.close()
    fin = open(base + "-journal", "rb").read()          # a real finalised (header zeroed) journal
    os.remove(base + "-journal")
    hot = MAGIC + struct.pack(">iIii", 1, 7, 3, 512) + struct.pack(">i", ps) + b"\x00" * (512 - 28)
    variants = [("absent", None, True)]
    for n in list(range(0, 41)) + [100, 511, 512, 513, 1024, len(fin)]:
        variants.append(("zeros-%d" % n, b"\x00" * n, True))
        variants.append(("finalised-cut-%d" % n, fin[:n], True))
    for n in list(range(1, 28)) + [28, 100, 511]:
        variants.append(("magic-cut-%d" % n, hot[:n], False))
    # real journal_size_limit runs
    for lim in (0, 1, 5, 16, 27, 28, 29, 512, 4096, -1):
        p = os.path.join(cdir, "lim%d.db" % lim)
        base_db(p, ps, ROWS)
        con = sqlite3.connect(p, isolation_level=None)
        con.execute("PRAGMA journal_mode=PERSIST")
        con.execute("PRAGMA journal_size_limit=%d" % lim)
        con.execute("UPDATE t SET v = v + 1000")
        con.close()
        jb = open(p + "-journal", "rb").read() if os.path.exists(p + "-journal") else None
        variants.append(("journal_size_limit=%d(%s bytes)" % (lim, "no" if jb is None else len(jb)), jb, True))
        for suf in ("", "-journal"):
            if os.path.exists(p + suf):
                os.remove(p + suf)
    batches, todo = [], []
    sel = {"op": "select", "table": "t", "cols": ["id", "v"]}
    for i, (name, jb, listed) in enumerate(variants):
        xd = os.path.join(cdir, "v%d" % i)
        os.makedirs(xd)
        db = os.path.join(xd, "crash.db")
        shutil.copy(base, db)
        if jb is not None:
            open(db + "-journal", "wb").write(jb)
        rdir = os.path.join(xd, "rec")
        os.makedirs(rdir)
        for suf in ("", "-journal"):
            if os.path.exists(db + suf):
                shutil.copy(db + suf, os.path.join(rdir, "crash.db" + suf))
        batches.append({"db": db, "mode": "fresh", "ops": [dict(sel, id=i), {"op": "tables", "id": 100000 + i}]})
        todo.append((i, name, jb, listed, db, rdir))
    req, out = os.path.join(cdir, "req.ndjson"), os.path.join(cdir, "res.ndjson")
    common.write_ndjson(req, batches)
    rc, txt, _ = common.run([h, "ops", req, out], timeout=600)
    if rc != 0:
        raise common.harness_failure(txt)
    res = {r["id"]: r for r in common.read_ndjson(out)}
    lines, info = [], []
    for i, name, jb, listed, db, rdir in todo:
        fresh = classify(sqlittle_rows(res[i]))
        try:
            con = sqlite3.connect(os.path.join(rdir, "crash.db"))
            sq = classify(con.execute("SELECT id, v FROM t ORDER BY id").fetchall())
            con.close()
        except sqlite3.DatabaseError:
            sq = "mixed"
        magic = jb is not None and jb[:8] == MAGIC
        lines.append({"ev": "reset"})
        lines.append({"ev": "leftover", "exists": jb is not None, "magic": magic, "full": magic and len(jb) >= 512, "listed": listed})
        lines.append({"ev": "crash", "sqlittle": fresh, "aged": fresh, "sqlite": sq})
        info.append((len(lines), name, fresh, sq, db))
    f = os.path.join(cdir, "crash.ndjson")
    common.write_ndjson(f, lines)
    cfg = os.path.join(cdir, "TraceJournal_left.cfg")
    open(cfg, "w").write("SPECIFICATION TJSpec\nCONSTANTS\n  Modified = {1}\n  Appended = {}\n  Mode = \"PERSIST\"\n  NoSync = FALSE\n  HdrChunks = 1\n"
                         "INVARIANT Track\nPOSTCONDITION Post\nCHECK_DEADLOCK FALSE\n")
    r = common.tlc("TraceJournal", cfg="TraceJournal_left.cfg", files={f: "crash.ndjson", cfg: "TraceJournal_left.cfg"}, workers=1, timeout=600, name="c09-left")
    v.add_tlc(r)
    vp = os.path.join(r.workdir, "verdict.json")
    if not os.path.exists(vp):
        raise Infra("TraceJournal did not consume the leftover trace:\n" + (r.error or r.out)[-1500:])
    verdict = json.load(open(vp))
    if verdict["specbad"]:
        x = next(t for t in info if t[0] == verdict["specbad"][0])
        raise Infra("Journal.tla's SqliteRecovered differs from real SQLite on leftover %s: sqlite=%s" % (x[1], x[3]))
    for i in verdict["bad"]:
        n, name, fresh, sq, db = next(t for t in info if t[0] == i)

        def save(name=name, db=db):
            dst = os.path.join(common.replay_dir("C09"), "leftover-%s.db" % re.sub(r"[^A-Za-z0-9=-]", "_", name))
            shutil.copy(db, dst)
            if os.path.exists(db + "-journal"):
                shutil.copy(db + "-journal", dst + "-journal")
            return common.write_replay("C09", "leftover-%s.json" % re.sub(r"[^A-Za-z0-9=-]", "_", name), {"leftover": name, "db": dst})
        v.report("C09:leftover:sqlittle=%s:sqlite=%s" % (fresh, sq), "committed database with journal leftover '%s': sqlittle reads '%s', SQLite reads '%s'" % (name, fresh, sq), save)
    for _, name, fresh, sq, _ in info:
        v.nontrivial(("leftover", re.sub(r"\d+", "N", name), fresh))
    shutil.rmtree(cdir, ignore_errors=True)
    return {"config": "journal leftovers after a completed commit", "variants": len(variants), "bad": len(verdict["bad"])}


def run(tier):
    v = common.Verdict("C09", tier)
    rnd = random.Random(common.seed())
    d = common.sub("c09")
    # (M) the model, every mode
    mcs = 0
    for mode in ("DELETE", "TRUNCATE", "PERSIST"):
        for ns in ("FALSE", "TRUE"):
            # header written in one call, or (sector larger than the page) in several
            for hc in ((1, 2) if tier == "quick" else (1, 2, 4)):
                if tier == "quick" and hc == 2 and mode == "TRUNCATE":
                    continue
                cfg = os.path.join(d, "MC_Journal_%s_%s_%d.cfg" % (mode, ns, hc))
                open(cfg, "w").write(open(os.path.join(common.SPEC, "MC_Journal.cfg")).read().replace('Mode = "DELETE"', 'Mode = "%s"' % mode)
                                     .replace("NoSync = FALSE", "NoSync = " + ns).replace("HdrChunks = 1", "HdrChunks = %d" % hc))
                r = common.tlc("Journal", cfg=os.path.basename(cfg), files={cfg: os.path.basename(cfg)}, workers=8, timeout=300, name="mcj-%s-%s-%d" % (mode, ns, hc))
                common.tlc_require_ok(r, "MC_Journal %s %s %d" % (mode, ns, hc))
                v.add_tlc(r)
                mcs += r.distinct
    v.cov["mc_journal_states"] = mcs
    h = common.build_harness()
    if tier == "quick":
        configs = [(1024, "DELETE", "FULL", 512), (512, "PERSIST", "OFF", 512), (65536, "TRUNCATE", "FULL", 512),
                   # sector (4096, powersafe overwrite off) larger than the page: the header's sector holds copies of the header
                   (1024, "PERSIST", "FULL", 4096)]
        newconfigs = [(1024, "DELETE", "FULL", 512)]
    else:
        configs = [(ps, m, s, 512) for ps in (512, 1024, 4096, 65536) for m in ("DELETE", "TRUNCATE", "PERSIST") for s in ("FULL", "OFF")]
        configs += [(ps, m, s, 4096) for ps in (512, 1024, 2048, 8192) for m in ("DELETE", "TRUNCATE", "PERSIST") for s in ("FULL", "OFF")]
        newconfigs = [(ps, m, s, 512) for ps in (512, 4096) for m in ("DELETE", "TRUNCATE", "PERSIST") for s in ("FULL", "OFF")]
        newconfigs += [(1024, "DELETE", "FULL", 4096), (512, "PERSIST", "OFF", 4096)]
    summ = []
    for ps, mode, sync, sector in configs:
        summ.append(run_config(v, h, d, ps, mode, sync, tier, rnd, "ps%d-%s-%s-s%d" % (ps, mode, sync, sector), sector=sector))
    for ps, mode, sync, sector in newconfigs:
        summ.append(run_config(v, h, d, ps, mode, sync, tier, rnd, "new-ps%d-%s-%s-s%d" % (ps, mode, sync, sector), newdb=True, sector=sector))
    summ.append(run_leftovers(v, h, d, tier))
    summ.append(run_parked(v, h, d, tier, rnd))
    # the three prebuilt pairs of the repository
    for name, want_err in (("journal_hot", True), ("journal_persist", False), ("journal_truncate", False)):
        src = os.path.join(common.REPO, "testdata", name + ".sqlite")
        if os.path.exists(src):
            req, out = os.path.join(d, "td-req.ndjson"), os.path.join(d, "td-res.ndjson")
            common.write_ndjson(req, [{"db": src, "mode": "fresh", "ops": [{"op": "tables", "id": 0}]}])
            common.run([h, "ops", req, out], timeout=60, check=True)
            res = common.read_ndjson(out)[0]
            if bool(res.get("err")) != want_err:
                v.report("C09:testdata:" + name, "testdata/%s: expected %s, got err=%r" % (name, "an error" if want_err else "a clean read", res.get("err")),
                         lambda: common.write_replay("C09", "testdata-%s.json" % name, {"file": src}))
    v.cov["configs"] = summ
    v.cov["evaluations"] = sum(s.get("crash_points", 0) + s.get("variants", 0) for s in summ)
    v.cov["rule"] = ("per configuration (page size x journal mode x synchronous) the writer is killed before its k-th file operation for k = 1..N+1 "
                     "and in the middle of every write (quick: every database write, header/count/zero/unlink/truncate call, the first and last calls, "
                     "a seeded sample of the record writes); each image is read by a fresh sqlittle handle and by one opened before the crash, and "
                     "recovered by real SQLite; the completed calls are replayed through Journal.tla's writer actions. non-trivial = distinct "
                     "(mode, sync, abstract crash state: phase, journal header state, first sector complete, partial record, database class, spilled)")
    v.sample(summ[0])
    v.assumptions += ["crash = death of the writer process (completed writes persist in order); power-loss reordering is not modelled",
                      "SQLite 3.40.1 (python sqlite3) is the writer and performs the reference recovery", "LD_PRELOAD interposition sees every file operation of libsqlite3 (the model rejects unexplained call sequences)"]
    return v.finish()


def replay(path):
    print(open(path).read())
    print("re-run `tools/check C09` to judge on the current tree")
    return 0

"""C07 Readers yield to writers and only ever see committed data.

(M) Locks.tla (YieldToWriters, CommittedOnly, NoWriterWhileReading) exhaustively, as for C06.
(B) a real SQLite connection is parked in every lock state it can be in -- UNLOCKED, SHARED (open cursor), RESERVED
    (before / after writing, journal header on disk with synchronous=OFF), PENDING (COMMIT refused because another
    reader holds SHARED), EXCLUSIVE (BEGIN EXCLUSIVE, and a cache spill before commit) -- its state confirmed from
    /proc/locks; every read operation of a fresh and of a long-lived sqlittle handle in another process is issued;
    the recorded schedule (kernel lock table after every step, result of every lock attempt, the committed version
    every successful read saw) is validated by TLC against Locks.tla.
"""
import json, os, random
from vlib import common, lockrun
from vlib.common import Infra
from checks import c06

READ_OPS = ["select_meta", "select", "indexed_select", "select_rowid", "pk_select", "columns", "select_w", "indexed_select_eq"]


def park_writer(r, state, sync_off):
    """drive w1 (and helpers) so that w1 rests in `state`"""
    if sync_off:
        r.sql("w1", "PRAGMA synchronous=OFF")
    if state == "UNLOCKED":
        r.sql("w1", "SELECT count(*) FROM t")
    elif state == "SHARED":
        r.cursor("w1", True)
    elif state == "RESERVED":
        r.sql("w1", "BEGIN IMMEDIATE")
    elif state == "RESERVED_DIRTY":
        r.sql("w1", "BEGIN IMMEDIATE")
        r.sql("w1", "UPDATE meta SET v = v + 100")
        r.sql("w1", "UPDATE t SET b = 'uncommitted' WHERE id % 2 = 0")
    elif state == "PENDING":
        r.cursor("w2", True)                    # a passive SQLite reader holds SHARED
        r.sql("w1", "BEGIN IMMEDIATE")
        r.sql("w1", "UPDATE meta SET v = v + 1")      # this transaction commits later: the marker counts commits
        c = r.sql("w1", "COMMIT", commits=True)
        if c.get("ok"):
            raise Infra("COMMIT was expected to be refused while a reader holds SHARED")
        r.fver -= 0
    elif state == "EXCLUSIVE":
        r.sql("w1", "BEGIN EXCLUSIVE")
    elif state == "EXCLUSIVE_SPILL":
        r.sql("w1", "PRAGMA cache_size=1")
        r.sql("w1", "BEGIN IMMEDIATE")
        r.sql("w1", "UPDATE meta SET v = v + 100")
        r.sql("w1", "UPDATE t SET b = b || 'spill spill spill spill'")
    elif state == "KILLED_SPILL":
        # the writer dies while EXCLUSIVE with spilled pages in the file and a synced journal: nobody holds a lock any
        # more, the file holds uncommitted pages -- a reader must refuse (hot journal) or deliver committed content
        r.sql("w1", "PRAGMA cache_size=1")
        r.sql("w1", "BEGIN IMMEDIATE")
        r.sql("w1", "UPDATE meta SET v = v + 100")
        r.sql("w1", "UPDATE w SET v = v + 1000")
        r.sql("w1", "UPDATE t SET b = b || 'spill spill spill spill'")
        r.kill("w1")
    else:
        raise Infra(state)


def release_writer(r, state):
    if state == "KILLED_SPILL":
        r.sql("w2", "SELECT count(*) FROM t")          # real SQLite rolls the hot journal back
        return
    if state == "SHARED":
        r.cursor("w1", False)
    elif state == "PENDING":
        r.cursor("w2", False)
        r.sql("w1", "COMMIT", commits=True)
    elif state in ("RESERVED", "RESERVED_DIRTY", "EXCLUSIVE", "EXCLUSIVE_SPILL"):
        r.sql("w1", "ROLLBACK")


def sched_writer_states(h, d, tier):
    out = []
    states = ["UNLOCKED", "SHARED", "RESERVED", "RESERVED_DIRTY", "PENDING", "EXCLUSIVE", "EXCLUSIVE_SPILL", "KILLED_SPILL"]
    combos = []
    for st in states:
        for sync_off in (False, True):
            for aged in (False, True):
                combos.append((st, sync_off, aged))
    for i, (st, sync_off, aged) in enumerate(combos):
        if tier == "quick" and sync_off and st in ("UNLOCKED", "SHARED", "EXCLUSIVE"):
            continue
        if st == "KILLED_SPILL" and not aged:
            continue          # a fresh Open of a file with a hot journal is refused outright (C09 covers it)
        r = lockrun.Runner(h, c06.fresh(d, "st-%d" % i), "sep")
        if st == "KILLED_SPILL" and sync_off:
            r.writer_uri = "psow=0"          # 4096-byte sectors: the journal header's sector holds copies of the header
        try:
            if aged:
                # a long-lived handle: it has read (and cached) before, a commit happened since
                r.open("h1")
                r.start("h1", c06.OPS["select_meta"]); r.finish("h1")
                r.start("h1", c06.OPS["select"]); r.finish("h1")
                r.sql("w1", "BEGIN IMMEDIATE")
                r.sql("w1", "UPDATE meta SET v = v + 1")
                r.sql("w1", "UPDATE t SET b = 'second' WHERE id < 5")
                r.sql("w1", "COMMIT", commits=True)
                if (i // 2) % 2 == 0 or st == "KILLED_SPILL":
                    # ... and it has read again since that commit: nothing in the header will have moved when it reads next
                    r.start("h1", c06.OPS["select_meta"]); r.finish("h1")
            # what table w holds according to the last commit (a table the aged handle has not read: nothing of it is cached)
            import sqlite3
            from vlib import values
            con_ = sqlite3.connect(r.db)
            con_.text_factory = values.TextBytes
            w_committed = [[values.to_jval(values.from_sqlite(x)) for x in row] for row in con_.execute("SELECT k, v FROM w ORDER BY k")]
            con_.close()
            park_writer(r, st, sync_off)
            if not aged:
                r.open("h1")
            ops = READ_OPS if st != "KILLED_SPILL" else ["select_w"] + READ_OPS
            for opn in ops:
                r.start("h1", c06.OPS[opn], gate_on=["L", "l", "U"], expect=w_committed if (opn == "select_w" and st in ("KILLED_SPILL", "RESERVED", "RESERVED_DIRTY", "UNLOCKED", "SHARED")) else None)
                r.finish("h1")
            release_writer(r, st)
            r.start("h1", c06.OPS["select_meta"]); r.finish("h1")
            r.close("h1")
        finally:
            r.shutdown()
        out.append(("state:%s:%s:%s" % (st, "syncoff" if sync_off else "sync", "aged" if aged else "fresh"), r.events,
                    {"writer_state": st, "sync_off": sync_off, "aged_handle": aged}))
    return out


def run(tier):
    v = common.Verdict("C07", tier)
    rnd = random.Random(common.seed())
    r = common.tlc("MC_Locks", cfg="MC_Locks_sep.cfg", workers=16, timeout=900, name="mclocks", heap="8g")
    common.tlc_require_ok(r, "MC_Locks_sep")
    v.add_tlc(r)
    v.cov["mc_locks_sep"] = {"distinct_states": r.distinct}
    if tier == "thorough":
        # unbounded: the inductive invariant of LocksProof.tla (any number of handles in separate processes and of
        # writers, behaviours of any length) re-checked by the TLA+ proof system
        n_obl, wall = common.tlapm("LocksProof", deps=("Locks",))
        v.cov["tlaps_obligations_proved"] = n_obl
    h = common.build_harness()
    d = common.sub("c07")
    scheds = sched_writer_states(h, d, tier)
    metas = {name: m for name, _, m in scheds}
    res = lockrun.validate(v, [(n_, e) for n_, e, _ in scheds], "sep", "c07")
    c06.report(v, "C07", res, metas, "sep")
    # what the specification concluded per writer state, for the evidence
    outcome = {}
    for name, evs, m in scheds:
        oks = sum(1 for e in evs if e["who"] == "h1" and e["ev"] == "rlock_ok")
        errs = sum(1 for e in evs if e["who"] == "h1" and e["ev"] == "rlock_err")
        o = outcome.setdefault(m["writer_state"], {"lock_ok": 0, "lock_refused": 0})
        o["lock_ok"] += oks
        o["lock_refused"] += errs
        v.nontrivial((m["writer_state"], m["sync_off"], m["aged_handle"]))
    v.cov["lock_attempts_by_writer_state"] = outcome
    # vacuity guards: the kernel table shows that the writer really reached the states the schedules claim
    reached = set()
    for name, evs, m in scheds:
        for e in evs:
            t = e["table"].get("w1", {})
            if t.get("pend") == "W" and t.get("shrd") == "R":
                reached.add("PENDING")
            if t.get("shrd") == "W":
                reached.add("EXCLUSIVE")
            if t.get("resv") == "W" and t.get("pend") == "N":
                reached.add("RESERVED")
    v.cov["writer_states_observed_in_kernel_table"] = sorted(reached)
    if reached != {"PENDING", "EXCLUSIVE", "RESERVED"}:
        raise Infra("the writer did not reach every lock state (observed %s)" % sorted(reached))
    v.cov["traces_validated_against_impl"] = len(res)
    v.cov["accepted"] = sum(1 for x in res.values() if x["accepted"])
    v.cov["evaluations"] = sum(len(e) for _, e, _ in scheds)
    v.cov["rule"] = ("writer parked in UNLOCKED / SHARED / RESERVED (clean, dirty; synchronous FULL and OFF, i.e. journal header with and without "
                     "magic on disk) / PENDING / EXCLUSIVE (BEGIN EXCLUSIVE, cache spill) x fresh and long-lived (cached, one commit behind) "
                     "handle x read operations; lock table from /proc/locks after every step, committed version seen by every successful read; "
                     "TLC accepts the schedule only if every lock attempt succeeded/failed as Locks.tla says and the version read is the "
                     "committed one. non-trivial = distinct (writer state, sync mode, handle age)")
    v.sample({"schedule": scheds[0][0], "events": [{k: e[k] for k in ("who", "ev")} for e in scheds[0][1]][:14]})
    k = next(i for i, s in enumerate(scheds) if "PENDING" in s[0])
    v.sample({"schedule": scheds[k][0], "events": [{k_: e[k_] for k_ in ("who", "ev", "table")} for e in scheds[k][1]][3:9]})
    v.assumptions += ["/proc/locks is the kernel's POSIX lock table (Linux)", "SQLite 3.40.1 (python sqlite3) is the writer",
                      "the version marker row (meta.v) is updated by every writer transaction"]
    return v.finish()


def replay(path):
    print(open(path).read()[:3000])
    print("re-run `tools/check C07` to judge on the current tree")
    return 0

"""C18 Row.Scan conversions are total, documented, and yield independent copies.

(M) RowScan.tla: the outcome table Outcome(kind, destination) and the aliasing model (Scan / Mutate / Read / Commit /
    Close): ReadsSeeFile and Independent, exhaustively; with ScanCopies = FALSE TLC exhibits the counterexample.
(B) the real Row.Scan is called on (stored value grid) x (every destination) and on multi-column rows x destination
    lists of every length relative to the row width; lifetime histories run on real files (in-page and overflowing
    values); TLC judges every call (TraceRowScan.tla).
"""
import json, os, random, struct
from vlib import common, values, gen
from vlib.common import Infra

I64 = 2 ** 63


def kind_of(v, cls=None):
    k = v[0]
    if k == "n":
        return "null"
    if k == "i":
        return "int"
    if k == "r":
        return "real"
    return ("text-" if k == "t" else "blob-") + cls


TEXTS = {
    "int": [b"0", b"1", b"-7", b"+5", b"123", b"9223372036854775807", b"007", b"-9223372036854775808", b"010", b"-012", b"0009", b"+08"],
    "real": [b"1.5", b"-0.25", b"1e3", b"2.5E-3", b".5", b"5."],
    "time": [b"2006-01-02 15:04:05", b"2023-12-31 23:59:59.123", b"1999-01-01 00:00:00"],
    "other": [b"", b"abc", b"123test", b" 5", b"5 ", b"1,5", b"2006-01-02", b"1 2", b"--1", "é".encode(), b"12:00", b"2006-01-02T15:04:05",
              b"0b11", b"0o17", b"0x", b"1e", b"e5", b"0b", b"1__0"],
}
INTS = [0, 1, -1, 127, 2 ** 31 - 1, 2 ** 31, -2 ** 31 - 1, 2 ** 53 + 1, 2 ** 63 - 1, -2 ** 63, 86400]
REALS = [0.0, 1.5, -2.75, 1e10, 2.0 ** 63, -1e19, 1e300, float("inf"), 5e-324, 3.999, 1.0 / 3, 2.718281828459045, 1e-320,
         1.7976931348623157e308, 0.1, 123456.0, 1234567.0, 1e-5, 0.0001, -float("inf"), 2147483648.5, 16777217.0]
DESTS = ["string", "bytes", "int64", "int32", "int", "bool", "float64", "time", "nil", "uint16", "value", "struct", "ifaceptr"]
ABSTRACT = {"uint16": "unsupported", "value": "unsupported", "struct": "unsupported", "ifaceptr": "unsupported"}
def gofmt_g(x):
    """strconv.FormatFloat(x, 'g', -1, 64): shortest digits that round-trip; %e form when the decimal exponent is < -4 or
    >= 21 ... no: >= max(number of digits, 6)?  Go: with the shortest precision the threshold is eprec = 6, raised to the
    number of digits when there are more digits than that (ftoa.go %g case)."""
    import math
    if math.isinf(x):
        return "+Inf" if x > 0 else "-Inf"
    if math.isnan(x):
        return "NaN"
    if x == 0:
        return "-0" if math.copysign(1, x) < 0 else "0"
    r = repr(abs(x))                       # shortest round-trip digits
    if "e" in r:
        m, e = r.split("e")
        e = int(e)
    else:
        m, e = r, 0
    ip, _, fp = m.partition(".")
    if fp == "0":
        fp = ""
    digits = (ip + fp).lstrip("0")
    dp = len(ip) + e if ip != "0" else e - (len(fp) - len(fp.lstrip("0")))      # position of the decimal point
    digits = digits.rstrip("0") or "0"
    nd = len(digits)
    exp = dp - 1
    eprec = 6
    if eprec > nd and nd >= dp:
        eprec = nd
    eprec = 6                                # shortest: precision 6 for this decision
    if nd > eprec and nd >= dp:
        pass
    sign = "-" if x < 0 else ""
    if exp < -4 or exp >= max(eprec, 21 if False else eprec):
        mant = digits[0] + ("." + digits[1:] if nd > 1 else "")
        return "%s%se%s%02d" % (sign, mant, "+" if exp >= 0 else "-", abs(exp))
    if dp <= 0:
        return sign + "0." + "0" * (-dp) + digits
    if dp >= nd:
        return sign + digits + "0" * (dp - nd)
    return sign + digits[:dp] + "." + digits[dp:]


GOFMT = {x: gofmt_g(x) for x in REALS}


def grid_values():
    out = [(("n",), "null")]
    out += [(("i", n), "int") for n in INTS]
    out += [(("r", x), "real") for x in REALS]
    for cls, ts in TEXTS.items():
        out += [(("t", t), "text-" + cls) for t in ts]
        out += [(("b", t), "blob-" + cls) for t in ts[:4]]
    return out


def wrap32(n):
    return ((n + 2 ** 31) % 2 ** 32) - 2 ** 31


def as_text(v):
    if v[0] == "n":
        return b""
    if v[0] == "i":
        return str(v[1]).encode()
    if v[0] == "r":
        return GOFMT[v[1]].encode() if v[1] in GOFMT else None
    return v[1]


def as_int(v, kind):
    if v[0] == "n":
        return None
    if v[0] == "i":
        return v[1]
    if v[0] == "r":
        f = v[1]
        return int(f) if abs(f) < 2 ** 62 else None
    sp = kind.split("-")[1]
    s = v[1].decode("utf-8", "replace")
    if sp == "int":
        n = int(s)
        return n if -I64 <= n < I64 else None
    if sp == "real":
        return int(float(s))
    return None


def as_float(v, kind):
    if v[0] == "n":
        return None
    if v[0] == "i":
        return float(v[1])
    if v[0] == "r":
        return v[1]
    sp = kind.split("-")[1]
    if sp in ("int", "real"):
        return float(v[1].decode())
    return None


def expect(v, kind, dest):
    """canonical text of the documented conversion, or '-' where the exact result is Go's business"""
    import datetime
    if dest in ("string", "bytes"):
        t = as_text(v)
        if t is None:
            return "-"
        if dest == "bytes" and v[0] == "n":
            return "nil"
        return ("t:" if dest == "string" else "b:") + t.hex()
    if dest in ("int64", "int"):
        n = as_int(v, kind)
        return "-" if n is None else "i:%d" % n
    if dest == "int32":
        n = as_int(v, kind)
        return "-" if n is None else "i:%d" % wrap32(n)
    if dest == "bool":
        n = as_int(v, kind)
        return "-" if n is None else "i:%d" % (1 if n != 0 else 0)
    if dest == "float64":
        f = as_float(v, kind)
        return "-" if f is None else "r:" + struct.pack(">d", f).hex()
    if dest == "time":
        if v[0] == "i":
            if abs(v[1]) > 10 ** 11:
                return "-"
            d = datetime.datetime(1970, 1, 1) + datetime.timedelta(seconds=v[1])
            return "t:" + d.strftime("%Y-%m-%dT%H:%M:%S.000Z").encode().hex()
        if kind == "text-time":
            s = v[1].decode()
            fmt = "%Y-%m-%d %H:%M:%S.%f" if "." in s else "%Y-%m-%d %H:%M:%S"
            d = datetime.datetime.strptime(s, fmt)
            return "t:" + (d.strftime("%Y-%m-%dT%H:%M:%S.") + "%03dZ" % (d.microsecond // 1000)).encode().hex()
    return "-"


def canon(j):
    if j[0] == "n":
        return "nil"
    return "%s:%s" % (j[0], j[1])


def is_zero(j, dest):
    z = {"string": "t:", "bytes": "nil", "int64": "i:0", "int32": "i:0", "int": "i:0", "bool": "i:0", "float64": "r:0000000000000000",
         "time": "t:" + b"zero".hex()}
    return canon(j) == z.get(dest, "nil")


def life_db(path, ps):
    con = gen.connect(path, ps)
    # separate tables: a row with an overflowing column is assembled in a fresh buffer on every read, an in-page row is
    # a window into the cached page
    con.execute("CREATE TABLE tsmall(id INTEGER PRIMARY KEY, small)")
    con.execute("CREATE TABLE tbig(id INTEGER PRIMARY KEY, big)")
    for i in range(6):
        con.execute("INSERT INTO tsmall VALUES(?,?)", (i + 1, gen.pattern_blob(20 + i, i)))
        con.execute("INSERT INTO tbig VALUES(?,?)", (i + 1, gen.pattern_blob(3 * ps + 7 * i, i)))
    # empty (not NULL) blobs and texts in front of other columns and other rows: a zero-length slice still has a capacity
    con.execute("CREATE TABLE tempty(id INTEGER PRIMARY KEY, empty, name, n, tail)")
    for i in range(6):
        con.execute("INSERT INTO tempty VALUES(?,?,?,?,?)", (i + 1, b"" if i % 2 == 0 else "", "name%d" % i, 30 + i, bytes([1, 2, i])))
    con.close()


def run(tier):
    v = common.Verdict("C18", tier)
    rnd = random.Random(common.seed())
    for cfg, want_violation in (("MC_RowScan.cfg", False), ("MC_RowScan_alias.cfg", True)):
        r = common.tlc("RowScan", cfg=cfg, workers=2, timeout=120, name="mcrowscan-" + cfg[:-4])
        if want_violation:
            if not r.violated:
                raise Infra("the aliasing model without copies was expected to violate ReadsSeeFile")
        else:
            common.tlc_require_ok(r, cfg)
            v.add_tlc(r)
    h = common.build_harness()
    d = common.sub("c18")
    g = grid_values()
    reqs, meta = [], []
    # every (value, destination)
    for val, kind in g:
        for dest in DESTS:
            reqs.append({"id": len(reqs), "kind": "conv", "row": [values.to_jval(val)], "dests": [dest]})
            meta.append(([(val, kind)], [dest]))
    # rows of width 0..3 x destination lists of length 0..4 (below / at / above the row width), errors at every position
    n_multi = 2500 if tier == "quick" else 250000
    for _ in range(n_multi):
        w = rnd.randrange(0, 4)
        row = [rnd.choice(g) for _ in range(w)]
        nd = rnd.randrange(0, 5)
        dests = [rnd.choice(DESTS[:9] if rnd.random() < 0.9 else DESTS) for _ in range(nd)]
        reqs.append({"id": len(reqs), "kind": "conv", "row": [values.to_jval(x[0]) for x in row], "dests": dests})
        meta.append((row, dests))
    # lifetime histories on real files
    lifes = []
    for ps in ([512, 4096] if tier == "quick" else [512, 1024, 4096, 65536]):
        for col in ("small", "big", "empty"):
            for rid in (1, 4):
                p = os.path.join(d, "life-%d-%s-%d.db" % (ps, col, rid))
                life_db(p, ps)
                reqs.append({"id": len(reqs), "kind": "life", "db": p, "table": "t" + col, "rowid": str(rid), "col": col})
                meta.append(("life", ps, col, rid))
                lifes.append(len(reqs) - 1)
    inp, outp = os.path.join(d, "req.ndjson"), os.path.join(d, "res.ndjson")
    common.write_ndjson(inp, reqs)
    rc, txt, _ = common.run([h, "rowscan", inp, outp], timeout=900)
    if rc != 0:
        raise common.harness_failure(txt, "harness rowscan")
    res = {r["id"]: r for r in common.read_ndjson(outp)}
    events = []
    for rq, m in zip(reqs, meta):
        rs = res[rq["id"]]
        if m[0] == "life":
            lf = rs.get("life") or {}
            ev = {"ev": "life", "panic": bool(rs.get("panic")) or bool(rs.get("err"))}
            for k in ("all_rows_after_mutate", "reread_same_handle", "reread_fresh_handle", "string_after_mutate", "other_slice_after_mutate", "after_close", "after_overwrite",
                      "kept_after_rescan"):
                ev[k] = bool(lf.get(k))
            events.append(ev)
            v.nontrivial(m)
            continue
        row, dests = m
        kinds = [k for _, k in row]
        vals = rs.get("vals") or [["n"]] * len(dests)
        got, exp, zero = [], [], []
        for i, dname in enumerate(dests):
            ad = ABSTRACT.get(dname, dname)
            j = vals[i] if i < len(vals) else ["n"]
            got.append(canon(j))
            zero.append(is_zero(j, dname))
            if i < len(row):
                exp.append(expect(row[i][0], row[i][1], ad))
            else:
                exp.append("-")
        events.append({"ev": "conv", "kinds": kinds, "dests": [ABSTRACT.get(x, x) for x in dests], "err": bool(rs.get("err")),
                       "panic": bool(rs.get("panic")), "row_unchanged": bool(rs.get("row_unchanged")), "got": got, "expect": exp, "zero": zero})
        v.nontrivial((tuple(kinds), tuple(dests)))
    tr = os.path.join(d, "scan.ndjson")
    common.write_ndjson(tr, events)
    r = common.tlc("TraceRowScan", files={tr: "scan.ndjson"}, workers=1, timeout=1200, name="c18-tlc", heap="8g")
    if not r.ok:
        raise Infra("TraceRowScan failed:\n" + (r.error or r.out)[-3000:])
    v.add_tlc(r)
    verdict = json.load(open(os.path.join(r.workdir, "verdict.json")))
    if verdict["n"] != len(events):
        raise Infra("TLC consumed %s of %d events" % (verdict["n"], len(events)))
    for n in verdict["bad"]:
        ev, rq, rs, m = events[n - 1], reqs[n - 1], res[reqs[n - 1]["id"]], meta[n - 1]
        if ev["ev"] == "life":
            failed = [k for k in ev if k not in ("ev", "panic") and not ev[k]]
            key = "C18:lifetime:%s:%s" % (m[2], "+".join(failed) or "panic")
            what = "lifetime history on a %d-byte-page file, column %s: %s (panic/err: %s %s)" % (m[1], m[2], failed, rs.get("panic"), rs.get("err"))
        else:
            key = "C18:conv:%s->%s" % ("|".join(ev["kinds"])[:40], "|".join(ev["dests"])[:40])
            what = "Row.Scan(%s) on row %s: err=%r panic=%r got=%s expected=%s" % (rq["dests"], json.dumps(rq["row"])[:160], rs.get("err"), rs.get("panic"), ev["got"], ev["expect"])
        v.report(key, what, lambda rq=rq, rs=rs, n=n: common.write_replay("C18", "scan-%d.json" % n, {"req": rq, "res": rs}))
    v.cov["traces_validated_against_impl"] = len(events)
    v.cov["evaluations"] = len(events)
    v.cov["lifetime_histories"] = len(lifes)
    v.cov["rule"] = ("every (stored value of the grid: NULL, int64/float64 extremes, numeric-looking / time-formatted / malformed text and blobs) x "
                     "(every supported destination, nil, four unsupported ones); random rows of width 0..3 x destination lists of length 0..4; lifetime "
                     "histories (scan into []byte and string, overwrite the slice, re-read warm and fresh, close, overwrite the file) for in-page and "
                     "overflowing values on several page sizes. non-trivial = distinct (kinds, destinations) and histories")
    v.sample(reqs[3])
    v.sample(reqs[len(g) * len(DESTS) + 5])
    v.sample(reqs[lifes[0]])
    v.assumptions += ["exact results of Go's float->int conversion out of range, float formatting and strconv corner syntax are not judged ('-')"]
    return v.finish()


def replay(path):
    data = json.load(open(path))
    h = common.build_harness()
    d = common.sub("c18-replay")
    inp, outp = os.path.join(d, "req.ndjson"), os.path.join(d, "res.ndjson")
    common.write_ndjson(inp, [data["req"]])
    common.run([h, "rowscan", inp, outp], timeout=60)
    print("stored:", json.dumps(data["res"])[:400])
    print("now   :", open(outp).read()[:400] if os.path.exists(outp) else "(harness died)")
    print("re-run `tools/check C18` for the verdict")
    return 0

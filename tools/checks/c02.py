"""C02 Index-ordered select visits exactly the indexed rows in index order."""
import os, random
from vlib import common, values, btrace
from vlib.common import Infra
from checks import btfamily as bf
from checks.c01 import replay_generic


def index_query(s, t, ix, select_cols):
    terms = bf.index_order_terms(t, ix)
    where = bf.PARTIAL.get(ix["name"])
    return "SELECT %s FROM %s%s ORDER BY %s" % (", ".join(select_cols), bf._q(t["name"]),
                                                  " WHERE " + where if where else "", bf.order_by(terms))


def build(v, suite, ops, rnd, tier, h, d):
    for s in suite:
        tdb = s["tdb"]
        for tname, t in s["desc"]["tables"].items():
            for iname, ix in t["indexes"].items():
                if iname.lower() not in tdb.objects:
                    continue      # the WITHOUT ROWID primary key is the table itself
                i = ops.add_hl(s["name"], "indexed_select", tname, s["desc"], index=iname,
                               meta={"cls": "%s/%s/%s" % (s["name"], tname, iname)})
                ops.items[i]["sq"] = bf.sq_ids(s, t, index_query(s, t, ix, bf.id_cols(t)))
                v.nontrivial((s["name"], tname, iname))


def extra(v, suite, ops, rnd, tier, h, d):
    """values of the delivered rows, all columns and a permutation, against SQLite's rows"""
    plan, batches = [], []
    for s in suite:
        hops = []
        for tname, t in s["desc"]["tables"].items():
            cols = [c["name"] for c in t["columns"]]
            for iname, ix in t["indexes"].items():
                if iname.lower() not in s["tdb"].objects:
                    continue
                for cl in (cols, list(reversed(cols))[:3]):
                    hops.append({"op": "indexed_select", "id": len(plan), "table": tname, "index": iname, "cols": cl})
                    plan.append((s, t, ix, cl))
        batches.append({"db": s["path"], "mode": "keep", "ops": hops})
    req, out = os.path.join(d, "rows-req.ndjson"), os.path.join(d, "rows-res.ndjson")
    common.write_ndjson(req, batches)
    rc, txt, _ = common.run([h, "ops", req, out], timeout=900)
    if rc != 0:
        raise common.harness_failure(txt)
    res = {x["id"]: x for x in common.read_ndjson(out)}
    pairs, left_out = [], 0
    for i, (s, t, ix, cl) in enumerate(plan):
        rr = res[i]
        got = [tuple(values.from_jval(j) for j in row) for row in rr.get("rows") or []]
        if rr.get("err") and not got and not rr.get("panic"):
            left_out += 1      # "rejected, or the index left out": an error and no rows is allowed
            continue
        sql = index_query(s, t, ix, [bf._q(c) for c in cl])
        if rr.get("err") or rr.get("panic"):
            v.report("C02:error:%s/%s" % (s["name"], ix["name"]), "IndexedSelect via %s failed after %d rows: %s" %
                     (ix["name"], len(got), rr.get("err") or rr.get("panic")),
                     lambda s=s, ix=ix: common.write_replay("C02", "err-%s-%s.json" % (s["name"], ix["name"]), {"db": s["path"], "index": ix["name"]}))
            continue
        pairs.append(({"cls": "%s/%s/%s" % (s["name"], ix["name"], ",".join(cl)), "what": "IndexedSelect %s via %s" % (t["name"], ix["name"]), "sql": sql},
                      got, bf.sqlite_rows(s["path"], sql)))
    bf.rows_events(v, "C02", pairs, "c02")
    v.cov["indexes_left_out_with_error"] = left_out


def run(tier):
    return bf.run_family("C02", tier, "scan+nested", build, {"complete"},
                         "IndexedSelect through every index of every table of the generated databases (multi-column, COLLATE, DESC, UNIQUE, "
                         "partial, expression, automatic indexes; rowid and WITHOUT ROWID tables with primary keys in odd positions; NULLs and "
                         "mixed classes; entries in interior pages and with overflow): the recorded operation is judged by TLC against "
                         "BTree.tla's nested Reference (every index entry mapped to its table row, each once, in index order) which must "
                         "equal SQLite's ORDER BY <index_xinfo columns>; the delivered values are compared with SQLite's rows by TLC. "
                         "non-trivial = distinct (db, table, index)", extra=extra)


def replay(path):
    return replay_generic("C02", path)

#!/usr/bin/python3
"""Real SQLite (python sqlite3, 3.40.1) as the writer in another process.

  writer.py commit <db> <kind> <n> <snapshot>   one committed write transaction of the given kind (n = step number,
                                                used to derive deterministic content), then copy the database file
                                                to <snapshot> (the committed state after this step)
"""
import os, shutil, sqlite3, sys


def commit(db, kind, n, snap):
    con = sqlite3.connect(db, isolation_level=None, timeout=5)
    cur = con.cursor()
    tabs = [r[0] for r in cur.execute("SELECT name FROM sqlite_master WHERE type='table' AND name LIKE 'n%'")]
    idxs = [r[0] for r in cur.execute("SELECT name FROM sqlite_master WHERE type='index' AND name LIKE 'x%'")]
    if kind == "dml_update":
        cur.execute("UPDATE r SET c = 'u%d' WHERE id %% 5 = %d" % (n, n % 5))
        cur.execute("UPDATE w SET v = ? WHERE k2 % 3 = ?", ("wv%d" % n, n % 3))
    elif kind == "dml_insert":
        top = cur.execute("SELECT coalesce(max(id), 0) FROM r WHERE id < 1000000").fetchone()[0]
        cur.execute("BEGIN")
        for i in range(3):
            cur.execute("INSERT INTO r(id, a, b, c) VALUES(?,?,?,?)", (top + 1 + i, n * 10 + i, "ins%d" % n, None))
        cur.execute("INSERT OR REPLACE INTO w(k1, k2, v, x) VALUES(?,?,?,?)", ("ins", n, "v%d" % n, n))
        cur.execute("COMMIT")
    elif kind == "dml_delete":
        cur.execute("DELETE FROM r WHERE id % 11 = ?", (n % 11,))
        cur.execute("DELETE FROM w WHERE k2 % 7 = ?", (n % 7,))
    elif kind == "ddl_create":
        cur.execute("BEGIN")
        cur.execute("CREATE TABLE n%d(a INTEGER PRIMARY KEY, b, c DEFAULT %d)" % (n, n))
        for i in range(6):
            cur.execute("INSERT INTO n%d(a, b) VALUES(?,?)" % n, (i, "n%d-%d" % (n, i)))
        cur.execute("COMMIT")
    elif kind == "ddl_drop":
        if tabs:
            cur.execute("DROP TABLE %s" % tabs[0])
        else:
            cur.execute("CREATE TABLE n%d(a INTEGER PRIMARY KEY, b, c DEFAULT 1)" % n)
    elif kind == "create_index":
        cur.execute("CREATE INDEX x%d ON r(c, a)" % n)
    elif kind == "drop_index":
        if idxs:
            cur.execute("DROP INDEX %s" % idxs[0])
        else:
            cur.execute("CREATE INDEX x%d ON r(b)" % n)
    elif kind == "alter_add":
        cur.execute("ALTER TABLE r ADD COLUMN extra%d DEFAULT 'e%d'" % (n, n))
    elif kind == "grow":
        cur.execute("BEGIN")
        top = cur.execute("SELECT coalesce(max(id), 0) FROM r WHERE id < 1000000").fetchone()[0]
        for i in range(60):
            cur.execute("INSERT INTO r(id, a, b, c) VALUES(?,?,?,?)", (top + 1 + i, i, "grow%d-%d" % (n, i), "g" * 150))
        cur.execute("COMMIT")
    elif kind == "vacuum":
        cur.execute("DELETE FROM r WHERE id % 2 = 0")
        cur.execute("VACUUM")
    elif kind == "vacuum_pagesize":
        ps = cur.execute("PRAGMA page_size").fetchone()[0]
        cur.execute("PRAGMA page_size=%d" % (1024 if ps != 1024 else 2048))
        cur.execute("VACUUM")
    elif kind == "reuse":
        cur.execute("BEGIN")
        cur.execute("DELETE FROM r WHERE id % 3 = ?", (n % 3,))
        top = cur.execute("SELECT coalesce(max(id), 0) FROM r WHERE id < 1000000").fetchone()[0]
        for i in range(25):
            cur.execute("INSERT INTO r(id, a, b, c) VALUES(?,?,?,?)", (top + 1 + i, -i, "reuse%d" % n, "r" * (40 + i)))
        cur.execute("COMMIT")
    elif kind == "noop":
        cur.execute("BEGIN IMMEDIATE")
        cur.execute("COMMIT")
    else:
        raise SystemExit("unknown kind " + kind)
    con.close()
    if snap:
        shutil.copy(db, snap)
    return 0


def agent(db):
    """JSON-lines server: one real SQLite connection in this process, never blocking (busy timeout 0)."""
    import json
    # "file:...": a URI (e.g. ?psow=0: 4096-byte sectors, the journal header's sector is larger than a small page)
    con = sqlite3.connect(db, isolation_level=None, timeout=0, uri=db.startswith("file:"))
    cursors = {}

    def out(m):
        m["pid"] = os.getpid()
        sys.stdout.write(json.dumps(m) + "\n")
        sys.stdout.flush()
    for line in sys.stdin:
        c = json.loads(line)
        cmd = c.get("cmd")
        try:
            if cmd == "ping":
                out({"ok": True})
            elif cmd == "sql":
                rows = con.execute(c["sql"], c.get("params", [])).fetchall()
                out({"ok": True, "rows": [[x if not isinstance(x, bytes) else x.hex() for x in r] for r in rows[:50]], "n": len(rows)})
            elif cmd == "open_cursor":       # a SELECT stepped once and left open: the connection stays SHARED
                cur = con.execute(c["sql"])
                cur.fetchone()
                cursors[c.get("name", "c")] = cur
                out({"ok": True})
            elif cmd == "close_cursor":
                cur = cursors.pop(c.get("name", "c"), None)
                if cur is not None:
                    cur.fetchall()
                    cur.close()
                out({"ok": True})
            elif cmd == "in_transaction":
                out({"ok": True, "in_transaction": con.in_transaction})
            elif cmd == "quit":
                out({"ok": True})
                break
            else:
                out({"ok": False, "error": "unknown command"})
        except sqlite3.OperationalError as e:
            msg = str(e)
            out({"ok": False, "busy": "locked" in msg or "busy" in msg, "error": msg})
        except Exception as e:
            out({"ok": False, "busy": False, "error": "%s: %s" % (type(e).__name__, e)})
    try:
        con.close()
    except Exception:
        pass
    return 0


def _connect(db, sector):
    """sector 4096: powersafe overwrite off (URI psow=0), SQLite then assumes 4096-byte sectors and fills the journal
    header's sector with copies of the header, min(page size, sector) bytes per write"""
    if int(sector) == 4096:
        return sqlite3.connect("file:%s?psow=0" % db, uri=True, isolation_level=None, timeout=0)
    return sqlite3.connect(db, isolation_level=None, timeout=0)


def crashtxn(db, mode, cache, sync, sector=512):
    """the transaction whose crash points C09 enumerates: an in-place, fixed-width UPDATE of every row, with a
    tiny page cache so that dirty pages spill to the database file before the commit"""
    con = _connect(db, sector)
    con.execute("PRAGMA journal_mode=%s" % mode)
    con.execute("PRAGMA cache_size=%d" % cache)
    con.execute("PRAGMA synchronous=%s" % sync)
    con.execute("BEGIN IMMEDIATE")
    con.execute("UPDATE t SET v = v + 1000")
    con.execute("COMMIT")
    con.close()
    return 0


def crashnew(db, mode, cache, sync, ps, sector=512):
    """the very first transaction of a brand-new database: every page it writes lies beyond the original (empty)
    file; recovery truncates the file back to nothing"""
    con = _connect(db, sector)
    con.execute("PRAGMA page_size=%d" % ps)
    con.execute("PRAGMA journal_mode=%s" % mode)
    con.execute("PRAGMA cache_size=%d" % cache)
    con.execute("PRAGMA synchronous=%s" % sync)
    con.execute("BEGIN IMMEDIATE")
    con.execute("CREATE TABLE t(id INTEGER PRIMARY KEY, v INT, pad TEXT)")
    for i in range(60):
        con.execute("INSERT INTO t VALUES(?,?,?)", (i, 101000 + i, "p" * (ps // 5)))
    con.execute("COMMIT")
    con.close()
    return 0


if __name__ == "__main__":
    if sys.argv[1] == "crashnew":
        sys.exit(crashnew(sys.argv[2], sys.argv[3], int(sys.argv[4]), sys.argv[5], int(sys.argv[6]), int(sys.argv[7]) if len(sys.argv) > 7 else 512))
    if sys.argv[1] == "crashtxn":
        sys.exit(crashtxn(sys.argv[2], sys.argv[3], int(sys.argv[4]), sys.argv[5] if len(sys.argv) > 5 else "FULL", int(sys.argv[6]) if len(sys.argv) > 6 else 512))
    if sys.argv[1] == "agent":
        sys.exit(agent(sys.argv[2]))
    if sys.argv[1] == "commit":
        sys.exit(commit(sys.argv[2], sys.argv[3], int(sys.argv[4]), sys.argv[5] if len(sys.argv) > 5 else None))
    sys.exit(2)

#!/bin/sh
# Build the framework from files on disk only (offline). Run from /verif.
set -e
cd "$(dirname "$0")/.."
export GOFLAGS=-mod=mod GOPROXY=off GOSUMDB=off GOTOOLCHAIN=local
mkdir -p evidence build
# warm the Go build cache for the harness (the checks rebuild it from /repo's working tree)
cp /repo/go.sum harness/go.sum
(cd harness && go build -tags verif -o ../build/harness . )
# crash shim for C09
if [ -f tools/crashshim.c ]; then gcc -O1 -shared -fPIC -o build/crashshim.so tools/crashshim.c -ldl; fi
# syntax-check every spec module
for f in spec/*.tla; do
  [ -f "$f" ] || continue
  # the *Proof modules extend TLAPS (the proof system's library, not on SANY's path): tlapm checks them in the checks
  case "$f" in *Proof.tla) continue;; esac
  (cd spec && tla-sany "$(basename "$f")" >/dev/null 2>&1) || { echo "SANY failed: $f"; (cd spec && tla-sany "$(basename "$f")" | tail -20); exit 1; }
done
rm -rf spec/states spec/*.old 2>/dev/null || true
echo setup ok

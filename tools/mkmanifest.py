#!/usr/bin/python3
"""Regenerate /verif/MANIFEST.json from the registry below (kept valid at all times)."""
import json, os, subprocess
VERIF = os.path.dirname(os.path.dirname(os.path.abspath(__file__)))

TRUST = "TLC 1.8.0 + CommunityModules Json; SQLite 3.40.1 (python sqlite3) as the definition of SQLite behaviour; "

CHECKS = {
 "C11": dict(
  technique="TLA+ spec Values.tla; TLC-exhaustive algebra on a core grid; trace validation of recorded compare/Equals/Search calls by TLC; spec validated against real SQLite",
  text="Values.tla defines SQLite's value order exactly (dyadic rationals for int64/float64, byte strings, 3 collations, key predicates). "
       "TLC proves on a core grid that it is a total preorder and that Equals/NotLess are consistent and monotone (all triples x collation x direction). "
       "Every call of the real db.compare/Equals/Search on all pairs of a 150-value grid (thorough: ~400) and on systematic/random multi-column keys is one trace event that TLC judges against the spec; "
       "real SQLite's dense_rank over the same grid validates the spec itself on every pair. Exhaustive over the grid, not over all int64/float64/strings.",
  note=TRUST + "the exact value encoder tools/vlib/values.py (self-tested against fractions.Fraction); the grid is representative of boundary classes, not all values",
  design="6 C11, 3.1"),
 "C14": dict(
  technique="TLA+ spec Format.tla (varint, serial types, record decode, local/overflow split); TLC-exhaustive algebra; trace validation of recorded decode calls and of per-cell scan results on SQLite-written files",
  text="Format.tla defines varints, two's-complement widths, IEEE doubles, serial types, record decoding and the U/P/X/M/K split. "
       "TLC checks the split algebra for all 8 page sizes (every P in 0..3U for U=512, threshold neighbourhoods otherwise) and Decode(Encode)=id for varints of every bit length. "
       "The real readVarint/calculateCellInPageBytes/parseRecord are called on boundary inputs and every call is judged by TLC. "
       "SQLite writes tables and indexes whose cell payloads sweep the thresholds at 4 (thorough: 8) page sizes; the real scans run under a tracing pager and TLC judges, per cell, "
       "the decoded values against RecordDecode(raw bytes read by an independent reader), against SQLite's own values, and the overflow pages read against OverflowPages(U,P).",
  note=TRUST + "independent file reader tools/vlib/sqlitefmt.py is cross-checked against SQLite per row (not trusted); exact value encoder; lengths beyond 3 pages and page sizes other than the swept ones are sampled only",
  design="6 C14, 3.2"),
}

NOT_YET = "check not built yet (work in progress; see DESIGN.md section 9 order of work)"


def main():
    props = [json.loads(l) for l in open(os.path.join(VERIF, "properties.jsonl"))]
    commits = subprocess.run(["git", "-C", "/repo", "log", "--format=%h %s"], stdout=subprocess.PIPE).stdout.decode().splitlines()
    hooks = [c.split()[0] for c in commits if c.split(" ", 1)[1].startswith("verif:")]
    checks, na = [], []
    for p in props:
        pid = p["id"]
        if pid in CHECKS:
            c = CHECKS[pid]
            checks.append({
                "property_id": pid,
                "quick_cmd": "tools/check %s --tier quick" % pid,
                "thorough_cmd": "tools/check %s --tier thorough" % pid,
                "evidence_file": "/verif/evidence/%s.json" % pid,
                "replay_cmd_template": "tools/check %s --replay {path}" % pid,
                "engine": "tlc",
                "level_claimed": {"category": c.get("category", "model_checking"), "text": c["text"], "design_ref": c["design"]},
                "level_note": c["note"],
                "technique": c["technique"],
            })
        else:
            na.append({"property_id": pid, "reason": NOT_YET})
    m = {
        "version": 1,
        "setup_cmd": "tools/setup.sh",
        "hooks": {"guard": "verif",
                  "enable": "go build -tags verif (the harness module /verif/harness has `replace github.com/alicebob/sqlittle => /repo`)",
                  "baseline_off_cmd": "cd /repo && GOFLAGS=-mod=mod GOPROXY=off GOSUMDB=off GOTOOLCHAIN=local go test -mod=mod -json -vet=off -count=1 -timeout 25m ./...",
                  "source_commits": hooks, "add_only": True},
        "engines": [{"name": "tlc", "path": "/verif/spec", "serves_properties": sorted(CHECKS),
                     "kind_free_text": "explicit TLA+ specification checked with TLC; bound to the code by trace validation (recorded traces judged by TLC) and by replaying TLC-generated cases/behaviours on the real code; orchestrated by tools/check"}],
        "checks": checks,
        "notes": "Model-based verification with an explicit TLA+ specification (spec/). See DESIGN.md. known_findings.json lists genuine defects (open / fixed).",
        "not_applicable": na,
    }
    json.dump(m, open(os.path.join(VERIF, "MANIFEST.json"), "w"), indent=1)
    print("MANIFEST: %d checks, %d not_applicable" % (len(checks), len(na)))


if __name__ == "__main__":
    main()

#!/usr/bin/python3
"""Regenerate /verif/MANIFEST.json from the registry below (kept valid at all times)."""
import json, os, subprocess
VERIF = os.path.dirname(os.path.dirname(os.path.abspath(__file__)))

TRUST = "TLC 1.8.0 + CommunityModules Json; SQLite 3.40.1 (python sqlite3) as the definition of SQLite behaviour; "

BT = 'BTree.tla transcribes the traversal algorithms of db/btree.go, low.go, payload.go (Iter/IterMin per page kind, sort.Search probes, overflow loading, done/err propagation, page cache, nested lookups) next to a declarative Reference (in-order walk, filter under Values.tla). '
MB = " (M) TLC checks algorithm = Reference on all small trees of this slice (MC_BTree, one state per case). (B) On SQLite-written databases (page sizes 512..4096 quick, ..65536 thorough; fragmented, vacuumed, auto-vacuum, overflowing and deep trees) the real operations run under a tracing pager; TLC judges every recorded operation against the Reference evaluated on the abstract page graph an independent reader extracted from the same file, and compares the recorded lock/page/callback events with the transcribed algorithm's (conformance, reported as drift, never a verdict). (C) SQLite's own answer to the same query must equal the Reference, else exit 2."
NOTE = TRUST

LK = "Locks.tla models the kernel's POSIX lock table (per process, no self-conflict, unlock is process-wide, closing any descriptor drops all locks), SQLite's ladder (os_unix.c unixLock, every fcntl a step, failed EXCLUSIVE keeps PENDING) and sqlittle's Open/RLock/RUnlock/Close with every fcntl as a separate action (incl. the named deviation MmapOpenClosesSecondFd). "

CHECKS = {
 "C11": dict(
  technique="TLA+ spec Values.tla; TLC-exhaustive algebra on a core grid; trace validation of recorded compare/Equals/Search calls by TLC; spec validated against real SQLite",
  text="Values.tla defines SQLite's value order exactly (dyadic rationals for int64/float64, byte strings, 3 collations, key predicates). "
       "TLC proves on a core grid that it is a total preorder and that Equals/NotLess are consistent and monotone (all triples x collation x direction). "
       "Every call of the real db.compare/Equals/Search on all pairs of a 150-value grid (thorough: ~400) and on systematic/random multi-column keys is one trace event that TLC judges against the spec; "
       "real SQLite's dense_rank over the same grid validates the spec itself on every pair. Exhaustive over the grid, not over all int64/float64/strings.",
  note=TRUST + "the exact value encoder tools/vlib/values.py (self-tested against fractions.Fraction); the grid is representative of boundary classes, not all values",
  design="6 C11, 3.1"),
 "C14": dict(
  technique="TLA+ spec Format.tla (varint, serial types, record decode, local/overflow split); TLC-exhaustive algebra; trace validation of recorded decode calls and of per-cell scan results on SQLite-written files",
  text="Format.tla defines varints, two's-complement widths, IEEE doubles, serial types, record decoding and the U/P/X/M/K split. "
       "TLC checks the split algebra for all 8 page sizes (every P in 0..3U for U=512, threshold neighbourhoods otherwise) and Decode(Encode)=id for varints of every bit length. "
       "The real readVarint/calculateCellInPageBytes/parseRecord are called on boundary inputs and every call is judged by TLC. "
       "SQLite writes tables and indexes whose cell payloads sweep the thresholds at 4 (thorough: 8) page sizes; the real scans run under a tracing pager and TLC judges, per cell, "
       "the decoded values against RecordDecode(raw bytes read by an independent reader), against SQLite's own values, and the overflow pages read against OverflowPages(U,P).",
  note=TRUST + "independent file reader tools/vlib/sqlitefmt.py is cross-checked against SQLite per row (not trusted); exact value encoder; lengths beyond 3 pages and page sizes other than the swept ones are sampled only",
  design="6 C14, 3.2"),
 "C01": dict(
  technique="TLA+ spec BTree.tla (+Format, Values); TLC-exhaustive refinement on small trees; trace validation of recorded scans/selects by TLC; rows compared with real SQLite by TLC",
  text=BT + "Slice: full scans of table and WITHOUT ROWID trees." + MB + " Plus: Select with column subsets/permutations, rowid/oid/_rowid_, alias and DEFAULT-completed columns compared value by value (storage class incl.) with SQLite's rows by TLC; payload lengths at every spill threshold; definitions sqlittle cannot interpret must give an error and no rows.",
  note=NOTE + "independent reader vlib/sqlitefmt.py (cross-checked per query, not trusted); small-scope exhaustiveness (depth<=3, <=3 children, <=2 cells) plus sampled real files",
  design="6 C01, 3.3"),
 "C04": dict(
  technique="TLA+ spec BTree.tla; TLC-exhaustive refinement on small table trees x every rowid; trace validation of recorded rowid lookups by TLC",
  text=BT + "Slice: rowid lookup (Table.Rowid, SelectRowid, PKSelect on INTEGER PRIMARY KEY)." + MB + " Rowids: every present one (or all page-boundary ones + sample), both neighbours, deleted ones, separators, 0, int64 min/max.",
  note=NOTE + "independent reader (cross-checked); rowids are exact dyadic values in the spec, no rank abstraction",
  design="6 C04, 3.3"),
 "C13": dict(
  technique="TLA+ spec BTree.tla + Values.tla; TLC-exhaustive refinement on small index trees x every cut point; trace validation of recorded ScanMin/ScanEq/ScanRange by TLC",
  text=BT + "Slice: from-key, range and equality scans." + MB + " Cut points: every stored entry's prefixes at page boundaries/interior cells/sample, neighbours of the last key column, other classes, empty and over-long keys, with the index's collations and directions.",
  note=NOTE + "independent reader (cross-checked); Values.tla validated against SQLite by C11",
  design="6 C13, 3.3"),
 "C17": dict(
  technique="TLA+ spec BTree.tla; TLC-exhaustive over small trees x every stop position; trace validation of recorded early-stopped scans by TLC",
  text=BT + "Slice: the callback answers done on its k-th call, every scan kind." + MB + " k: every position for small results, else all page-boundary positions, neighbours and a sample; also checks on the recorded trace that the unlock directly follows the k-th callback.",
  note=NOTE + "independent reader (cross-checked); release of the kernel lock itself is observed by C06",
  design="6 C17, 3.3"),
 "C02": dict(
  technique="TLA+ spec BTree.tla (nested index->table lookup); TLC-exhaustive refinement of index traversal on small trees; trace validation of recorded IndexedSelect by TLC; rows compared with real SQLite by TLC",
  text=BT + "Slice: IndexedSelect through every index (multi-column, COLLATE, DESC, UNIQUE, partial, expression, automatic; rowid and WITHOUT ROWID tables with odd primary-key layouts)." + MB + " The nested Reference maps every index entry to its table row (by rowid, or by the PK columns SQLite's index_xinfo locates inside the entry); delivered values are compared with SQLite's ORDER BY rows by TLC; an index sqlittle leaves out must give an error and no rows.",
  note=NOTE + "independent reader (cross-checked); the ORDER BY oracle is derived from PRAGMA index_xinfo",
  design="6 C02, 3.3"),
 "C03": dict(
  technique="TLA+ spec BTree.tla + Values.tla; TLC-exhaustive refinement of equality scans on small trees; trace validation of recorded IndexedSelectEq/PKSelect by TLC; spec validated against SQLite WHERE ... IS ? queries",
  text=BT + "Slice: IndexedSelectEq and PKSelect (index-backed and WITHOUT ROWID primary keys)." + MB + " Keys: every prefix length of entries at page boundaries/interior cells/sample, neighbours (+-1, int/real twins, case, trailing blanks), other classes, NULL, empty key; the spec takes collation/direction from SQLite's index_xinfo while the code derives them from its own schema reading.",
  note=NOTE + "independent reader (cross-checked); SQLite equality oracle uses `+col COLLATE c IS +CAST(? AS TEXT)` to avoid affinity conversions",
  design="6 C03, 3.3"),
 "C12": dict(
  technique="TLA+ spec BTree.tla with fault position; TLC-exhaustive over small trees x every fault position; fault enumeration on real operations, every recorded outcome judged by TLC",
  text=BT + "Slice: the j-th page read fails." + MB + " For one clean operation of every kind (low level scans/searches and every high level select incl. nested lookups) per object, the k-th read fails for every k in 1..R (sampled above a limit) as I/O error or short read on a fresh handle, plus an unobtainable lock; TLC requires an error and a delivered prefix of the Reference.",
  note=NOTE + "faults are injected at the pager interface of the traced handle (detectable faults only, as the property states); the driver's error path is C19's",
  design="6 C12, 3.3", category="model_checking"),
 "C15": dict(
  technique="TLA+ spec Header.tla (field map + accept/reject/left-open classification); TLC-exhaustive classification of every single-byte patch; trace validation of open/re-read outcomes on patched real files by TLC",
  text="Header.tla states which headers must be refused, accepted or are left open. TLC classifies all 100x256 single-byte patches for each legal page size (MC_Header). "
       "Every patch in the tier's set is applied to SQLite-written files of each page-size encoding, at open and between reads of a long-lived warm handle "
       "(also inside one explicit RLock bracket); 12 read entry points run per experiment and TLC judges outcome (accepted = base rows, rejected = error and no rows anywhere) "
       "and the header parser's own result (page size, change counter, cookie) against the spec. Real WAL files with unmerged frames, UTF-16le/be and legacy-format files are included.",
  note=NOTE + "single-byte patches only (multi-field combinations not enumerated); a different-but-legal page size on an existing file is not judged (file becomes inconsistent)",
  design="6 C15, 3.4"),
 "C08": dict(
  technique="TLA+ spec Reader.tla (dirty flag, header re-read, page cache, schema cache, fixed map) model-checked exhaustively; TLC-simulated behaviours replayed on a long-lived real handle against real SQLite commits; history validated by TLC (TraceReader.tla over BTree.tla)",
  text="Reader.tla models the handle protocol and the writer's counters; TLC explores every interleaving of lock/header/page/schema steps with commits of kind dml/ddl/grow/vacuum/reuse (3.1M states) for Freshness, NoFalseError, HeaderCurrent, CacheCurrent. "
       "Behaviours simulated from the same model (plus one fixed history with every commit kind incl. ALTER, CREATE/DROP TABLE/INDEX, growth, VACUUM, page-size-changing VACUUM, page reuse, no-op) are replayed: read brackets become real operations on ONE long-lived handle (high-level API and explicit RLock/RUnlock bracket), commits are real SQLite transactions in another process. "
       "TraceReader.tla carries the handle state along, judges every read against the Reference on the page graph of the snapshot committed at that moment (independent reader, cross-checked with SQLite), and predicts exactly which pages must be re-read or may come from the cache; schema listings after DDL are compared with SQLite's. Unbounded: ReaderProof.tla (TLAPS, 79 obligations) proves Freshness/NoFalseError for files of any size, any number of commits, any cache limit. Histories start with the change counter about to wrap; a table larger than the 100-page cache and overflow-neighbour rows are read in every bracket; prepared statements are re-executed after schema changes.",
  note=NOTE + "commits happen only between operations (guaranteed by the lock protocol, C06/C07); histories are sampled (seeded), the protocol model is exhaustive only in small scope (4 pages, 3 commits)",
  design="6 C08, 3.5"),
 "C06": dict(
  technique="TLA+ spec Locks.tla model-checked over all interleavings; trace validation by TLC (TraceLocks.tla, silent steps for unobservable fcntl calls) of schedules executed by real processes with the kernel lock table from /proc/locks after every step",
  text=LK + "TLC checks SharedWhileReading, Released, NoWriterWhileReading, YieldToWriters, WriterLadderOK for 2 handles in 2 processes + 2 writers (all interleavings), and exhibits the same-process counterexample. "
       "Real schedules: every high level operation x exit path (normal, early stop, missing table/column/index, injected read error incl. nested lookup, callback panic); reader parked after the lock / at a page read / inside the callback while a real SQLite connection tries BEGIN IMMEDIATE, UPDATE, COMMIT; a second handle opening/reading/closing meanwhile (other process and same process); scans after the file grew. "
       "After every step the kernel's own lock table is recorded; TLC accepts a schedule only if the table is exactly the specification's after every step, and evaluates the property on the recorded tables. The same-process lock loss is a listed known finding. Unbounded: LocksProof.tla (TLAPS, 426 obligations, thorough tier) proves the invariants for any number of handles in separate processes, writers and foreign lockers. Further schedules: nested calls from the callback, errors right after the lock (hot journal, WAL switch, faults at the header re-read), a foreign process locking only the shared range (second lock step refused), readers refused by a writer in PENDING/EXCLUSIVE; an operation that blocks for 20 s is recorded as an event the specification has no action for.",
  note=NOTE + "Linux /proc/locks as the observation of the kernel table; interleavings INSIDE one RLock call are explored in the model only (not drivable on real processes); Windows pager not covered",
  design="6 C06, 3.6"),
 "C07": dict(
  technique="TLA+ spec Locks.tla model-checked; trace validation by TLC of real schedules with a real SQLite writer parked in every lock state",
  text=LK + "TLC checks YieldToWriters/CommittedOnly over all interleavings. A real SQLite connection is parked in UNLOCKED, SHARED, RESERVED (clean/dirty, journal header with and without magic on disk), PENDING (COMMIT refused by another reader), EXCLUSIVE (BEGIN EXCLUSIVE, cache spill) -- confirmed from /proc/locks -- and every read operation of a fresh and of a long-lived, one-commit-behind handle in another process is issued. "
       "TLC accepts the recorded schedule only if every lock attempt succeeded or failed as the specification says and every successful read saw exactly the committed version (marker row). Also: a writer killed while EXCLUSIVE with spilled pages (512- and 4096-byte sectors) with a content check on a table the handle has not cached; every reported refusal must be the outcome of a lock attempt of that operation (TraceLocks att). LocksProof.tla in the thorough tier.",
  note=NOTE + "Linux /proc/locks; the marker row identifies the committed version; error => zero callbacks is checked on the recorded results",
  design="6 C07, 3.6"),
 "C09": dict(
  technique="TLA+ spec Journal.tla (writer transaction at system-call grain, crashes, SQLite's recovery rule vs sqlittle's hot-journal rule) model-checked; crash-point enumeration on a real SQLite writer under an LD_PRELOAD shim, syscall traces and reader outcomes validated by TLC (TraceJournal.tla)",
  text="Journal.tla models every write/sync/truncate/unlink of a spilling SQLite transaction (journal segments, header magic/count protocol, write-ahead rule, DELETE/TRUNCATE/PERSIST finalisation, synchronous FULL/OFF), torn writes and process death; TLC checks NeverReadsUnfinished, PostCommitReadable and AtomicCommit for all 6 mode combinations. "
       "A real SQLite writer is killed before its k-th file operation for every k and in the middle of every write (sampled in the quick tier, always all database writes and header/finalisation calls) for several page sizes; each image is read by a fresh sqlittle handle and by a handle opened before the crash (cached and uncached) and recovered by real SQLite. "
       "TLC replays the completed system calls through the writer actions (so the model of SQLite is validated against real SQLite), requires SqliteRecovered = what SQLite really recovered, judges C09 on the recorded outcomes and compares them with the model's reader rule. Also: sectors larger than the page (journal header written in chunks: HdrChunks/JHdrPad), journal leftovers of every length after a completed commit, cold handles, an explicit two-call transaction after the crash, and a reader parked between the call of an operation and its lock request while the writer dies.",
  note=NOTE + "crash = process death (completed writes persist in order); no power-loss reordering; journal modes MEMORY/OFF/WAL out of scope; LD_PRELOAD must see all file operations (unexplained call sequences fail the run with exit 2)",
  design="6 C09, 3.7", category="model_checking"),
 "C10": dict(
  technique="TLA+ spec Schema.tla (SQLite's CREATE TABLE/INDEX interpretation rules) validated against SQLite's PRAGMAs; generated ASTs rendered to text, stored by real SQLite, sqlittle's Schema judged by TLC (TraceSchema.tla)",
  text="Schema.tla transcribes build.c's rules: rowid alias (single INTEGER column, table-level or not DESC), automatic index per PRIMARY KEY/UNIQUE unless an earlier constraint index has the same columns and collations (sort order not compared), numbering sqlite_autoindex_<t>_<n>, collation inheritance, the deferred primary-key index of WITHOUT ROWID tables with an INTEGER key, primary key landing on an existing index. "
       "Seeded ASTs (<=4 columns, all constraint kinds in shuffled textual order, deliberate near-duplicate constraints, WITHOUT ROWID, CREATE [UNIQUE] INDEX incl. partial, non-ASCII identifiers) are rendered in many spellings and executed by real SQLite; TLC requires Interpret(ast) = SQLite's own PRAGMA view (else exit 2) and that sqlittle's Schema is an error or agrees on columns, WITHOUT ROWID, rowid alias, primary key and every index it reports (name -> columns, collations, directions).",
  note=NOTE + "small-scope, seeded (1500 quick / 20000 thorough definitions); expression indexes and generated columns not generated; the type test 'is exactly INTEGER' is evaluated by the generator (TLA+ has no string case folding)",
  design="6 C10, 3.8"),
 "C16": dict(
  technique="TLA+ spec Schema.tla (per-element report predicates) + TraceParse.tla; trace validation of parser results on SQLite-accepted statements and on hostile strings by TLC",
  text="Locality: for every element (column with its constraint sequence, table constraint, indexed column) of C10's AST corpus -- each element appears with many different neighbours, orders and spellings, all accepted and stored by real SQLite -- TLC requires the parser's report to equal the generating AST element (ColumnReportOK, IndexedColsOK). "
       "Totality/determinism: all lexeme sequences of length 1-2 over a 52-lexeme hostile alphabet (unterminated quotes, multi-byte letters, 1e, 0x, 20-digit numbers, NUL), seeded longer ones, every byte prefix and seeded byte mutations of stored statements are parsed twice in one process in opposite call order and once in a fresh process; TLC requires no panic, no hang, three identical answers.",
  note=NOTE + "strings are sampled, not all strings; a result returned together with an error is not judged",
  design="6 C16, 3.8"),
 "C18": dict(
  technique="TLA+ spec RowScan.tla (outcome table + aliasing model) model-checked; trace validation of recorded Row.Scan calls and lifetime histories by TLC (TraceRowScan.tla)",
  text="RowScan.tla gives Outcome(kind of stored value, destination) in {value, zero, error, skip} with first-error semantics for multi-destination scans, and a small aliasing model (Read, Scan, Mutate, Commit, Close) whose invariants ReadsSeeFile and Independent TLC checks exhaustively (and refutes when Scan does not copy). "
       "The real Row.Scan is called on every (grid value x destination incl. nil and unsupported ones) and on random rows of width 0..3 x destination lists of length 0..4; real lifetime histories (scan into []byte/string, overwrite the slice, re-read warm and fresh, close, overwrite the file; in-page and overflowing values) run on SQLite-written files; TLC judges error/no error, zero values, the documented conversion where it is defined independently of Go, no panic, row unchanged, and the lifetime observations.",
  note=NOTE + "exact results of Go's out-of-range float->int conversion, float formatting and strconv corner syntax are left open ('-'); the text classes (numeric / time / other) are assigned by the generator",
  design="6 C18, 3.11"),
 "C19": dict(
  technique="TLA+ spec Driver.tla (producer/consumer, cancel, wait group, error hand-off) model-checked incl. deadlock; trace validation by TLC (TraceDriver.tla, producer steps silent) of scenarios run through database/sql on the real driver",
  text="Driver.tla models the producer goroutine (lock, scan, select{ctx.Done | send}, unlock, store error, wg.Done, close channel) and the consumer (Next*, Close, external cancel); TLC checks Cleanup, ErrBeforeClose, NoSilentShort, PrefixDelivered, FailureSurfaces and deadlock freedom for up to 3 rows and every fault position. "
       "Real scenarios through database/sql: Next x k then Close / cancel+Close / drain for many k, GOMAXPROCS 1 and 4, producer given a head start or not, prepared statements kept open, read faults at each of the first page reads of the statement's handle, statements that must fail; after each: file lock of the process (/proc/locks), goroutine count, pager activity after Close returned. "
       "TLC accepts a scenario iff Driver.tla explains its observations; complete result sets are compared with the native Select by TLC; `*` expansion is checked against the table's column order. Unbounded: DriverProof.tla (TLAPS, 57 obligations) for any number of rows. Also: short reads and really truncated files, the page reads done while Close runs on a large table, a row that takes 0.5 s to load interrupted by Close, prepared statements re-executed after ALTER TABLE, two result sets open on one sql.Conn / sql.Tx, the fault scenarios again in a race-detector build.",
  note=NOTE + "interleavings are reached through GOMAXPROCS and short yields (sampled), not driven by gates; goroutine leaks judged after a settle period",
  design="6 C19, 3.12"),
 "C20": dict(
  technique="TLA+ spec System.tla (handles with private state, free interleaving) model-checked; TLC-simulated interleavings replayed with gated goroutines on real handles; free-running stress under the race-detector build; results judged by TLC (TraceSystem.tla)",
  text="System.tla: every step touches only its handle's private state; Independence (every operation's result equals its solo result), NoSharedWrites and the Isolation action property hold for all interleavings of 3 handles x 2 operations. "
       "Interleavings simulated from the model are replayed on three real handles in one process, each operation parked at every lock/page/callback event so that the schedule decides which goroutine steps next; then N goroutines x M operations on own native handles (same and different files, tables whose DDL spells keywords in many cases) and goroutines sharing database/sql pools (incl. result sets closed right after Query) run freely under `go build -race` BEFORE any sequential warm-up; every result is compared with the solo result and race reports are counted.",
  note=NOTE + "data races are what Go's race detector sees on the executed schedules: this half is monitored execution of the conformance harness, as DESIGN.md section 8 states; no writer is active here",
  design="6 C20, 3.13"),
 "C05": dict(
  technique="TLA+ spec Corrupt.tla (traversal on all small ill-formed page graphs; named corruption recipes) model-checked; every recipe applied to real files, every public operation run under a read budget in a worker process, outcomes and recipe coverage judged by TLC (TraceCorrupt.tla)",
  text="Corrupt.tla runs the traversal (recursion budget, overflow chain walk) on ALL page graphs of 2 (thorough: 3) pages with pointers null/self/ancestor/wrong kind/beyond the file and payloads claiming more overflow pages than exist: Robust (bounded page reads, no undefined step) holds for the repaired chain walk and is refuted for the unbounded one. "
       "It also names the corruption recipes (17 sites x adversarial classes). Every recipe is applied several times (seeded site choice) to SQLite-written files of several page sizes (incl. overflowing index entries), plus arbitrary bytes as -journal; a worker runs ~150-300 public operations per image (open, schema inspection, all scans, Rowid, ScanMin/ScanEq/IndexedSelectEq/PKSelect with keys of 8 classes, ScanRange, Select, IndexedSelect, Columns, the driver) under recover() and a deterministic page-read budget; panic, exceeded budget or a dead process is a violation with the image as replay; TLC judges outcomes and that every named recipe was exercised. Systematic families on a small file: every structured byte x 6 classes (about 12 000 images), every payload length shortened by 2..8, every journal header field x every power of two, cell counts around the end of the page on empty pages, ~280 sqlite_master definitions that parse but do not describe the stored tree or are cut at every length, a collation the reader does not know.",
  note=NOTE + "'all byte strings' is not enumerable: recipe classes x generated base files x seeded site instances; hang = exceeded page-read budget (exponential-but-finite work below the budget is not flagged); allocation is bounded through the read budget only",
  design="6 C05, 3.9", category="model_checking"),
}

NOT_YET = "check not built yet (work in progress; see DESIGN.md section 9 order of work)"


def main():
    props = [json.loads(l) for l in open(os.path.join(VERIF, "properties.jsonl"))]
    commits = subprocess.run(["git", "-C", "/repo", "log", "--format=%h %s"], stdout=subprocess.PIPE).stdout.decode().splitlines()
    hooks = [c.split()[0] for c in commits if c.split(" ", 1)[1].startswith("verif:")]
    checks, na = [], []
    for p in props:
        pid = p["id"]
        if pid in CHECKS:
            c = CHECKS[pid]
            checks.append({
                "property_id": pid,
                "quick_cmd": "tools/check %s --tier quick" % pid,
                "thorough_cmd": "tools/check %s --tier thorough" % pid,
                "evidence_file": "/verif/evidence/%s.json" % pid,
                "replay_cmd_template": "tools/check %s --replay {path}" % pid,
                "engine": "tlc",
                "level_claimed": {"category": c.get("category", "model_checking"), "text": c["text"], "design_ref": c["design"]},
                "level_note": c["note"],
                "technique": c["technique"],
            })
        else:
            na.append({"property_id": pid, "reason": NOT_YET})
    m = {
        "version": 1,
        "setup_cmd": "tools/setup.sh",
        "hooks": {"guard": "verif",
                  "enable": "go build -tags verif (the harness module /verif/harness has `replace github.com/alicebob/sqlittle => /repo`)",
                  "baseline_off_cmd": "cd /repo && GOFLAGS=-mod=mod GOPROXY=off GOSUMDB=off GOTOOLCHAIN=local go test -mod=mod -json -vet=off -count=1 -timeout 25m ./...",
                  "source_commits": hooks, "add_only": True},
        "engines": [{"name": "tlc", "path": "/verif/spec", "serves_properties": sorted(CHECKS),
                     "kind_free_text": "explicit TLA+ specification checked with TLC; bound to the code by trace validation (recorded traces judged by TLC) and by replaying TLC-generated cases/behaviours on the real code; orchestrated by tools/check"}],
        "checks": checks,
        "notes": "Model-based verification with an explicit TLA+ specification (spec/). See DESIGN.md. known_findings.json lists genuine defects (open / fixed).",
        "not_applicable": na,
    }
    json.dump(m, open(os.path.join(VERIF, "MANIFEST.json"), "w"), indent=1)
    print("MANIFEST: %d checks, %d not_applicable" % (len(checks), len(na)))


if __name__ == "__main__":
    main()

/* LD_PRELOAD shim: log, count and cut short the file operations of a real SQLite writer.
 *
 *  VERIF_SHIM_MATCH   substring of the path (e.g. "crash.db"): only operations on matching files count
 *  VERIF_SHIM_LOG     file that receives one line per counted operation:
 *                        <n> <op> <j|d> <offset> <length> <hex of the first 16 bytes written>
 *                     (j: the path ends in "-journal", d: the database file)
 *  VERIF_SHIM_KILL_AT k > 0: the process dies (SIGKILL semantics: _exit, nothing flushed) instead of
 *                     performing the k-th counted operation
 *  VERIF_SHIM_TORN    with KILL_AT on a write: the first half of the bytes is written, then the process dies
 *
 * Build: gcc -O1 -shared -fPIC -o crashshim.so crashshim.c -ldl
 */
#define _GNU_SOURCE
#include <dlfcn.h>
#include <fcntl.h>
#include <stdarg.h>
#include <stdio.h>
#include <stdlib.h>
#include <string.h>
#include <sys/syscall.h>
#include <sys/types.h>
#include <unistd.h>

static const char *match;
static int logfd = -1;
static long kill_at = 0, counter = 0;
static int torn = 0, inited = 0;

static void init(void) {
    if (inited) return;
    inited = 1;
    match = getenv("VERIF_SHIM_MATCH");
    const char *l = getenv("VERIF_SHIM_LOG");
    const char *k = getenv("VERIF_SHIM_KILL_AT");
    const char *t = getenv("VERIF_SHIM_TORN");
    if (k) kill_at = atol(k);
    if (t && *t == '1') torn = 1;
    if (l) logfd = syscall(SYS_openat, AT_FDCWD, l, O_WRONLY | O_CREAT | O_APPEND, 0644);
}

static int path_of_fd(int fd, char *buf, size_t n) {
    char p[64];
    snprintf(p, sizeof p, "/proc/self/fd/%d", fd);
    ssize_t r = readlink(p, buf, n - 1);
    if (r < 0) return -1;
    buf[r] = 0;
    return 0;
}

static int matches(const char *path) { return match && path && strstr(path, match) != NULL; }

static char kind(const char *path) {
    size_t n = strlen(path);
    const char *d = strstr(path, " (deleted)");
    if (d) n = d - path;
    return (n >= 8 && strncmp(path + n - 8, "-journal", 8) == 0) ? 'j' : 'd';
}

/* returns 1 when the process must die at this operation */
static int account(const char *op, const char *path, long long off, long long len, const void *data) {
    counter++;
    if (logfd >= 0) {
        char line[256], hex[40] = "";
        if (data) {
            int n = len < 16 ? (int)len : 16;
            for (int i = 0; i < n; i++) sprintf(hex + 2 * i, "%02x", ((const unsigned char *)data)[i]);
        }
        int m = snprintf(line, sizeof line, "%ld %s %c %lld %lld %s\n", counter, op, kind(path), off, len, hex[0] ? hex : "-");
        syscall(SYS_write, logfd, line, m);
    }
    return kill_at > 0 && counter == kill_at;
}

static void die(void) { syscall(SYS_exit_group, 137); }

typedef ssize_t (*pwrite_t)(int, const void *, size_t, off_t);
typedef ssize_t (*write_t)(int, const void *, size_t);
typedef int (*fsync_t)(int);
typedef int (*ftruncate_t)(int, off_t);
typedef int (*unlink_t)(const char *);
typedef int (*unlinkat_t)(int, const char *, int);

static ssize_t do_pwrite(const char *name, int fd, const void *buf, size_t n, off_t off) {
    init();
    pwrite_t real = (pwrite_t)dlsym(RTLD_NEXT, name);
    char path[1024];
    if (match && path_of_fd(fd, path, sizeof path) == 0 && matches(path)) {
        if (account("pwrite", path, off, n, buf)) {
            if (torn && n > 1) real(fd, buf, n / 2, off);
            die();
        }
    }
    return real(fd, buf, n, off);
}
ssize_t pwrite(int fd, const void *buf, size_t n, off_t off) { return do_pwrite("pwrite", fd, buf, n, off); }
ssize_t pwrite64(int fd, const void *buf, size_t n, off64_t off) { return do_pwrite("pwrite64", fd, buf, n, off); }

ssize_t write(int fd, const void *buf, size_t n) {
    init();
    write_t real = (write_t)dlsym(RTLD_NEXT, "write");
    char path[1024];
    if (match && fd != logfd && path_of_fd(fd, path, sizeof path) == 0 && matches(path)) {
        off_t off = lseek(fd, 0, SEEK_CUR);
        if (account("write", path, off, n, buf)) {
            if (torn && n > 1) real(fd, buf, n / 2);
            die();
        }
    }
    return real(fd, buf, n);
}

static int do_sync(const char *name, int fd) {
    init();
    fsync_t real = (fsync_t)dlsym(RTLD_NEXT, name);
    char path[1024];
    if (match && path_of_fd(fd, path, sizeof path) == 0 && matches(path)) {
        if (account("fsync", path, 0, 0, NULL)) die();
    }
    return real(fd);
}
int fsync(int fd) { return do_sync("fsync", fd); }
int fdatasync(int fd) { return do_sync("fdatasync", fd); }

static int do_trunc(const char *name, int fd, off_t len) {
    init();
    ftruncate_t real = (ftruncate_t)dlsym(RTLD_NEXT, name);
    char path[1024];
    if (match && path_of_fd(fd, path, sizeof path) == 0 && matches(path)) {
        if (account("ftruncate", path, len, 0, NULL)) die();
    }
    return real(fd, len);
}
int ftruncate(int fd, off_t len) { return do_trunc("ftruncate", fd, len); }
int ftruncate64(int fd, off64_t len) { return do_trunc("ftruncate64", fd, len); }

int unlink(const char *path) {
    init();
    unlink_t real = (unlink_t)dlsym(RTLD_NEXT, "unlink");
    if (matches(path)) {
        if (account("unlink", path, 0, 0, NULL)) die();
    }
    return real(path);
}
int unlinkat(int dirfd, const char *path, int flags) {
    init();
    unlinkat_t real = (unlinkat_t)dlsym(RTLD_NEXT, "unlinkat");
    if (matches(path)) {
        if (account("unlink", path, 0, 0, NULL)) die();
    }
    return real(dirfd, path, flags);
}

"""Glue between real databases / recorded operations and BTree.tla / TraceOps.tla."""
import json, os
from . import common, values, sqlitefmt
from .common import Infra

ZERO = {"k": "num", "s": 0, "top": 0, "bits": []}


class TraceDB:
    """A database file seen through the independent reader, as BTree.tla's T."""

    def __init__(self, path, name):
        self.path, self.name = path, name
        self.f = sqlitefmt.DBFile(path)
        self.master = self.f.master()
        self.objects = {}
        roots = [1]
        for o in self.master:
            if o["rootpage"]:
                self.objects[o["name"].lower()] = o
                roots.append(o["rootpage"])
        self.nodes, self.entries, self.order = self.f.graph(roots)
        self.vals = []          # decoded record of every entry (canonical python values)
        self.lookup = {}        # (root, rowid or None, values tuple) -> entry id
        self.byrowid = {}       # (root, rowid) -> entry id
        for root in roots:
            for i in self.order[root]:
                pass
        for i, e in enumerate(self.entries, 1):
            e["vals"] = sqlitefmt.decode_record(e["rec"])
        # sqlite_master rows: type and name (for Tables() / Indexes())
        self.master_ids = {}
        for i in self.order[1]:
            vs = self.entries[i - 1]["vals"]
            if len(vs) == 5 and vs[0][0] == "t" and vs[1][0] == "t":
                self.entries[i - 1]["mtype"] = vs[0][1].decode("utf-8", "replace")
                self.master_ids[(self.entries[i - 1]["mtype"], vs[1][1].decode("utf-8", "replace").lower())] = i
        for root in roots:
            for i in self.order[root]:
                e = self.entries[i - 1]
                self.lookup[(root, e["rowid"], tuple(e["vals"]))] = i
                if e["rowid"] is not None:
                    self.byrowid[(root, e["rowid"])] = i

    def pkmap(self, root, npk):
        key = ("pk", root, npk)
        if key not in self.lookup:
            self.lookup[key] = {tuple(self.entries[i - 1]["vals"][:npk]): i for i in self.order[root]}
        return self.lookup[key]

    def root(self, name):
        return self.objects[name.lower()]["rootpage"]

    def kind(self, root):
        return "table" if self.nodes[root]["kind"] in ("tl", "ti") else "index"

    def tla_tree(self):
        nodes = {}
        for pg, n in self.nodes.items():
            m = {"kind": n["kind"]}
            if "ents" in n:
                m["ents"] = n["ents"]
            if "kids" in n:
                m["kids"], m["right"] = n["kids"], n["right"]
            if "keys" in n:
                m["keys"] = [values.to_tla(("i", k)) for k in n["keys"]]
            nodes[str(pg)] = m
        ents = []
        for e in self.entries:
            if e["rowid"] is not None:
                ents.append({"rowid": values.to_tla(("i", e["rowid"])), "rec": [], "ov": e["ovfl"], "mtype": e.get("mtype", "")})
            else:
                vs = e["vals"]
                rid = values.to_tla(vs[-1]) if vs and vs[-1][0] == "i" else ZERO
                ents.append({"rowid": rid, "rec": [values.to_tla(x) for x in vs], "ov": e["ovfl"], "mtype": ""})
        return {"nodes": nodes, "ents": ents}


def norm_events(evs, keep_all=False):
    out, started = [], keep_all
    for e in evs:
        k = e[0]
        if not started:
            if k in ("L", "l"):
                started = True
            else:
                continue      # events of Open (header read before any lock)
        if k in ("L", "l", "U", "u"):
            out.append([k, 0])
        elif k in ("P", "p", "C"):
            out.append([k, e[1]])
    return out


def tla_key(key):
    """key: list of (value, coll, desc)"""
    return [{"v": values.to_tla(k[0]), "coll": (k[1] or "binary").lower(), "desc": bool(k[2])} for k in key]


_hk = [0]


def harness_key(key):
    """the default collation is passed the way the library's own callers pass it -- as the empty string -- two times out
    of three, and by name ("binary") otherwise"""
    _hk[0] += 1
    byname = _hk[0] % 3 == 0

    def coll(c):
        c = (c or "").lower()
        return "" if c == "binary" and not byname else c
    return [{"v": values.to_jval(k[0]), "coll": coll(k[1]), "desc": bool(k[2])} for k in key]


class OpSet:
    """Operations to run on real databases and to judge with TraceOps.tla."""

    def __init__(self):
        self.dbs = {}      # name -> TraceDB
        self.batches = []  # harness batches
        self.items = []    # (dbname, op dict for harness, tla op, meta)

    def add_db(self, tdb):
        self.dbs[tdb.name] = tdb

    def add(self, dbname, op, obj=None, index=None, rowid=None, key=None, to=None, stop=0, fail=0, fail_mode="err",
            lockfail=False, conf=True, meta=None):
        """op in table_scan|rowid|index_scan|scan_min|scan_range|scan_eq (low level API, fresh handle)."""
        tdb = self.dbs[dbname]
        name = index or obj
        root = tdb.root(name)
        h = {"op": op, "id": len(self.items)}
        if op in ("table_scan", "rowid"):
            h["table"] = obj
        elif index:
            h["index"] = index
        else:
            h["table"] = obj
        o = {"op": op, "root": root, "rowid": ZERO, "key": [], "to": [], "stop": stop, "fail": fail,
             "pro": "low", "lockfail": lockfail, "nested": "", "troot": 0, "pkcols": [], "pkdef": [], "nolock": False, "mtype": ""}
        if rowid is not None:
            h["rowid"] = str(rowid)
            o["rowid"] = values.to_tla(("i", rowid))
        if key is not None:
            h["dbkey"] = harness_key(key)
            o["key"] = tla_key(key)
        if to is not None:
            h["to"] = harness_key(to)
            o["to"] = tla_key(to)
        if stop:
            h["stop"] = stop
        if fail:
            h["fail_at"], h["fail_mode"] = fail, fail_mode
        if lockfail:
            h["lock_fail"] = True
        self.items.append({"db": dbname, "h": h, "o": o, "conf": conf, "meta": meta or {}, "root": root})
        return len(self.items) - 1

    def add_list(self, dbname, what, meta=None, conf=True):
        """Tables() / Indexes(): what in ("table", "index")"""
        h = {"op": "tables" if what == "table" else "indexes", "id": len(self.items)}
        o = {"op": "list", "root": 1, "rowid": ZERO, "key": [], "to": [], "stop": 0, "fail": 0, "pro": "low", "lockfail": False,
             "nested": "", "troot": 0, "pkcols": [], "pkdef": [], "nolock": False, "mtype": what}
        self.items.append({"db": dbname, "h": h, "o": o, "conf": conf, "meta": dict(meta or {}, listing=what), "root": 1})
        return len(self.items) - 1

    def add_hl(self, dbname, op, table, desc, index=None, key=None, rowid=None, stop=0, fail=0, fail_mode="err",
               lockfail=False, conf=True, meta=None):
        """High level API operation (sqlittle.DB.*), all columns requested.  `desc` is gen.describe()'s view
        of the table (what real SQLite says about columns, primary key, index key columns)."""
        tdb = self.dbs[dbname]
        t = desc["tables"][table]
        troot = tdb.root(table)
        wr = t["without_rowid"]
        colnames = [c["name"] for c in t["columns"]]
        lower = {c.lower() for c in colnames}
        alias = next((a for a in ("rowid", "_rowid_", "oid") if a not in lower), None)
        cols = list(colnames)
        if not wr and alias:
            cols = [alias] + cols
        h = {"op": op, "id": len(self.items), "table": table, "cols": cols}
        o = {"op": "", "root": troot, "rowid": ZERO, "key": [], "to": [], "stop": stop, "fail": fail,
             "pro": "low", "lockfail": lockfail, "nested": "", "troot": 0, "pkcols": [], "pkdef": [], "nolock": False, "mtype": ""}
        pkidx = next((i for i in t["indexes"].values() if i["origin"] == "pk"), None)
        pknames = [c["name"] for c in sorted((c for c in t["columns"] if c["pk"]), key=lambda c: c["pk"])]

        def keydef(ix, vals):
            kc = [c for c in ix["cols"]]
            if len(vals) > len(kc):
                raise Infra("key longer than index")
            return [(v, kc[i]["coll"], kc[i]["desc"]) for i, v in enumerate(vals)]

        def nested(ix):
            if wr:
                o["nested"] = "pk"
                names = [c["name"] for c in ix["cols"]]
                o["pkcols"] = [names.index(n) + 1 for n in pknames]
                pkd = [c for c in pkidx["cols"] if c["key"]]
                o["pkdef"] = [{"coll": c["coll"], "desc": c["desc"]} for c in pkd]
            else:
                o["nested"] = "rowid"
            o["troot"] = troot

        if op in ("select", "select_all"):
            o["op"] = "index_scan" if wr else "table_scan"
            if stop:
                h["stop"] = stop
        elif op == "select_rowid":
            o["op"] = "rowid"
            h["rowid"] = str(rowid)
            o["rowid"] = values.to_tla(("i", rowid))
        elif op == "pk_select":
            h["key"] = [values.to_jval(v) for v in key]
            if wr:
                o["op"] = "scan_eq"
                o["key"] = tla_key(keydef(pkidx, key))
            elif pkidx is None:      # INTEGER PRIMARY KEY: rowid lookup
                o["op"] = "pk_rowid"
                o["rowid"] = values.to_tla(key[0])
            else:
                o["op"] = "scan_eq"
                o["root"] = tdb.root(pkidx["name"])
                o["key"] = tla_key(keydef(pkidx, key))
                nested(pkidx)
        elif op in ("indexed_select", "indexed_select_eq"):
            ix = t["indexes"][index]
            h["index"] = index
            o["root"] = tdb.root(index)
            nested(ix)
            if op == "indexed_select":
                o["op"] = "index_scan"
            else:
                o["op"] = "scan_eq"
                h["key"] = [values.to_jval(v) for v in key]
                o["key"] = tla_key(keydef(ix, key))
        else:
            raise Infra("unknown high level op " + op)
        if fail:
            h["fail_at"], h["fail_mode"] = fail, fail_mode
        if lockfail:
            h["lock_fail"] = True
        m = dict(meta or {}, hl=True, table=table, cols=cols, wr=wr, pknames=pknames)
        self.items.append({"db": dbname, "h": h, "o": o, "conf": conf, "meta": m, "root": o["root"], "troot": troot})
        return len(self.items) - 1

    def _hl_out(self, tdb, it, r):
        """map the rows a high level op delivered to table entry ids (0 = no such row)"""
        m = it["meta"]
        troot = it["troot"]
        outs = []
        for row in r.get("rows") or []:
            vs = [values.from_jval(j) for j in row]
            if len(vs) != len(m["cols"]):
                outs.append(0)          # a callback invoked with a nil / short row: not a row of the table
                continue
            if not m["wr"]:
                if m["cols"][0].lower() in ("rowid", "_rowid_", "oid") and m["cols"][0].lower() not in [c.lower() for c in m["cols"][1:]]:
                    rid = vs[0][1] if vs[0][0] == "i" else None
                    outs.append(tdb.byrowid.get((troot, rid), 0))
                else:
                    outs.append(0)
            else:
                pk = tuple(vs[m["cols"].index(n)] for n in m["pknames"])
                outs.append(tdb.pkmap(troot, len(pk)).get(pk, 0))
        return outs

    def collect(self, res):
        """harness results (by op id) -> the lines TraceOps / TraceReader consume; fills it["res"], it["line"]"""
        lines = []
        for it in self.items:
            r = res[it["h"]["id"]]
            it["res"] = r
            tdb = self.dbs[it["db"]]
            root = it["root"]
            outs = []
            hl = it["meta"].get("hl")
            if it["meta"].get("listing"):
                outs = [tdb.master_ids.get((it["meta"]["listing"], str(nm).lower()), 0) for nm in (r.get("extra") or [])]
                hl = True
            elif hl:
                outs = self._hl_out(tdb, it, r)
            for row in ([] if hl else (r.get("rows") or [])):
                vs = [values.from_jval(j) for j in row]
                if it["o"]["op"] == "table_scan":
                    rid = vs[0][1] if vs and vs[0][0] == "i" else None
                    outs.append(tdb.lookup.get((root, rid, tuple(vs[1:])), 0))
                elif it["o"]["op"] == "rowid":
                    pass
                else:
                    outs.append(tdb.lookup.get((root, None, tuple(vs)), 0))
            found = 0
            if hl and it["o"]["op"] == "rowid":
                found = (outs[0] if outs else 0) if r.get("found") else 0
                if r.get("found") and found == 0:
                    found = -1
                outs = []
            elif it["o"]["op"] == "rowid" and r.get("found"):
                vs = [values.from_jval(j) for j in (r.get("rows") or [[]])[0]]
                found = tdb.lookup.get((root, int(it["h"]["rowid"]), tuple(vs)), -1)
            err = "x" if (r.get("err") or r.get("panic")) else ""
            it["panic"] = r.get("panic")
            line = {"db": it["db"], "o": it["o"], "ev": norm_events(r.get("events") or [], keep_all=it["o"].get("nolock", False)),
                    "out": outs, "cbn": r.get("n", 0), "err": err, "found": found, "fired": bool(r.get("fired")),
                    "cache0": [], "conf": bool(it["conf"]) and not r.get("panic")}
            if it.get("sq") is not None:
                line["sq"] = it["sq"]
            if it.get("lenient"):
                line["lenient"] = True
            it["line"] = line
            lines.append(line)
        return lines

    def run(self, harness, workdir, tag="ops", timeout=1800):
        """Execute on the real code, build the TLC inputs, run TraceOps, return per item results."""
        by_db, groups = {}, {}
        for it in self.items:
            if it.get("group") is not None:
                groups.setdefault((it["db"], it["group"]), []).append(it["h"])     # one long-lived handle per group
            else:
                by_db.setdefault(it["db"], []).append(it["h"])
        req = os.path.join(workdir, tag + "-req.ndjson")
        out = os.path.join(workdir, tag + "-res.ndjson")
        common.write_ndjson(req, [{"db": self.dbs[n].path, "mode": "fresh", "ops": ops} for n, ops in by_db.items()] +
                            [{"db": self.dbs[n].path, "mode": "keep", "ops": ops} for (n, g), ops in groups.items()])
        rc, txt, _ = common.run([harness, "ops", req, out], timeout=timeout)
        if rc != 0:
            raise common.harness_failure(txt)
        res = {r["id"]: r for r in common.read_ndjson(out)}
        if len(res) != len(self.items):
            raise Infra("harness returned %d results for %d operations" % (len(res), len(self.items)))
        lines = self.collect(res)
        trees = os.path.join(workdir, tag + "-trees.json")
        with open(trees, "w") as f:
            json.dump({n: d.tla_tree() for n, d in self.dbs.items()}, f, separators=(",", ":"))
        CH = int(os.environ.get("VERIF_CHUNK", "4000"))
        if len(lines) <= CH + CH // 2:
            opsf = os.path.join(workdir, tag + "-ops.ndjson")
            common.write_ndjson(opsf, lines)
            t = common.tlc("TraceOps", files={trees: "trees.json", opsf: "ops.ndjson"}, workers=1, timeout=timeout,
                           name=tag + "-tlc", heap="16g")
            if not t.ok:
                raise Infra("TraceOps failed:\n" + (t.error or t.out)[-3000:])
            verdict = json.load(open(os.path.join(t.workdir, "verdict.json")))
            if verdict["n"] != len(lines):
                raise Infra("TLC consumed %s of %d operations" % (verdict["n"], len(lines)))
        else:
            # long traces: consecutive chunks, each judged by its own TLC (the operations are independent: every line
            # carries its database and the cache state it started from), several at a time
            from concurrent.futures import ThreadPoolExecutor
            chunks = [(a, lines[a:a + CH]) for a in range(0, len(lines), CH)]

            def one(arg):
                a, part = arg
                # only the trees this chunk refers to
                names = {ln["db"] for ln in part}
                tf = os.path.join(workdir, "%s-trees-%d.json" % (tag, a))
                with open(tf, "w") as fh:
                    json.dump({n_: self.dbs[n_].tla_tree() for n_ in names}, fh, separators=(",", ":"))
                of = os.path.join(workdir, "%s-ops-%d.ndjson" % (tag, a))
                common.write_ndjson(of, part)
                t_ = common.tlc("TraceOps", files={tf: "trees.json", of: "ops.ndjson"}, workers=1, timeout=timeout,
                                name="%s-tlc-%d" % (tag, a), heap="8g")
                os.remove(tf)
                os.remove(of)
                if not t_.ok:
                    raise Infra("TraceOps failed on chunk %d:\n" % a + (t_.error or t_.out)[-3000:])
                vd = json.load(open(os.path.join(t_.workdir, "verdict.json")))
                if vd["n"] != len(part):
                    raise Infra("TLC consumed %s of %d operations (chunk %d)" % (vd["n"], len(part), a))
                return a, t_, vd
            with ThreadPoolExecutor(max_workers=6) as ex:
                done = list(ex.map(one, chunks))
            verdict = {"n": len(lines), "bad": [], "drift": [], "specbad": []}
            t = done[0][1]
            for a, t_, vd in done:
                if t_ is not t:
                    t.distinct += t_.distinct
                    t.generated += t_.generated
                verdict["bad"] += [dict(b, i=b["i"] + a) for b in vd["bad"]]
                verdict["drift"] += [dict(b, i=b["i"] + a) for b in vd["drift"]]
                verdict["specbad"] += [x + a for x in (vd.get("specbad") or [])]
        if verdict.get("specbad"):
            k = verdict["specbad"][0] - 1
            raise Infra("BTree.tla Reference differs from what real SQLite returns on %d operations, e.g. %s on db %s" %
                        (len(verdict["specbad"]), json.dumps(self.items[k]["h"])[:300], self.items[k]["db"]))
        for it in self.items:
            it["why"], it["drift"] = [], False
        for b in verdict["bad"]:
            self.items[b["i"] - 1]["why"] = sorted(b["why"])
        for dr in verdict["drift"]:
            self.items[dr["i"] - 1]["drift"] = True
            if os.environ.get("VERIF_DEBUG") and dr["mev"]:
                it = self.items[dr["i"] - 1]
                print("DRIFT", it["db"], it["h"], "\n  recorded:", it["line"]["ev"][:40], "\n  model   :", dr["mev"][:40])
        return t

"""Exact value encoding shared by the checks.

Python canonical value:  None | int | float | str-as-bytes ("t", bytes) | ("b", bytes)
  we use tuples:  ("n",) ("i", int) ("r", float) ("t", bytes) ("b", bytes)
Harness JSON form (jval): ["n"] ["i","-5"] ["r","<hex of float64 bits>"] ["t","<hex>"] ["b","<hex>"]
TLA+ JSON form (for Values.tla): {"k":"null"} {"k":"num","s":..,"top":..,"bits":[..]} {"k":"text","b":[..]} ...
"""
import math, struct
from fractions import Fraction


def from_jval(j):
    k = j[0]
    if k == "n":
        return ("n",)
    if k == "i":
        return ("i", int(j[1]))
    if k == "r":
        return ("r", struct.unpack(">d", bytes.fromhex(j[1]))[0])
    if k == "t":
        return ("t", bytes.fromhex(j[1]))
    if k == "b":
        return ("b", bytes.fromhex(j[1]))
    raise ValueError("bad jval %r" % (j,))


def to_jval(v):
    k = v[0]
    if k == "n":
        return ["n"]
    if k == "i":
        return ["i", str(v[1])]
    if k == "r":
        return ["r", struct.pack(">d", v[1]).hex()]
    if k == "t":
        return ["t", v[1].hex()]
    if k == "b":
        return ["b", v[1].hex()]
    raise ValueError(v)


def _dyadic(sign, m, e):
    """sign * m * 2^e with integer m > 0  ->  (s, top, bits)"""
    bl = m.bit_length()
    bits = bin(m)[2:].rstrip("0")
    return {"k": "num", "s": sign, "top": e + bl, "bits": [int(c) for c in bits]}


def num_tla(v):
    """("i", int) or ("r", float) -> TLA JSON record of the exact dyadic value."""
    if v[0] == "i":
        n = v[1]
        if n == 0:
            return {"k": "num", "s": 0, "top": 0, "bits": []}
        return _dyadic(1 if n > 0 else -1, abs(n), 0)
    f = v[1]
    if f != f:
        raise ValueError("NaN is not a storable SQLite value")
    if f == 0:
        return {"k": "num", "s": 0, "top": 0, "bits": []}
    if math.isinf(f):
        return {"k": "num", "s": 2 if f > 0 else -2, "top": 0, "bits": []}
    u = struct.unpack(">Q", struct.pack(">d", f))[0]
    sign = -1 if u >> 63 else 1
    ex = (u >> 52) & 0x7FF
    man = u & ((1 << 52) - 1)
    if ex == 0:
        return _dyadic(sign, man, -1074)
    return _dyadic(sign, man | (1 << 52), ex - 1075)


def to_tla(v):
    k = v[0]
    if k == "n":
        return {"k": "null"}
    if k in ("i", "r"):
        return num_tla(v)
    if k == "t":
        return {"k": "text", "b": list(v[1])}
    if k == "b":
        return {"k": "blob", "b": list(v[1])}
    raise ValueError(v)


def exact(v):
    """Exact Fraction of a finite number, or +-inf marker (for self tests)."""
    if v[0] == "i":
        return Fraction(v[1])
    f = v[1]
    if math.isinf(f):
        return f
    return Fraction(f)


def tla_to_fraction(t):
    if t["s"] == 0:
        return Fraction(0)
    if abs(t["s"]) == 2:
        return float("inf") if t["s"] > 0 else float("-inf")
    m = int("".join(map(str, t["bits"])), 2)
    return t["s"] * Fraction(m) * Fraction(2) ** (t["top"] - len(t["bits"]))


def to_sqlite(v):
    """Python object to bind.  Text that is not valid UTF-8 (or holds NUL) is bound via CAST."""
    k = v[0]
    if k == "n":
        return None
    if k in ("i", "r"):
        return v[1]
    if k == "t":
        return v[1].decode("utf-8")
    return v[1]


class TextBytes(bytes):
    """bytes of a TEXT value (use as sqlite3 text_factory so TEXT and BLOB stay distinguishable)"""


def from_sqlite(x):
    if isinstance(x, TextBytes):
        return ("t", bytes(x))
    if x is None:
        return ("n",)
    if isinstance(x, bool):
        return ("i", int(x))
    if isinstance(x, int):
        return ("i", x)
    if isinstance(x, float):
        return ("r", x)
    if isinstance(x, str):
        return ("t", x.encode("utf-8"))
    return ("b", bytes(x))


def selftest():
    """The encoder is in the trusted base: check it against Fraction arithmetic."""
    import random
    rnd = random.Random(1)
    vals = [("i", 0), ("r", 0.0), ("r", -0.0), ("i", 1), ("i", -1), ("i", 2 ** 63 - 1), ("i", -2 ** 63),
            ("r", 5e-324), ("r", 1.7976931348623157e308), ("r", 2.0 ** 53), ("i", 2 ** 53 + 1), ("r", 0.1)]
    for _ in range(300):
        vals.append(("i", rnd.randrange(-2 ** 63, 2 ** 63)))
        vals.append(("r", struct.unpack(">d", struct.pack(">Q", rnd.getrandbits(64)))[0]))
    vals = [v for v in vals if not (v[0] == "r" and (v[1] != v[1]))]
    for v in vals:
        t = num_tla(v)
        assert tla_to_fraction(t) == exact(v), (v, t)
        if t["s"] in (1, -1):
            assert t["bits"][0] == 1 and t["bits"][-1] == 1, t
    return len(vals)


if __name__ == "__main__":
    print("values selftest ok:", selftest())

"""Builds SQLite database files from abstract tree SHAPES (the nested shapes MC_BTree.tla enumerates), so that tree
forms real SQLite rarely writes (one-cell leaves, interior pages with a single child, stale separators, entries of
interior index pages next to overflowing ones) reach the real code.  Not trusted: every image is validated by real
SQLite (integrity_check, and the rows it returns) before use."""
import struct
from . import sqlitefmt

put_varint = sqlitefmt.put_varint


def count(sh, is_index):
    if sh["k"] == "L":
        return sh["n"]
    return sum(count(k, is_index) for k in sh["kids"]) + (len(sh["kids"]) - 1 if is_index else 0)


class Builder:
    def __init__(self, page_size=512):
        self.ps = page_size
        self.pages = {}          # page no -> bytes
        self.next_free = None

    def alloc(self):
        n = self.next_free
        self.next_free += 1
        return n

    def payload_cell(self, payload, is_index):
        """(local bytes incl. overflow pointer, list of overflow page images to place)"""
        U = self.ps
        loc = sqlitefmt.local_payload(U, len(payload), is_index)
        if loc == len(payload):
            return payload, []
        rest = payload[loc:]
        chunks = [rest[i:i + U - 4] for i in range(0, len(rest), U - 4)]
        nums = [self.alloc() for _ in chunks]
        for i, ch in enumerate(chunks):
            nxt = nums[i + 1] if i + 1 < len(nums) else 0
            self.pages[nums[i]] = (struct.pack(">I", nxt) + ch).ljust(U, b"\x00")
        return payload[:loc] + struct.pack(">I", nums[0]), nums

    def page_image(self, kind, cells, right=0, hdr_off=0):
        ps = self.ps
        typ = {"tl": 0x0D, "ti": 0x05, "il": 0x0A, "ii": 0x02}[kind]
        interior = kind in ("ti", "ii")
        hsize = 12 if interior else 8
        buf = bytearray(ps)
        end = ps
        ptrs = []
        for c in cells:
            end -= len(c)
            buf[end:end + len(c)] = c
            ptrs.append(end)
        if hdr_off + hsize + 2 * len(cells) > end:
            raise ValueError("page overflow")
        h = hdr_off
        buf[h] = typ
        buf[h + 1:h + 3] = b"\x00\x00"
        buf[h + 3:h + 5] = struct.pack(">H", len(cells))
        buf[h + 5:h + 7] = struct.pack(">H", end % 65536)
        buf[h + 7] = 0
        if interior:
            buf[h + 8:h + 12] = struct.pack(">I", right)
        po = h + hsize
        for i, p in enumerate(ptrs):
            buf[po + 2 * i:po + 2 * i + 2] = struct.pack(">H", p)
        return bytes(buf)


def build(sh, is_index, stale=False, pattern="distinct", ovf=False, page_size=512):
    """returns (file bytes, expected in-order list): for table trees [(rowid, value text)], for index trees
    [(key value, rowid)] -- the layout follows MC_BTree.tla's Build: pages in preorder from 2, entries in b-tree order"""
    b = Builder(page_size)
    n = count(sh, is_index)

    def npages(s):
        return 1 if s["k"] == "L" else 1 + sum(npages(k) for k in s["kids"])
    tree_pages = npages(sh)
    other_root = 2 + tree_pages            # the companion object (table for an index case) lives after the tree
    b.next_free = other_root + 1 if is_index else other_root

    def key_of(i):
        return {"distinct": i, "pairs": (i + 1) // 2, "same": 1, "triples": (i + 2) // 3}[pattern]

    def big(i):
        if not ovf:
            return 0
        return (page_size if i % 2 == 1 else (2 * page_size if i % 4 == 0 else 0))

    def ktext(i):
        # the padding depends on the key only: equal keys stay equal texts (ties are broken by the rowid)
        return ("%04d" % key_of(i)) + "k" * big(key_of(i))

    expect = []
    if not is_index:
        def ent(i):
            rowid = 2 * i
            val = ("v%d" % i) + "p" * big(i)
            expect.append((rowid, val))
            rec = sqlitefmt.encode_record([("n",), ("t", val.encode())])
            local, _ = b.payload_cell(rec, False)
            return put_varint(len(rec)) + put_varint(rowid) + local
    else:
        def ent(i):
            expect.append((ktext(i), i))
            rec = sqlitefmt.encode_record([("t", ktext(i).encode()), ("i", i)])
            local, _ = b.payload_cell(rec, True)
            return put_varint(len(rec)) + local

    def place(s, page, ent0):
        """returns last entry id of the subtree"""
        if s["k"] == "L":
            cells = [ent(ent0 + j + 1) for j in range(s["n"])]
            b.pages[page] = b.page_image("il" if is_index else "tl", cells)
            return ent0 + s["n"]
        c = len(s["kids"])
        pg, e = page + 1, ent0
        kid_pages, lasts = [], []
        for j, kid in enumerate(s["kids"]):
            kid_pages.append(pg)
            last = place(kid, pg, e)
            lasts.append(last)
            pg += npages(kid)
            e = last + (1 if is_index else 0)
        cells = []
        for j in range(c - 1):
            if is_index:
                cells.append(struct.pack(">I", kid_pages[j]) + ent(lasts[j] + 1))
            else:
                cells.append(struct.pack(">I", kid_pages[j]) + put_varint(2 * lasts[j] + (1 if stale else 0)))
        b.pages[page] = b.page_image("ii" if is_index else "ti", cells, right=kid_pages[-1])
        return lasts[-1]

    # entries must be generated in b-tree order for `expect`; interior index entries are created when the interior
    # page is assembled, i.e. after the children: collect, then sort expect by id afterwards
    place(sh, 2, 0)
    if is_index:
        expect.sort(key=lambda x: x[1])
    else:
        expect.sort(key=lambda x: x[0])
    # the companion object and sqlite_master
    if is_index:
        cells = []
        for i in range(1, n + 1):
            rec = sqlitefmt.encode_record([("t", ktext(i).encode())])
            local, _ = b.payload_cell(rec, False)
            cells.append(put_varint(len(rec)) + put_varint(i) + local)
        # the companion table: one leaf when the cells fit, else leaves under one interior root
        budget = page_size - 8
        groups, cur, used = [], [], 0
        for i, c_ in enumerate(cells, 1):
            if cur and used + len(c_) + 2 > budget:
                groups.append(cur)
                cur, used = [], 0
            cur.append((i, c_))
            used += len(c_) + 2
        if cur:
            groups.append(cur)
        if len(groups) <= 1:
            b.pages[other_root] = b.page_image("tl", cells)
        else:
            leafs = [b.alloc() for _ in groups]
            for pg_, g_ in zip(leafs, groups):
                b.pages[pg_] = b.page_image("tl", [c_ for _, c_ in g_])
            icells = [struct.pack(">I", pg_) + put_varint(g_[-1][0]) for pg_, g_ in zip(leafs[:-1], groups[:-1])]
            b.pages[other_root] = b.page_image("ti", icells, right=leafs[-1])
        master = [("table", "t", "t", other_root, "CREATE TABLE t(k)"), ("index", "ti", "t", 2, "CREATE INDEX ti ON t(k)")]
    else:
        master = [("table", "t", "t", 2, "CREATE TABLE t(id INTEGER PRIMARY KEY, v)")]
    mcells = []
    for rid, (typ, name, tbl, root, sql) in enumerate(master, 1):
        rec = sqlitefmt.encode_record([("t", typ.encode()), ("t", name.encode()), ("t", tbl.encode()), ("i", root), ("t", sql.encode())])
        mcells.append(put_varint(len(rec)) + put_varint(rid) + rec)
    total = max(b.pages) if b.pages else 1
    total = max(total, b.next_free - 1, 1)
    p1 = bytearray(b.page_image("tl", mcells, hdr_off=100))
    hdr = bytearray(100)
    hdr[0:16] = b"SQLite format 3\x00"
    hdr[16:18] = struct.pack(">H", 1 if page_size == 65536 else page_size)
    hdr[18] = 1
    hdr[19] = 1
    hdr[20] = 0
    hdr[21:24] = bytes([64, 32, 32])
    hdr[24:28] = struct.pack(">I", 1)        # change counter
    hdr[28:32] = struct.pack(">I", total)    # size in pages
    hdr[40:44] = struct.pack(">I", 1)        # schema cookie
    hdr[44:48] = struct.pack(">I", 4)        # schema format
    hdr[56:60] = struct.pack(">I", 1)        # UTF-8
    hdr[92:96] = struct.pack(">I", 1)        # version-valid-for
    hdr[96:100] = struct.pack(">I", 3040001)
    p1[0:100] = hdr
    b.pages[1] = bytes(p1)
    out = bytearray()
    for p in range(1, total + 1):
        out += b.pages.get(p, bytes(page_size))
    return bytes(out), expect


def shapes(max_depth=3, max_kids=3, max_kids_deep=2, max_leaf=2):
    """the same shape space as MC_BTree.tla's AllShapes"""
    import itertools

    def gen(d, kmax):
        if d == 1:
            return [{"k": "L", "n": n} for n in range(1, max_leaf + 1)]
        sub = gen(d - 1, kmax)
        out = []
        for c in range(1, kmax + 1):
            for ks in itertools.product(sub, repeat=c):
                out.append({"k": "I", "kids": list(ks)})
        return out
    out = [{"k": "L", "n": 0}] + gen(1, max_kids)
    if max_depth >= 2:
        out += gen(2, max_kids)
    if max_depth >= 3:
        out += gen(3, max_kids_deep)
    return out

"""Common machinery for the /verif checks: scratch space, harness build, TLC runs,
evidence files, known findings, verdicts.

Verdict discipline (DESIGN.md section 5):
  exit 0  property held on everything explored (KNOWN-FINDING lines allowed)
  exit 1  + line "VIOLATION property=<id> replay=<path>"  real code contradicts the spec
  exit 2  infrastructure problem (TLC error, timeout, spec != SQLite, dead agent ...)
"""
import atexit, json, os, re, shutil, subprocess, sys, tempfile, time

VERIF = os.path.dirname(os.path.dirname(os.path.dirname(os.path.abspath(__file__))))
REPO = os.environ.get("VERIF_REPO", "/repo")
SPEC = os.path.join(VERIF, "spec")
HARNESS_SRC = os.path.join(VERIF, "harness")
PYTHON = "/usr/bin/python3"

GOENV = dict(os.environ, GOFLAGS="-mod=mod", GOPROXY="off", GOSUMDB="off", GOTOOLCHAIN="local")


class Infra(Exception):
    """Infrastructure failure: maps to exit 2, never to a violation."""


class LibraryCrash(Exception):
    """the harness PROCESS died inside a call into the library (SIGSEGV / SIGBUS / fatal error with sqlittle frames on the
    running goroutine's stack): the operation never returned -- a violation of whatever property the operation is judged
    by, not an infrastructure problem.  (Out of memory and deaths outside the library stay infrastructure errors.)"""

    def __init__(self, summary, text):
        Exception.__init__(self, summary)
        self.summary, self.text = summary, text


def harness_failure(txt, what="harness ops"):
    """the exception to raise when a harness process exited non-zero"""
    m = re.search(r"^(fatal error: .*|panic: .*|\[signal SIG\w+.*)$", txt, re.M)
    run = re.search(r"goroutine \d+ [^\n]*\[running\]:\n(.*?)(?:\n\n|\Z)", txt, re.S)
    if m and run and "alicebob/sqlittle" in run.group(1) and "out of memory" not in txt[:4000]:
        sig = re.search(r"\[signal (SIG\w+)", txt)
        frames = re.findall(r"(github.com/alicebob/sqlittle[^\s(]*)\(", run.group(1))
        return LibraryCrash("%s in %s" % (sig.group(1) if sig else m.group(1)[:60], frames[0] if frames else "?"), txt[:6000])
    return Infra("%s failed: %s ... %s" % (what, txt[:700], txt[-1300:]))


def seed():
    try:
        return int(os.environ.get("VERIF_SEED", "0"))
    except ValueError:
        return 0


_scratch = None


def scratch():
    """A fresh scratch directory outside /repo and /verif, removed at exit."""
    global _scratch
    if _scratch is None:
        base = os.environ.get("VERIF_SCRATCH_BASE") or tempfile.gettempdir()
        _scratch = tempfile.mkdtemp(prefix="verif-", dir=base)
        atexit.register(_cleanup)
    return _scratch


def _cleanup():
    global _scratch
    if _scratch and os.path.isdir(_scratch) and not os.environ.get("VERIF_KEEP"):
        shutil.rmtree(_scratch, ignore_errors=True)
    _scratch = None


def sub(name):
    d = os.path.join(scratch(), name)
    os.makedirs(d, exist_ok=True)
    return d


def run(cmd, timeout=None, cwd=None, env=None, check=False, stdin=None):
    t0 = time.time()
    try:
        p = subprocess.run(cmd, cwd=cwd, env=env, timeout=timeout, stdout=subprocess.PIPE,
                           stderr=subprocess.STDOUT, input=stdin)
    except subprocess.TimeoutExpired as e:
        raise Infra("timeout after %ss: %s" % (timeout, " ".join(map(str, cmd))[:200]))
    out = p.stdout.decode("utf-8", "replace")
    if check and p.returncode != 0:
        raise Infra("command failed (%d): %s\n%s" % (p.returncode, " ".join(map(str, cmd))[:300], out[-3000:]))
    return p.returncode, out, time.time() - t0


_harness = {}


def build_harness(race=False):
    """Build the Go conformance harness from /repo's current working tree, hooks on."""
    key = "race" if race else "plain"
    if key in _harness:
        return _harness[key]
    src = os.path.join(scratch(), "harness-src")
    if not os.path.isdir(src):
        shutil.copytree(HARNESS_SRC, src)
        gomod = open(os.path.join(src, "go.mod")).read().replace("=> /repo", "=> " + REPO)
        open(os.path.join(src, "go.mod"), "w").write(gomod)
        shutil.copy(os.path.join(REPO, "go.sum"), os.path.join(src, "go.sum"))
    out = os.path.join(scratch(), "harness-" + key)
    cmd = ["go", "build", "-tags", "verif"] + (["-race"] if race else []) + ["-o", out, "."]
    rc, txt, _ = run(cmd, cwd=src, env=GOENV, timeout=900)
    if rc != 0:
        raise Infra("harness build failed:\n" + txt[-4000:])
    _harness[key] = out
    return out


# ---------------------------------------------------------------- TLC

class TlcResult:
    def __init__(self):
        self.rc = None
        self.out = ""
        self.generated = 0
        self.distinct = 0
        self.ok = False
        self.violated = None      # name of violated invariant / property
        self.error = None         # TLC evaluation error text
        self.wall = 0.0
        self.depth = 0
        self.workdir = None


def tlc(module, cfg=None, files=(), workers=1, timeout=600, extra=(), dfs=False, simulate=None,
        depth=None, tlc_seed=None, name=None, heap=None):
    """Run TLC on spec/<module>.tla in a scratch copy of the spec directory.
    `files` are extra (path -> name) inputs placed next to the module (traces)."""
    wd = sub(name or ("tlc-%s-%d" % (module, int(time.time() * 1000) % 10 ** 9)))
    for f in os.listdir(SPEC):
        if f.endswith(".tla") or f.endswith(".cfg"):
            shutil.copy(os.path.join(SPEC, f), wd)
    for src, dst in (files.items() if isinstance(files, dict) else files):
        shutil.copy(src, os.path.join(wd, dst))
    cfgname = cfg or (module + ".cfg")
    meta = os.path.join(wd, "meta")
    cmd = ["timeout", str(int(timeout)), "java", "-XX:+UseParallelGC", "-Xss512m"]
    if heap:
        cmd.append("-Xmx" + heap)
    if dfs:
        cmd.append("-Dtlc2.tool.queue.IStateQueue=StateDeque")
    cmd += ["-cp", "/opt/veriftools/tla/tla2tools.jar:/opt/veriftools/tla/CommunityModules-deps.jar",
            "tlc2.TLC", "-workers", str(workers), "-metadir", meta, "-config", cfgname,
            "-deadlock" if False else "-nowarning"]
    if simulate:
        cmd += ["-simulate", simulate]
    if depth:
        cmd += ["-depth", str(depth)]
    if tlc_seed is not None:
        cmd += ["-seed", str(tlc_seed)]
    cmd += list(extra) + [module + ".tla"]
    env = dict(os.environ)
    env.pop("JAVA_TOOL_OPTIONS", None)
    rc, out, wall = run(cmd, cwd=wd, env=env)
    r = TlcResult()
    r.rc, r.out, r.wall, r.workdir = rc, out, wall, wd
    if os.environ.get("VERIF_DEBUG"):
        print("[tlc %s %s: %.1fs rc=%s]" % (module, cfgname, wall, rc), flush=True)
    m = None
    for m in re.finditer(r"(\d+) states generated, (\d+) distinct states found", out):
        pass
    if m:
        r.generated, r.distinct = int(m.group(1)), int(m.group(2))
    m = re.search(r"The depth of the complete state graph search is (\d+)", out)
    if m:
        r.depth = int(m.group(1))
    if rc == 124:
        raise Infra("TLC timeout (%ss) on %s/%s" % (timeout, module, cfgname))
    m = re.search(r"Invariant (\S+) is violated", out)
    if m:
        r.violated = m.group(1)
    m2 = re.search(r"(Action property|Temporal property|Property) (\S+) (is|was) violated", out)
    if m2 and not r.violated:
        r.violated = m2.group(2)
    if "Model checking completed. No error has been found" in out or \
            (simulate and rc == 0):
        r.ok = True
    if not r.ok and not r.violated:
        r.error = out[-3000:]
    return r


def tlc_require_ok(r, what):
    if r.violated:
        raise Infra("TLC: %s: %s violated in the model\n%s" % (what, r.violated, r.out[-3000:]))
    if not r.ok:
        raise Infra("TLC: %s failed (rc=%s)\n%s" % (what, r.rc, (r.error or r.out)[-3000:]))


def tlapm(module, deps=(), timeout=1500, threads=12):
    """Check the TLAPS proofs of spec/<module>.tla; returns the number of obligations proved.  Anything but
    'All N obligations proved' is an infrastructure failure (a proof about the specification, not about the code)."""
    wd = sub("tlapm-%s" % module)
    for f in (module,) + tuple(deps):
        shutil.copy(os.path.join(SPEC, f + ".tla"), wd)
    rc, out, wall = run(["timeout", str(int(timeout)), "tlapm", "--threads", str(threads), module + ".tla"], cwd=wd)
    m = re.search(r"All (\d+) obligations? proved", out)
    if rc != 0 or not m:
        raise Infra("tlapm %s: rc=%s\n%s" % (module, rc, out[-3000:]))
    return int(m.group(1)), wall


def kill_stray_tlc():
    subprocess.run(["pkill", "-f", "tlc2.TL[C]"], stdout=subprocess.DEVNULL, stderr=subprocess.DEVNULL)


# ---------------------------------------------------------------- findings / verdicts

def known_findings(prop):
    p = os.path.join(VERIF, "known_findings.json")
    if not os.path.exists(p):
        return []
    data = json.load(open(p))
    return [f for f in data.get("findings", []) if f.get("property") == prop and f.get("status") == "open"]


class Verdict:
    """Collects violations, known findings, counters and samples for one check run."""

    def __init__(self, prop, tier, level="model_checking"):
        self.prop, self.tier, self.level = prop, tier, level
        self.t0 = time.time()
        self.violations = []     # (key, what, replay)
        self.known_hit = {}      # key -> what
        self.cov = {"states": 0, "transitions": 0, "traces_validated_against_impl": 0, "samples": [],
                    "evaluations": 0, "distinct_nontrivial": 0, "rule": ""}
        self.assumptions = []
        self.known = known_findings(prop)
        self._nontrivial = set()

    def add_tlc(self, r):
        self.cov["states"] += r.distinct
        self.cov["transitions"] += r.generated

    def sample(self, s, limit=6):
        if len(self.cov["samples"]) < limit:
            self.cov["samples"].append(s)

    def nontrivial(self, key):
        self._nontrivial.add(key)

    def report(self, key, what, replay_writer):
        """A disagreement between real code and spec. `key` identifies the failing
        input / call site / history class; listed open findings are not violations."""
        for f in self.known:
            if re.fullmatch(f["key"], key) if f.get("regex") else f["key"] == key:
                self.known_hit.setdefault(f["key"], f.get("what", what))
                return False
        path = replay_writer() if callable(replay_writer) else replay_writer
        self.violations.append((key, what, path))
        return True

    def finish(self):
        self.cov["distinct_nontrivial"] = len(self._nontrivial) if self._nontrivial else self.cov["distinct_nontrivial"]
        for k, what in sorted(self.known_hit.items()):
            print("KNOWN-FINDING: property=%s %s [%s]" % (self.prop, what, k))
        ev = {
            "property_id": self.prop, "tier": self.tier, "seed": seed(), "level": self.level,
            "coverage": self.cov, "assumptions": self.assumptions,
            "wall_s": round(time.time() - self.t0, 2), "violations": len(self.violations),
        }
        ev["coverage"]["known_findings_seen"] = sorted(self.known_hit)
        os.makedirs(os.path.join(VERIF, "evidence"), exist_ok=True)
        with open(os.path.join(VERIF, "evidence", self.prop + ".json"), "w") as f:
            json.dump(ev, f, indent=1, sort_keys=True)
        if len(self.violations) > 10:
            hist = {}
            for key, _, _ in self.violations:
                k = key if len(key) < 90 else key[:90]
                hist[k] = hist.get(k, 0) + 1
            print("violations by class: " + json.dumps(dict(sorted(hist.items(), key=lambda x: -x[1])[:25])))
        seen = set()
        for key, what, path in self.violations:
            if path in seen:
                continue
            seen.add(path)
            print("VIOLATION property=%s replay=%s" % (self.prop, path))
            print("  what: %s [%s]" % (what, key))
            if len(seen) >= 10:
                print("  ... %d more" % (len(self.violations) - 10))
                break
        return 1 if self.violations else 0


def replay_dir(prop):
    d = os.path.join(VERIF, "replays", prop)
    os.makedirs(d, exist_ok=True)
    return d


def write_replay(prop, name, obj):
    p = os.path.join(replay_dir(prop), name)
    with open(p, "w") as f:
        json.dump(obj, f, indent=1)
    return p


def write_ndjson(path, rows):
    with open(path, "w") as f:
        for r in rows:
            f.write(json.dumps(r, separators=(",", ":")))
            f.write("\n")


def read_ndjson(path):
    with open(path) as f:
        return [json.loads(l) for l in f if l.strip()]

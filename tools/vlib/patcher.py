"""Structure-aware corruption of valid SQLite files: the recipes of Corrupt.tla (site, class) applied to real files.
Sites are located with the independent reader (sqlitefmt)."""
import os, random, struct
from . import sqlitefmt


def be32(n):
    return struct.pack(">I", n & 0xFFFFFFFF)


def be16(n):
    return struct.pack(">H", n & 0xFFFF)


class Patcher:
    def __init__(self, path, rnd):
        self.data = open(path, "rb").read()
        self.f = sqlitefmt.DBFile(data=self.data)
        self.rnd = rnd
        self.ps = self.f.page_size
        self.master = self.f.master()
        self.roots = {o["name"]: o["rootpage"] for o in self.master if o["rootpage"]}
        # every b-tree page with its tree root, and overflow pages
        self.pages = {}      # page no -> (Page, root)
        self.ovfl = []       # (page no of overflow page, root)
        for root in [1] + list(self.roots.values()):
            self._collect(root, root, 0)

    def _collect(self, p, root, depth):
        if p in self.pages or depth > 40 or p < 1 or p > self.f.npages:
            return
        try:
            pg = self.f.page(p)
        except Exception:
            return
        self.pages[p] = (pg, root)
        for c in pg.cells:
            if c.ovfl:
                nxt = c.ovfl
                while nxt and 0 < nxt <= self.f.npages and len(self.ovfl) < 10000:
                    self.ovfl.append((nxt, root))
                    nxt = struct.unpack(">I", self.f.raw(nxt)[:4])[0]
            if c.left:
                self._collect(c.left, root, depth + 1)
        if pg.right:
            self._collect(pg.right, root, depth + 1)

    def base(self, page):
        return (page - 1) * self.ps

    def pointer_value(self, cls, page, root):
        if cls == "zero":
            return 0
        if cls == "self":
            return page
        if cls == "root":
            return root
        if cls == "other-kind":
            me = self.pages[page][0].kind if page in self.pages else "ov"
            cands = [p for p, (pg, r) in self.pages.items() if pg.kind[0] != me[0]] + [p for p, _ in self.ovfl]
            return self.rnd.choice(cands) if cands else 1
        if cls == "beyond-file":
            return self.f.npages + self.rnd.choice([1, 2, 1000])
        if cls == "max32":
            return self.rnd.choice([0xFFFFFFFF, 0x7FFFFFFF, 0x80000000])
        raise ValueError(cls)

    def varint_value(self, cls, old):
        if cls == "zero":
            return sqlitefmt.put_varint(0)
        if cls == "plus-one":
            return sqlitefmt.put_varint(old + 1)
        if cls == "minus-one":
            return sqlitefmt.put_varint(max(old - 1, 0))
        if cls == "doubled":
            return sqlitefmt.put_varint(old * 2 + 3)
        if cls == "huge-length":
            return sqlitefmt.put_varint(self.rnd.choice([0x7FFFFFFF, 1 << 40, 1 << 62, 0xFFFFFFFF]))
        if cls == "negative-varint":
            return self.rnd.choice([b"\xff" * 9, b"\x80" * 8 + b"\xff", b"\xff" * 8 + b"\x80"])
        raise ValueError(cls)

    def sites(self, site):
        """candidate locations [(absolute offset, kind info...)] for a site"""
        out = []
        for p, (pg, root) in self.pages.items():
            b = self.base(p)
            h = pg.hdr
            if site == "child-pointer":
                out += [("ptr", b + c.off, p, root) for c in pg.cells if c.left is not None]
            elif site == "rightmost-pointer" and pg.right is not None:
                out.append(("ptr", b + h + 8, p, root))
            elif site == "overflow-first":
                out += [("ptr", b + c.ovfl_off, p, root) for c in pg.cells if c.ovfl_off is not None]
            elif site == "cell-count":
                out.append(("u16", b + h + 3, pg.ncells))
            elif site == "cell-pointer":
                po = h + (12 if pg.kind in ("ti", "ii") else 8)
                out += [("u16", b + po + 2 * i, pg.ptrs[i]) for i in range(pg.ncells)]
            elif site == "payload-length":
                out += [("varint", b + c.plen_off, c.plen) for c in pg.cells if c.plen_off is not None]
            elif site == "rowid-varint":
                out += [("varint", b + c.rowid_off, c.rowid & ((1 << 64) - 1)) for c in pg.cells if c.rowid_off is not None]
            elif site == "record-header-size":
                out += [("varint", b + c.payload_off, c.local[0] if c.local else 0) for c in pg.cells if c.payload_off is not None and c.local]
            elif site == "serial-type":
                for c in pg.cells:
                    if c.payload_off is not None and len(c.local) > 2:
                        hs, n = sqlitefmt.varint(c.local, 0)
                        o = n
                        while o < min(hs, len(c.local) - 1):
                            t, k = sqlitefmt.varint(c.local, o)
                            out.append(("varint", b + c.payload_off + o, t))
                            o += k
            elif site == "page-type":
                out.append(("byte", b + h, self.data[b + h]))
        if site == "overflow-next":
            out += [("ptr", self.base(p), p, root) for p, root in self.ovfl]
        return out

    def apply(self, site, cls):
        """returns (patched bytes, description) or None when the file has no such site"""
        d = bytearray(self.data)
        rnd = self.rnd
        if site in ("child-pointer", "rightmost-pointer", "overflow-first", "overflow-next"):
            c = self.sites(site)
            if not c:
                return None
            _, off, page, root = rnd.choice(c)
            v = self.pointer_value(cls, page, root)
            d[off:off + 4] = be32(v)
            return bytes(d), "%s of page %d := %d" % (site, page, v)
        if site in ("cell-count", "cell-pointer"):
            c = self.sites(site)
            if not c:
                return None
            _, off, old = rnd.choice(c)
            v = {"zero": 0, "plus-one": old + 1, "doubled": old * 2 + 1, "max32": 0xFFFF, "random-byte": rnd.randrange(65536)}[cls]
            d[off:off + 2] = be16(v)
            return bytes(d), "%s at %d: %d -> %d" % (site, off, old, v & 0xFFFF)
        if site in ("payload-length", "record-header-size", "serial-type", "rowid-varint"):
            c = self.sites(site)
            if not c:
                return None
            _, off, old = rnd.choice(c)
            nb = self.varint_value(cls, old)
            d[off:off + len(nb)] = nb
            return bytes(d[:len(self.data)]), "%s at %d: %d -> %s" % (site, off, old, nb.hex())
        if site == "page-type":
            c = self.sites(site)
            _, off, old = rnd.choice(c)
            v = {"zero": 0, "other-kind": rnd.choice([x for x in (2, 5, 10, 13) if x != old]), "random-byte": rnd.randrange(256)}[cls]
            d[off] = v
            return bytes(d), "page type at %d: %d -> %d" % (off, old, v)
        if site == "master-rootpage":
            # locate the rootpage integer inside a sqlite_master record
            cands = []
            for p, (pg, root) in self.pages.items():
                if root != 1:
                    continue
                for c in pg.cells:
                    if c.payload_off is None or c.ovfl:
                        continue
                    rec = c.local
                    try:
                        hs, n = sqlitefmt.varint(rec, 0)
                        o, types = n, []
                        while o < hs:
                            t, k = sqlitefmt.varint(rec, o)
                            types.append(t)
                            o += k
                        if len(types) != 5 or not (1 <= types[3] <= 6):
                            continue
                        body = hs + sum(sqlitefmt.serial_len(t) for t in types[:3])
                        ln = sqlitefmt.serial_len(types[3])
                        cands.append((self.base(p) + c.payload_off + body, ln, int.from_bytes(rec[body:body + ln], "big")))
                    except Exception:
                        continue
            if not cands:
                return None
            off, ln, old = rnd.choice(cands)
            v = self.pointer_value(cls if cls != "self" else "root", old if old in self.pages else 1, 1)
            v = v % (1 << (8 * ln - 1))
            d[off:off + ln] = v.to_bytes(ln, "big")
            return bytes(d), "sqlite_master rootpage %d -> %d" % (old, v)
        if site == "master-sql":
            idx = [m.start() for m in __import__("re").finditer(rb"CREATE (TABLE|INDEX|UNIQUE)", self.data)]
            if not idx:
                return None
            off = rnd.choice(idx)
            end = self.data.find(b")", off) + 1
            ln = max(8, min(end - off, 120))
            if cls == "text-garbage":
                g = bytes(rnd.choice(b"'\"[`(),\xff\xc3\x28 CREATE TABLE x") for _ in range(ln))
            elif cls == "zero":
                g = b"\x00" * ln
            else:
                cut = rnd.randrange(7, ln)
                g = self.data[off:off + cut] + b" " * (ln - cut)
            d[off:off + ln] = g
            return bytes(d), "sqlite_master sql at %d overwritten (%s)" % (off, cls)
        if site == "header-field":
            off = rnd.randrange(16, 100)
            if cls == "random-byte":
                d[off] = rnd.randrange(256)
            elif cls == "zero":
                d[16:100] = b"\x00" * 84
            else:
                d[off:off + 4] = b"\xff\xff\xff\xff"
            return bytes(d), "header bytes at %d (%s)" % (off, cls)
        if site == "free-bytes":
            n = rnd.choice([1, 2, 5, 20])
            for _ in range(n):
                off = rnd.randrange(len(d))
                d[off] = {"random-byte": rnd.randrange(256), "zero": 0, "max32": 255}[cls]
            return bytes(d), "%d byte(s) overwritten (%s)" % (n, cls)
        if site == "truncate":
            k = rnd.choice([rnd.randrange(0, self.f.npages + 1) * self.ps, rnd.randrange(0, len(d)), 100, 99, 0, 16])
            return bytes(d[:k]), "truncated to %d bytes" % k
        raise ValueError(site)

    def sweep_offsets(self, body=10):
        """absolute offsets of every structured byte: database header, page headers, cell pointer arrays, and of every
        cell its header, record header, the first `body` and the last `body` bytes of the local payload, the overflow
        pointer; first 8 bytes of every overflow page"""
        offs = set(range(16, 100))
        for p, (pg, root) in self.pages.items():
            b = self.base(p)
            interior = pg.kind in ("ti", "ii")
            hl = 12 if interior else 8
            offs.update(range(b + pg.hdr, b + pg.hdr + hl + 2 * pg.ncells))
            for c in pg.cells:
                start = b + c.off
                if c.payload_off is None:
                    offs.update(range(start, start + 13))     # table interior cell: pointer + rowid varint
                    continue
                pay = b + c.payload_off
                nloc = len(c.local)
                hs = c.local[0] if c.local and c.local[0] < 0x80 else 9
                offs.update(range(start, pay))
                offs.update(range(pay, pay + min(nloc, hs + body)))
                offs.update(range(pay + max(0, nloc - body), pay + nloc + (4 if c.ovfl else 0)))
        for p, root in self.ovfl:
            offs.update(range(self.base(p), self.base(p) + 8))
        return sorted(o for o in offs if o < len(self.data))

    def sweep(self, off, cls):
        d = bytearray(self.data)
        old = d[off]
        v = {"zero": 0, "max32": 0xFF, "plus-one": (old + 1) & 0xFF, "minus-one": (old - 1) & 0xFF, "huge-length": old | 0x80, "doubled": 0x80}[cls]
        if v == old:
            return None
        d[off] = v
        return bytes(d), "byte at %d (page %d +%d): %02x -> %02x" % (off, off // self.ps + 1, off % self.ps, old, v)

    def shortened(self):
        """every cell's payload length reduced by 2..8 (single-byte varints only)"""
        out = []
        for kind, off, old in self.sites("payload-length"):
            if old < 0x80:
                for k in range(2, 9):
                    if old - k >= 1:
                        d = bytearray(self.data)
                        d[off] = old - k
                        out.append((bytes(d), "payload length at %d: %d -> %d" % (off, old, old - k)))
        return out

    def journal_headers(self):
        """[(class, journal bytes, description)]: a well-formed journal header with one field replaced, or cut"""
        magic = bytes([0xd9, 0xd5, 0x05, 0xf9, 0x20, 0xa1, 0x63, 0xd7])
        base = {"nrec": 1, "nonce": 0x1234567, "initial": self.f.npages, "sector": 512, "pagesize": self.ps}
        order = ["nrec", "nonce", "initial", "sector", "pagesize"]

        def build(vals):
            sector = vals["sector"] if 28 <= vals["sector"] <= 65536 else 512
            hdr = magic + b"".join(struct.pack(">I", vals[k] & 0xFFFFFFFF) for k in order)
            hdr += b"\x00" * (sector - len(hdr))
            rec = struct.pack(">I", 2) + self.data[self.ps:2 * self.ps] + struct.pack(">I", 0)
            return hdr + rec
        out = []
        for fld in order:
            b = base[fld]
            alts = [("zero", 0), ("plus-one", b + 1), ("minus-one", b - 1)] + [("doubled", 1 << k) for k in range(32)] + \
                [("max32", x) for x in (0xFFFFFFFF, 0x7FFFFFFF, 0x80000000)] + [("huge-length", x) for x in (1 << 20, (1 << 24) + 1, (1 << 30) - 1)]
            for cls, val in alts:
                out.append((cls, build(dict(base, **{fld: val})), "journal header %s = %d" % (fld, val)))
        whole = build(base)
        for n in list(range(0, 40)) + [511, 512, 513, 516, len(whole) - 1]:
            out.append(("cut", whole[:n], "well-formed journal cut at %d bytes" % n))
        return out

    def journal(self, cls):
        rnd = self.rnd
        if cls == "random-byte":
            return bytes(rnd.getrandbits(8) for _ in range(rnd.choice([1, 27, 28, 512, 2000])))
        if cls == "text-garbage":
            return b"this is not a journal " * rnd.choice([1, 40])
        magic = bytes([0xd9, 0xd5, 0x05, 0xf9, 0x20, 0xa1, 0x63, 0xd7])
        hdr = magic + struct.pack(">iiii", rnd.choice([0, 1, -1, 2 ** 31 - 1]), 7, 3, rnd.choice([512, 0, -1, 65536, 2 ** 31 - 1, 1 << 20]))
        hdr += struct.pack(">i", rnd.choice([self.ps, 0, -1]))
        body = hdr + b"\x00" * rnd.choice([0, 484, 600])
        return body[:rnd.choice([len(body), 28, 20, 100])]

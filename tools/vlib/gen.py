"""Database generators: real SQLite (python sqlite3, 3.40.1) writes every file."""
import os, random, sqlite3
from . import values, sqlitefmt


def connect(path, page_size=4096, **pragmas):
    if os.path.exists(path):
        os.unlink(path)
    con = sqlite3.connect(path, isolation_level=None)
    con.execute("PRAGMA page_size=%d" % page_size)
    con.execute("PRAGMA journal_mode=DELETE")
    for k, v in pragmas.items():
        con.execute("PRAGMA %s=%s" % (k, v))
    return con


def pattern_blob(n, salt):
    """n bytes, deterministic, different for every (n, salt)"""
    rnd = random.Random(n * 1000003 + salt)
    if n <= 64:
        return bytes(rnd.getrandbits(8) for _ in range(n))
    head = bytes(rnd.getrandbits(8) for _ in range(32))
    return (head * (n // 32 + 1))[:n]


def payload_db(path, page_size, blob_lengths, salt=0):
    """t(id INTEGER PRIMARY KEY, b) with one row per blob length, plus an index on b: table-leaf,
    index-leaf and index-interior cells whose payload lengths sweep the spill thresholds."""
    con = connect(path, page_size)
    con.execute("CREATE TABLE t(id INTEGER PRIMARY KEY, b)")
    con.execute("CREATE INDEX tb ON t(b)")
    con.execute("BEGIN")
    for i, n in enumerate(blob_lengths):
        con.execute("INSERT INTO t VALUES(?, ?)", (i + 1, pattern_blob(n, salt)))
    con.execute("COMMIT")
    con.close()
    return path


def oracle_rows(path, sql, params=()):
    con = sqlite3.connect("file:%s?mode=ro" % path, uri=True)
    con.text_factory = bytes
    try:
        return [tuple(values.from_sqlite(x) for x in r) for r in con.execute(sql, params)]
    finally:
        con.close()

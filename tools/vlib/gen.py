"""Database generators: real SQLite (python sqlite3, 3.40.1) writes every file."""
import os, random, sqlite3
from . import values, sqlitefmt


def connect(path, page_size=4096, **pragmas):
    if os.path.exists(path):
        os.unlink(path)
    con = sqlite3.connect(path, isolation_level=None)
    con.execute("PRAGMA page_size=%d" % page_size)
    con.execute("PRAGMA journal_mode=DELETE")
    for k, v in pragmas.items():
        con.execute("PRAGMA %s=%s" % (k, v))
    return con


def pattern_blob(n, salt):
    """n bytes, deterministic, different for every (n, salt)"""
    rnd = random.Random(n * 1000003 + salt)
    if n <= 64:
        return bytes(rnd.getrandbits(8) for _ in range(n))
    head = bytes(rnd.getrandbits(8) for _ in range(32))
    return (head * (n // 32 + 1))[:n]


def payload_db(path, page_size, blob_lengths, salt=0):
    """t(id INTEGER PRIMARY KEY, b) with one row per blob length, plus an index on b: table-leaf,
    index-leaf and index-interior cells whose payload lengths sweep the spill thresholds."""
    con = connect(path, page_size)
    con.execute("CREATE TABLE t(id INTEGER PRIMARY KEY, b)")
    con.execute("CREATE INDEX tb ON t(b)")
    con.execute("BEGIN")
    for i, n in enumerate(blob_lengths):
        con.execute("INSERT INTO t VALUES(?, ?)", (i + 1, pattern_blob(n, salt)))
    con.execute("COMMIT")
    con.close()
    return path


def oracle_rows(path, sql, params=()):
    con = sqlite3.connect("file:%s?mode=ro" % path, uri=True)
    con.text_factory = values.TextBytes
    try:
        return [tuple(values.from_sqlite(x) for x in r) for r in con.execute(sql, params)]
    finally:
        con.close()


# ---------------------------------------------------------------------------------------------
# Databases for the b-tree family (C01-C04, C12, C13, C17): real SQLite writes them all.

def _rows_values(rnd, n, textpool, wide=False):
    out = []
    for i in range(n):
        r = rnd.random()
        if r < 0.08:
            a = None
        elif r < 0.45:
            a = rnd.choice([0, 1, -1, 2, 7, 127, 128, -128, -129, 32767, -32768, 65536, 2 ** 23 - 1, 2 ** 23, -2 ** 23, -2 ** 23 - 1,
                            2 ** 31, -2 ** 31, -2 ** 31 - 1, 2 ** 47 - 1, 2 ** 47, -2 ** 47, -2 ** 47 - 1, 2 ** 53, 2 ** 53 + 1,
                            2 ** 63 - 1, -2 ** 63, rnd.randrange(-1000, 1000)])
        elif r < 0.6:
            a = rnd.choice([0.5, -0.5, 1.0, 2.0 ** 53, 1e300, -1e300, 3.25, float(rnd.randrange(-50, 50)) + 0.5])
        elif r < 0.9:
            a = rnd.choice(textpool)
        else:
            a = bytes(rnd.getrandbits(8) for _ in range(rnd.randrange(0, 6)))
        out.append(a)
    return out


TEXTPOOL = ["", "a", "A", "b", "B", "ab", "aB", "Ab", "a ", "a  ", "abc", "ABC", "abd", "z", "Z", "é", "É", " a", "a\t",
            "hello", "Hello", "HELLO", "hello ", "world", "1", "10", "2"]


def tree_db(path, page_size, rnd, n=200, longkeys=False, pad=180, auto_vacuum=None, fragment=True, vacuum=False, extreme=True, deep_rows=0):
    """A database with a rowid table `r` (+ indexes), a WITHOUT ROWID table `w` (+ index), an altered
    table `alt` (short rows completed by DEFAULT), an empty table `e`.  Returns a description."""
    pr = {}
    if auto_vacuum:
        pr["auto_vacuum"] = auto_vacuum
    con = connect(path, page_size, **pr)
    con.execute("CREATE TABLE r(id INTEGER PRIMARY KEY, a, b TEXT, c)")
    con.execute("CREATE INDEX ra ON r(a)")
    con.execute("CREATE INDEX rb ON r(b COLLATE NOCASE DESC, a)")
    con.execute("CREATE INDEX rpart ON r(c) WHERE a > 0")
    con.execute("CREATE UNIQUE INDEX rexpr ON r(id + 1, b COLLATE RTRIM)")
    con.execute("CREATE TABLE w(k1 TEXT COLLATE NOCASE, k2 INT, v, x DEFAULT 7, PRIMARY KEY(k1, k2 DESC)) WITHOUT ROWID")
    con.execute("CREATE INDEX wv ON w(v, k2)")
    con.execute("CREATE TABLE alt(p INTEGER PRIMARY KEY, q)")
    con.execute("CREATE TABLE e(x, y)")
    con.execute("CREATE INDEX ex ON e(x)")
    con.execute("CREATE TABLE rowidcol(rowid TEXT, oid, z)")
    # WITHOUT ROWID rows a little longer than the local payload limit, inserted in descending key order: cells with one
    # partly filled overflow page that share their b-tree page with cells stored behind them
    con.execute("CREATE TABLE wide(k TEXT PRIMARY KEY, v) WITHOUT ROWID")
    xi = ((page_size - 12) * 64 // 255) - 23
    for i in range(14, 0, -1):
        con.execute("INSERT INTO wide VALUES(?, ?)", ("w%03d" % i, "W" * (xi + 5 + 9 * i)))
    con.execute("CREATE TABLE ints(id INTEGER PRIMARY KEY, n)")
    for i, nv in enumerate([-2 ** 7, 2 ** 7 - 1, -2 ** 15, 2 ** 15 - 1, -2 ** 23, -2 ** 23 - 1, -2 ** 23 + 1, 2 ** 23 - 1, 2 ** 23, -2 ** 31, 2 ** 31 - 1,
                            -2 ** 47, -2 ** 47 - 1, -2 ** 47 + 1, 2 ** 47 - 1, 2 ** 47, -2 ** 63, 2 ** 63 - 1, 0, 1, -1]):
        con.execute("INSERT INTO ints VALUES(?, ?)", (i + 1, nv))
    con.execute("CREATE INDEX intsn ON ints(n)")
    con.execute("CREATE TABLE pl(id INTEGER PRIMARY KEY, b)")
    con.execute("CREATE INDEX plb ON pl(b)")
    con.execute("BEGIN")
    # payload lengths on both sides of every local/overflow spill threshold of this page size
    U = page_size
    targets = [sqlitefmt.max_local(U, False) + j * (U - 4) for j in (0, 1, 2)] + \
              [sqlitefmt.max_local(U, True) + j * (U - 4) for j in (0, 1)]
    lens = sorted({c + e - d for c in targets for e in (-1, 0, 1) for d in range(3, 9) if c + e - d >= 0})
    if U >= 16384:
        lens = lens[::2]
    for i, ln in enumerate(lens):
        con.execute("INSERT INTO pl VALUES(?, ?)", (i + 1, pattern_blob(ln, i)))
    avals = _rows_values(rnd, n, TEXTPOOL)
    pad = pad if longkeys else 0
    ids = []
    for i in range(n):
        rid = i + 1
        if extreme and i == 0:
            rid = -2 ** 63
        elif extreme and i == 1:
            rid = -5
        elif extreme and i == 2:
            rid = 0
        elif extreme and i == n - 1:
            rid = 2 ** 63 - 1
        elif extreme and i == n - 2:
            rid = 2 ** 40 + 7
        b = rnd.choice(TEXTPOOL) + ("k%04d" % (i // 3)) * (1 if not longkeys else 0)
        if longkeys:
            b = rnd.choice(TEXTPOOL[:8]) + ("%03d" % (i // 2)) + "x" * pad
        r = rnd.random()
        if r < 0.1:
            c = None
        elif r < 0.2:
            c = pattern_blob(rnd.choice([0, 1, 50, page_size - 40, page_size, 2 * page_size + 17]), i)
        elif r < 0.6:
            c = "c%d" % rnd.randrange(0, 40)
        else:
            c = rnd.randrange(-5, 50)
        con.execute("INSERT INTO r VALUES(?,?,?,?)", (rid, avals[i], b, c))
        ids.append(rid)
    for i in range(n // 2 + 3):
        k1 = rnd.choice(["a", "A", "b", "B", "ab", "hello", "Hello", "z" * (pad // 2 + 1), "m%02d" % (i // 4)])
        k2 = rnd.choice([None, i, -i, i // 2])
        try:
            if rnd.random() < 0.85:
                con.execute("INSERT INTO w VALUES(?,?,?,?)", (k1, k2, rnd.choice(avals), rnd.choice([None, 1, "x"])))
            else:
                con.execute("INSERT INTO w(k1, k2, v) VALUES(?,?,?)", (k1, k2 if k2 is not None else i, rnd.choice(avals)))
        except sqlite3.IntegrityError:
            pass
    if deep_rows:
        # big rowids (9-byte varints in interior cells) and ~110-byte rows: a depth-3 table on small pages
        con.execute("CREATE TABLE deep(id INTEGER PRIMARY KEY, t)")
        for i in range(deep_rows):
            con.execute("INSERT INTO deep VALUES(?, ?)", (2 ** 62 + i * 3, ("d%04d" % i) * 22))
    if page_size <= 8192:
        # overflow neighbours: a row that just spills (local part M, a tail of X-M+1.. bytes on ONE overflow page) next to a
        # row with a large local part on the same leaf, in both insertion orders: the spilled row's local bytes sit at a
        # LOWER address than the neighbour's cell, so a reader that extends the local slice in place overwrites the neighbour
        U = page_size
        X = U - 35
        con.execute("CREATE TABLE ovn(id INTEGER PRIMARY KEY, t TEXT)")
        con.execute("CREATE TABLE ovw(k TEXT PRIMARY KEY, v) WITHOUT ROWID")
        for j, extra in enumerate((1, 2, 5, 20, 64)):
            big = "A%d" % j + "a" * (int(U * 0.72) - 2)
            spill = "B%d" % j + "b" * (X + extra - 4 - 2)
            con.execute("INSERT INTO ovn VALUES(?,?)", (20 * j + 2, big))          # the neighbour first, higher rowid
            con.execute("INSERT INTO ovn VALUES(?,?)", (20 * j + 1, spill))        # then the spilled row, scanned first
            con.execute("INSERT INTO ovn VALUES(?,?)", (20 * j + 11, "C%d" % j + "c" * (int(U * 0.72) - 2)))
            con.execute("INSERT INTO ovn VALUES(?,?)", (20 * j + 12, "D%d" % j + "d" * (X + extra - 4 - 2)))   # scanned after its neighbour
        XI = ((U - 12) * 64 // 255) - 23
        for j, extra in enumerate((1, 3, 17)):
            for q in range(4):
                con.execute("INSERT INTO ovw VALUES(?,?)", ("%d%d" % (9 - q, j) + "w" * (XI + extra - 6), q))
    for i in range(12):
        con.execute("INSERT INTO alt VALUES(?,?)", (i * 3 + 1, "q%d" % i))
        con.execute("INSERT INTO rowidcol VALUES(?,?,?)", ("text%d" % i, i * 1.5, i))
    con.execute("COMMIT")
    con.execute("ALTER TABLE alt ADD COLUMN d1 DEFAULT 42")
    con.execute("ALTER TABLE alt ADD COLUMN d2 DEFAULT 'dflt'")
    con.execute("ALTER TABLE alt ADD COLUMN d3")
    con.execute("INSERT INTO alt VALUES(100, 'new', 1, 'two', 3.5)")
    deleted = []
    if fragment and n >= 20:
        con.execute("BEGIN")
        for rid in ids[5:n:7] + ids[n // 2: n // 2 + n // 8]:
            con.execute("DELETE FROM r WHERE id=?", (rid,))
            deleted.append(rid)
        con.execute("COMMIT")
    if vacuum:
        con.execute("VACUUM")
    con.execute("PRAGMA integrity_check")
    con.close()
    return describe(path, deleted=deleted)


def describe(path, deleted=()):
    """What real SQLite says about the schema: tables, indexes, key definitions (PRAGMA *_xinfo)."""
    con = sqlite3.connect("file:%s?mode=ro" % path, uri=True)
    ok = con.execute("PRAGMA integrity_check").fetchall()
    if ok != [("ok",)]:
        raise RuntimeError("generated database fails integrity_check: %r" % (ok,))
    d = {"path": path, "tables": {}, "deleted": list(deleted),
         "page_size": con.execute("PRAGMA page_size").fetchone()[0]}
    for name, sql in con.execute("SELECT name, sql FROM sqlite_master WHERE type='table'").fetchall():
        cols = con.execute("PRAGMA table_xinfo(%s)" % name).fetchall()
        wr = "WITHOUT ROWID" in (sql or "").upper()
        t = {"name": name, "sql": sql, "without_rowid": wr,
             "columns": [{"name": c[1], "type": c[2], "notnull": c[3], "dflt": c[4], "pk": c[5]} for c in cols if c[6] == 0],
             "indexes": {}}
        for _, iname, unique, origin, partial in con.execute("PRAGMA index_list(%s)" % name).fetchall():
            xi = con.execute("PRAGMA index_xinfo(%s)" % iname).fetchall()
            isql = con.execute("SELECT sql FROM sqlite_master WHERE name=?", (iname,)).fetchone()
            t["indexes"][iname] = {"name": iname, "unique": unique, "origin": origin, "partial": partial,
                                   "sql": isql[0] if isql else None,
                                   "cols": [{"cid": x[1], "name": x[2], "desc": bool(x[3]), "coll": x[4].lower(), "key": x[5]} for x in xi]}
        d["tables"][name] = t
    con.close()
    return d


def zoo_db(path, page_size, rnd, n=120):
    """Tables with many index layouts: multi-column, COLLATE, DESC, UNIQUE, automatic indexes, WITHOUT ROWID with
    primary keys in odd positions, secondary indexes overlapping the primary key; mixed classes and NULLs."""
    con = connect(path, page_size)
    con.execute("CREATE TABLE z1(a, b, c TEXT, d, PRIMARY KEY(b, a), UNIQUE(c COLLATE NOCASE, d DESC))")
    con.execute("CREATE INDEX z1d ON z1(d DESC, a)")
    con.execute("CREATE INDEX z1c ON z1(c COLLATE RTRIM)")
    con.execute("CREATE TABLE z2(k1, k2 TEXT, k3 TEXT, v1, v2, PRIMARY KEY(k2 DESC, k1)) WITHOUT ROWID")
    con.execute("CREATE INDEX z2v ON z2(v1, k1)")
    con.execute("CREATE INDEX z2k ON z2(k3 COLLATE RTRIM DESC)")
    con.execute("CREATE UNIQUE INDEX z2u ON z2(v2, k2)")
    con.execute("CREATE TABLE z3(a TEXT COLLATE NOCASE UNIQUE, b INT UNIQUE, c)")
    con.execute("CREATE TABLE z4(x INTEGER PRIMARY KEY DESC, y)")
    con.execute("CREATE TABLE z5(p TEXT PRIMARY KEY, q) WITHOUT ROWID")
    con.execute("CREATE INDEX z5q ON z5(q)")
    # column collation vs explicit collation of the index / constraint
    con.execute("CREATE TABLE z6(a TEXT COLLATE NOCASE, b TEXT COLLATE RTRIM, c, UNIQUE(a COLLATE RTRIM, c))")
    con.execute("CREATE INDEX z6a ON z6(a COLLATE BINARY)")
    con.execute("CREATE INDEX z6b ON z6(b COLLATE NOCASE, a COLLATE RTRIM DESC)")
    con.execute("CREATE INDEX z6c ON z6(b, a)")
    # a primary key that lands on an earlier UNIQUE constraint's index and takes its direction
    con.execute("CREATE TABLE z7(code TEXT, v, UNIQUE(code DESC), PRIMARY KEY(code)) WITHOUT ROWID")
    con.execute("CREATE TABLE z8(a, b, c, UNIQUE(a, b DESC), PRIMARY KEY(a DESC, b)) WITHOUT ROWID")
    con.execute("CREATE INDEX z8c ON z8(c)")
    # identifiers spelled differently in the definition, in the constraints and in the indexes
    con.execute('CREATE TABLE Z9(Alpha TEXT, beta, "Gamma" INT, Delta, PRIMARY KEY(GAMMA, alpha)) WITHOUT ROWID')
    con.execute("CREATE INDEX Z9d ON z9(DELTA, Beta)")
    con.execute("CREATE INDEX Z9g ON Z9(beta, gamma)")          # names a primary key column, spelled in another case
    con.execute("CREATE TABLE z10(Name TEXT PRIMARY KEY, Val, UNIQUE(VAL, name)) WITHOUT ROWID")
    con.execute("CREATE TABLE Z12(Id INTEGER PRIMARY KEY, Name TEXT UNIQUE, vAL)")
    con.execute("CREATE INDEX z12v ON Z12(Val, NAME)")
    # a numeric primary key holding integers and non-integral reals with the same integer part
    con.execute("CREATE TABLE z11(k PRIMARY KEY, v) WITHOUT ROWID")
    con.execute("CREATE INDEX z11v ON z11(v)")
    # several key columns: one with a named collation followed by columns with none (BINARY), values that the
    # collations order differently
    con.execute("CREATE TABLE z13(a TEXT COLLATE NOCASE, b TEXT, c TEXT COLLATE RTRIM, d TEXT)")
    con.execute("CREATE INDEX z13ab ON z13(a, b)")
    con.execute("CREATE INDEX z13cb ON z13(c, b DESC, d)")
    con.execute("CREATE INDEX z13x ON z13(d COLLATE NOCASE, b, a COLLATE BINARY)")
    con.execute("CREATE TABLE z14(a TEXT COLLATE NOCASE, b TEXT, c, PRIMARY KEY(a, b)) WITHOUT ROWID")
    con.execute("CREATE INDEX z14c ON z14(c, b)")
    # a column that is PRIMARY KEY and UNIQUE at once (one automatic index), followed by further UNIQUE constraints
    con.execute("CREATE TABLE z15(a TEXT PRIMARY KEY UNIQUE, b UNIQUE, c, UNIQUE(c, a))")
    con.execute("CREATE TABLE z16(a TEXT PRIMARY KEY UNIQUE, b UNIQUE, c) WITHOUT ROWID")
    # a composite PRIMARY KEY of a rowid table whose first column is INTEGER (no rowid alias: the values are stored)
    con.execute("CREATE TABLE z18(shop INTEGER, item TEXT, qty, PRIMARY KEY(shop, item))")
    con.execute("CREATE TABLE z19(n INTEGER, m INTEGER, PRIMARY KEY(n DESC, m)) WITHOUT ROWID")
    # integers beyond 2^53 next to the reals within rounding distance of them, in one indexed column and in a key
    con.execute("CREATE TABLE z20(n, tag)")
    con.execute("CREATE INDEX z20n ON z20(n)")
    con.execute("CREATE TABLE z21(n PRIMARY KEY, tag) WITHOUT ROWID")
    for j, v_ in enumerate([2 ** 53 - 1, 2 ** 53, 2 ** 53 + 1, 2 ** 53 + 2, float(2 ** 53), float(2 ** 53 + 2), 2 ** 60 - 1, 2 ** 60, 2 ** 60 + 1, float(2 ** 60),
                            2 ** 62 + 1, float(2 ** 62), 2 ** 63 - 1, 2 ** 63 - 512, float(2 ** 63), -(2 ** 63), -float(2 ** 63), -(2 ** 53) - 1, -float(2 ** 53),
                            3, 3.0, 3.5, -3, -3.5, 0, -0.5, 0.5]):
        con.execute("INSERT INTO z20 VALUES(?,?)", (v_, "t%d" % j))
        con.execute("INSERT OR IGNORE INTO z21 VALUES(?,?)", (v_, "t%d" % j))
    # a table-level PRIMARY KEY that repeats an earlier UNIQUE constraint, with another UNIQUE after it
    con.execute("CREATE TABLE z17(a TEXT UNIQUE, b TEXT, c, PRIMARY KEY(a), UNIQUE(b))")
    npool = TEXTPOOL[:12] + ["z", "Z", "zz", "ZZ", "Zz", "azure", "AZURE", "cRaZy", "crazy", "[", "`", "@", "{"]
    con.execute("BEGIN")
    for i in range(n):
        con.execute("INSERT INTO z13 VALUES(?,?,?,?)", (rnd.choice(npool), rnd.choice(npool), rnd.choice(npool), rnd.choice(npool)))
        con.execute("INSERT OR IGNORE INTO z14 VALUES(?,?,?)", (rnd.choice(npool), rnd.choice(npool), i % 3))
        con.execute("INSERT OR IGNORE INTO z15 VALUES(?,?,?)", ("k%03d" % (i * 7 % 101), i * 3, i % 11))
        con.execute("INSERT OR IGNORE INTO z16 VALUES(?,?,?)", (rnd.choice(npool) + str(i % 13), i * 5 - 40, i % 4))
        con.execute("INSERT OR IGNORE INTO z17 VALUES(?,?,?)", ("a%03d" % (i * 5 % 97), "b%03d" % (i * 11 % 89), i % 6))
        con.execute("INSERT OR IGNORE INTO z18 VALUES(?,?,?)", ([70, 12, -3, 2 ** 40][i % 4], "it%d" % (i % 17), i))
        con.execute("INSERT OR IGNORE INTO z19 VALUES(?,?)", (i % 7, i))
        con.execute("INSERT OR IGNORE INTO Z9 VALUES(?,?,?,?)", (rnd.choice(TEXTPOOL) + str(i % 7), i, i // 3, rnd.choice([None, i % 5, "d"])))
        con.execute("INSERT OR IGNORE INTO z10 VALUES(?,?)", (rnd.choice(TEXTPOOL) + str(i), i % 6))
        con.execute("INSERT OR IGNORE INTO Z12 VALUES(?,?,?)", (i * 3 - 20, rnd.choice(TEXTPOOL) + str(i), i % 4))
        k = (i // 4) - 10
        con.execute("INSERT OR IGNORE INTO z11 VALUES(?,?)", ([k, k + 0.5, float(k) + 0.25, -k - 0.75][i % 4], i % 5))
    pool = TEXTPOOL
    for i in range(n):
        try:
            con.execute("INSERT INTO z6 VALUES(?,?,?)", (rnd.choice(pool[:20]), rnd.choice(pool[:20]), i % 5))
        except sqlite3.IntegrityError:
            pass
    vals = _rows_values(rnd, n * 3, pool)
    for i in range(n):
        try:
            con.execute("INSERT INTO z1 VALUES(?,?,?,?)", (vals[i], i // 2, rnd.choice(pool) + str(i // 4), rnd.choice([None, i % 7, "d%d" % (i % 5), 1.5])))
        except sqlite3.IntegrityError:
            pass
        try:
            con.execute("INSERT INTO z2 VALUES(?,?,?,?,?)", (i // 3, rnd.choice(pool) + str(i % 9), rnd.choice(pool), vals[n + i], i))
        except sqlite3.IntegrityError:
            pass
        try:
            con.execute("INSERT INTO z3 VALUES(?,?,?)", (rnd.choice([None, rnd.choice(pool) + str(i)]), rnd.choice([None, i * 3 - 50]), vals[2 * n + i]))
        except sqlite3.IntegrityError:
            pass
        con.execute("INSERT INTO z4 VALUES(?,?)", (i * 5 - 100, vals[i]))
        con.execute("INSERT OR IGNORE INTO z7 VALUES(?,?)", ("c%03d" % (i * 7 % 97), i))
        con.execute("INSERT OR IGNORE INTO z8 VALUES(?,?,?)", (i % 9, rnd.choice(pool) + str(i % 5), i % 4))
        try:
            con.execute("INSERT INTO z5 VALUES(?,?)", (rnd.choice(pool) + str(i // 2), rnd.choice([None, i % 4, "q"])))
        except sqlite3.IntegrityError:
            pass
    con.execute("COMMIT")
    con.execute("DELETE FROM z1 WHERE rowid % 9 = 0")
    con.execute("DELETE FROM z2 WHERE k1 % 7 = 0")
    con.close()
    return describe(path)

"""The value grid shared by C03/C11/C13/C14/C18 (canonical python values, see values.py)."""
import struct


def f(x):
    return ("r", float(x))


def fb(u):
    return ("r", struct.unpack(">d", struct.pack(">Q", u))[0])


def core_ints():
    out = [0, 1, -1, 2, 3, 127, 128, -128, -129, 255, 256, 32767, 32768, -32768, -32769,
           2 ** 23 - 1, 2 ** 23, -2 ** 23, -2 ** 23 - 1, 2 ** 31 - 1, 2 ** 31, -2 ** 31, -2 ** 31 - 1,
           2 ** 47 - 1, 2 ** 47, -2 ** 47, -2 ** 47 - 1,
           2 ** 53 - 1, 2 ** 53, 2 ** 53 + 1, 2 ** 53 + 2, -(2 ** 53), -(2 ** 53) - 1, -(2 ** 53) + 1,
           2 ** 62, -(2 ** 62) - 1, 2 ** 63 - 1, 2 ** 63 - 2, 2 ** 63 - 1024, 2 ** 63 - 1025, -2 ** 63, -2 ** 63 + 1,
           10, 9007199254740993, 4611686018427387905]
    return [("i", n) for n in out]


def core_reals():
    out = [0.0, -0.0, 0.5, -0.5, 1.0, -1.0, 1.5, 3.0, 127.0, 128.5, 0.1, 1e-5, 10.0,
           2.0 ** 53, 2.0 ** 53 + 2, -(2.0 ** 53), -(2.0 ** 53) - 2, 2.0 ** 52 + 0.5,
           2.0 ** 63, -(2.0 ** 63), 9223372036854774784.0, 9223372036854777856.0, -9223372036854777856.0,
           2.0 ** 62, 4611686018427387904.0 + 1024, 1e19, -1e19, 1e308, -1e308,
           float("inf"), float("-inf"), 5e-324, -5e-324, 2.2250738585072014e-308, 2 ** 31 + 0.5, -(2 ** 31) - 0.5,
           2.0 ** 47, 8388608.0, 32768.0]
    return [("r", x) for x in out]


def core_texts():
    out = [b"", b"a", b"A", b"b", b"B", b"ab", b"aB", b"Ab", b"AB", b"a ", b"a  ", b"A ", b"a\t", b"a\n", b"a\r", b"a \t",
           b" a", b"a b", b"abc", b"ABC", b"abd", b"Z", b"z", b"[", b"`", b"@", b"{", b"^", b"_",
           "é".encode(), "É".encode(), "ä".encode(), "aé".encode(), "aÉ".encode(),
           "日本".encode(), b"a\x00", b"a\x00b", b"a\x00c", b"a\x00B", b"A\x00b", b"\x00", b"a\x00bc",
           b"1", b"10", b"2", b" ", b"  ", b"\t", b"~", b"a\x7f", b"a\xc2\xa0", b"k", b"K", "K".encode()]
    return [("t", x) for x in out]


def core_blobs():
    out = [b"", b"\x00", b"\x00\x00", b"a", b"A", b"ab", b"AB", b"\xff", b"\xff\x00", b"a ", b"a  ", b" ", b"\x80", b"a\x00", b"a\x00b", b"a\x00c"]
    return [("b", x) for x in out]


def grid(tier, rnd):
    g = [("n",)] + core_ints() + core_reals() + core_texts() + core_blobs()
    if tier == "thorough":
        for _ in range(60):
            g.append(("i", rnd.randrange(-2 ** 63, 2 ** 63)))
            n = rnd.randrange(2 ** 52, 2 ** 63)
            g.append(("i", n))
            g.append(("r", float(n)))
            g.append(fb(rnd.getrandbits(64)))
        for _ in range(60):
            ln = rnd.randrange(0, 6)
            b = bytes(rnd.choice(b"aAbB \t\x00zZ[`\xc3\xa9") for _ in range(ln))
            g.append(("t", b))
            g.append(("b", b))
        g = [v for v in g if not (v[0] == "r" and v[1] != v[1])]
    # de-duplicate, keep order
    seen, out = set(), []
    for v in g:
        key = (v[0], struct.pack(">d", v[1]) if v[0] == "r" else v[1:] )
        if key in seen:
            continue
        seen.add(key)
        out.append(v)
    return out


def small_grid():
    """A core grid small enough for TLC to check triples exhaustively."""
    ints = [0, 1, -1, 2 ** 53, 2 ** 53 + 1, 2 ** 63 - 1, -2 ** 63]
    reals = [0.5, -0.5, 2.0 ** 53, 2.0 ** 63, -(2.0 ** 63), float("inf"), float("-inf"), 5e-324]
    texts = [b"", b"a", b"A", b"a ", b"a\t", b"ab", b"B", b"a\x00b", b"a\x00c", b"[", "é".encode()]
    blobs = [b"", b"a", b"\x00"]
    return [("n",)] + [("i", n) for n in ints] + [("r", x) for x in reals] + \
        [("t", x) for x in texts] + [("b", x) for x in blobs]

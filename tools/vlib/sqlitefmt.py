"""Independent reader (and small writer) of the SQLite 3 file format, written from the format
documentation.  Not trusted: every use is cross-checked against real SQLite (rows, dbstat).

Gives the *abstract tree* the TLA+ module BTree.tla talks about: pages, node kinds, children,
keys, payloads (assembled over overflow chains), plus raw record bytes for Format.tla.
"""
import struct


def varint(b, o=0):
    n = 0
    for i in range(9):
        c = b[o + i]
        if i == 8:
            n = (n << 8) | c
            return n, 9
        n = (n << 7) | (c & 0x7F)
        if c < 0x80:
            return n, i + 1
    raise AssertionError


def signed64(n):
    return n - (1 << 64) if n >= (1 << 63) else n


def put_varint(n):
    n &= (1 << 64) - 1
    if n < 0x80:
        return bytes([n])
    if n >> 56:
        out = [n & 0xFF]
        n >>= 8
        for _ in range(8):
            out.append((n & 0x7F) | 0x80)
            n >>= 7
        return bytes(reversed(out))
    out = [n & 0x7F]
    n >>= 7
    while n:
        out.append((n & 0x7F) | 0x80)
        n >>= 7
    return bytes(reversed(out))


def max_local(U, is_index):
    return ((U - 12) * 64 // 255) - 23 if is_index else U - 35


def min_local(U):
    return ((U - 12) * 32 // 255) - 23


def local_payload(U, P, is_index):
    X, M = max_local(U, is_index), min_local(U)
    if P <= X:
        return P
    K = M + (P - M) % (U - 4)
    return K if K <= X else M


class Cell:
    __slots__ = ("kind", "left", "rowid", "plen", "local", "ovfl", "off", "page", "plen_off", "rowid_off", "payload_off", "ovfl_off")

    def __init__(self, kind):
        self.kind = kind
        self.left = self.rowid = self.plen = self.ovfl = None
        self.local = b""
        self.off = 0
        self.page = 0
        self.plen_off = self.rowid_off = self.payload_off = self.ovfl_off = None


class Page:
    __slots__ = ("no", "kind", "cells", "right", "hdr", "ncells", "ptrs")


KINDS = {0x0D: "tl", 0x05: "ti", 0x0A: "il", 0x02: "ii"}


class DBFile:
    def __init__(self, path=None, data=None):
        self.data = data if data is not None else open(path, "rb").read()
        ps = struct.unpack(">H", self.data[16:18])[0]
        self.page_size = 65536 if ps == 1 else ps
        self.reserved = self.data[20]
        self.U = self.page_size - self.reserved
        self.npages = len(self.data) // self.page_size

    def raw(self, n):
        return self.data[(n - 1) * self.page_size: n * self.page_size]

    def page(self, n):
        b = self.raw(n)
        h = 100 if n == 1 else 0
        p = Page()
        p.no, p.hdr = n, h
        p.kind = KINDS[b[h]]
        p.ncells = struct.unpack(">H", b[h + 3:h + 5])[0]
        interior = p.kind in ("ti", "ii")
        p.right = struct.unpack(">I", b[h + 8:h + 12])[0] if interior else None
        po = h + (12 if interior else 8)
        p.ptrs = [struct.unpack(">H", b[po + 2 * i:po + 2 * i + 2])[0] for i in range(p.ncells)]
        p.cells = [self._cell(p.kind, b, o, n) for o in p.ptrs]
        return p

    def _cell(self, kind, b, o, pageno):
        c = Cell(kind)
        c.off, c.page = o, pageno
        if kind in ("ti", "ii"):
            c.left = struct.unpack(">I", b[o:o + 4])[0]
            o += 4
        if kind == "ti":
            c.rowid_off = o
            k, n = varint(b, o)
            c.rowid = signed64(k)
            return c
        c.plen_off = o
        c.plen, n = varint(b, o)
        o += n
        if kind == "tl":
            c.rowid_off = o
            k, n = varint(b, o)
            c.rowid = signed64(k)
            o += n
        loc = local_payload(self.U, c.plen, kind != "tl")
        c.payload_off = o
        c.local = b[o:o + loc]
        if loc < c.plen:
            c.ovfl_off = o + loc
            c.ovfl = struct.unpack(">I", b[o + loc:o + loc + 4])[0]
        return c

    def payload(self, c):
        """full payload bytes and the list of overflow pages"""
        out = bytearray(c.local)
        pages = []
        nxt = c.ovfl
        while nxt and len(out) < c.plen:
            pages.append(nxt)
            b = self.raw(nxt)
            nxt = struct.unpack(">I", b[:4])[0]
            out += b[4:self.U]
        return bytes(out[:c.plen]), pages

    def master(self):
        rows = []
        for rowid, rec, _ in self.table_rows(1):
            vals = decode_record(rec)
            rows.append(tuple(v[1] if v[0] != "n" else None for v in vals))
        out = []
        for r in rows:
            out.append({"type": r[0].decode(), "name": r[1].decode(), "tbl_name": r[2].decode(), "rootpage": r[3],
                        "sql": r[4].decode() if r[4] is not None else None})
        return out

    def table_rows(self, root):
        """in-order (rowid, record bytes, overflow pages) of a table b-tree"""
        p = self.page(root)
        if p.kind == "tl":
            for c in p.cells:
                pl, ov = self.payload(c)
                yield c.rowid, pl, ov
        else:
            for c in p.cells:
                yield from self.table_rows(c.left)
            yield from self.table_rows(p.right)

    def index_entries(self, root):
        p = self.page(root)
        if p.kind == "il":
            for c in p.cells:
                pl, ov = self.payload(c)
                yield pl, ov
        else:
            for c in p.cells:
                yield from self.index_entries(c.left)
                pl, ov = self.payload(c)
                yield pl, ov
            yield from self.index_entries(p.right)

    def tree(self, root):
        """Abstract tree: dict page -> node; entries are referenced by id into a list.
        Returns (nodes, entries) where entries[i] = dict(rowid=..|None, rec=bytes, ovfl=[pages])."""
        nodes, entries = {}, []

        def ent(c):
            pl, ov = self.payload(c)
            entries.append({"rowid": c.rowid, "rec": pl, "ovfl": ov})
            return len(entries)  # 1 based id

        def walk(n, depth):
            if n in nodes or depth > 40:
                return
            p = self.page(n)
            if p.kind == "tl":
                nodes[n] = {"kind": "tl", "ents": [ent(c) for c in p.cells]}
            elif p.kind == "il":
                nodes[n] = {"kind": "il", "ents": [ent(c) for c in p.cells]}
            elif p.kind == "ti":
                nodes[n] = {"kind": "ti", "kids": [c.left for c in p.cells], "keys": [c.rowid for c in p.cells],
                            "right": p.right}
                for c in p.cells:
                    walk(c.left, depth + 1)
                walk(p.right, depth + 1)
            else:
                node = {"kind": "ii", "kids": [], "ents": [], "right": p.right}
                nodes[n] = node
                for c in p.cells:
                    walk(c.left, depth + 1)
                    node["kids"].append(c.left)
                    node["ents"].append(ent(c))
                walk(p.right, depth + 1)
        walk(root, 0)
        return nodes, entries

    def graph(self, roots):
        """Page graph of several b-trees with one global entry numbering.
        Returns (nodes, entries, order) where order[root] = entry ids of that tree in b-tree order."""
        nodes, entries, order = {}, [], {}
        for root in roots:
            n, e = self.tree(root)
            off = len(entries)
            for pg, node in n.items():
                if "ents" in node:
                    node["ents"] = [i + off for i in node["ents"]]
                if pg in nodes and pg != root:
                    raise ValueError("page %d shared between trees" % pg)
                nodes[pg] = node
            entries.extend(e)
            order[root] = self._inorder(nodes, root)
        return nodes, entries, order

    def _inorder(self, nodes, p):
        n = nodes[p]
        if n["kind"] in ("tl", "il"):
            return list(n["ents"])
        out = []
        for i, k in enumerate(n["kids"]):
            out += self._inorder(nodes, k)
            if n["kind"] == "ii":
                out.append(n["ents"][i])
        return out + self._inorder(nodes, n["right"])

    def depth(self, root):
        d, n = 1, root
        while True:
            p = self.page(n)
            if p.kind in ("tl", "il"):
                return d
            n = p.right
            d += 1


def serial_len(t):
    if t in (0, 8, 9):
        return 0
    if t <= 4:
        return t
    if t == 5:
        return 6
    if t in (6, 7):
        return 8
    if t >= 12:
        return (t - 12) // 2
    raise ValueError("serial type %d" % t)


def decode_record(b):
    """record bytes -> list of canonical values (see values.py)"""
    hs, n = varint(b, 0)
    o, types = n, []
    while o < hs:
        t, n = varint(b, o)
        types.append(t)
        o += n
    o = hs
    out = []
    for t in types:
        ln = serial_len(t)
        d = b[o:o + ln]
        o += ln
        if t == 0:
            out.append(("n",))
        elif 1 <= t <= 6:
            out.append(("i", int.from_bytes(d, "big", signed=True)))
        elif t == 7:
            out.append(("r", struct.unpack(">d", d)[0]))
        elif t == 8:
            out.append(("i", 0))
        elif t == 9:
            out.append(("i", 1))
        elif t % 2 == 0:
            out.append(("b", bytes(d)))
        else:
            out.append(("t", bytes(d)))
    return out


def encode_value(v, fmt4=True):
    """canonical value -> (serial type, body bytes), SQLite's minimal encoding"""
    k = v[0]
    if k == "n":
        return 0, b""
    if k == "i":
        n = v[1]
        if fmt4 and n == 0:
            return 8, b""
        if fmt4 and n == 1:
            return 9, b""
        for t, ln in ((1, 1), (2, 2), (3, 3), (4, 4), (5, 6), (6, 8)):
            if -(1 << (8 * ln - 1)) <= n < (1 << (8 * ln - 1)):
                return t, n.to_bytes(ln, "big", signed=True)
    if k == "r":
        return 7, struct.pack(">d", v[1])
    if k == "t":
        return 13 + 2 * len(v[1]), v[1]
    if k == "b":
        return 12 + 2 * len(v[1]), v[1]
    raise ValueError(v)


def encode_record(vals, widths=None):
    """widths: optional list of forced serial types (to exercise non-minimal encodings)"""
    types, bodies = [], []
    for i, v in enumerate(vals):
        t, b = encode_value(v)
        if widths and widths[i] is not None:
            t = widths[i]
            if 1 <= t <= 6:
                b = v[1].to_bytes(serial_len(t), "big", signed=True)
        types.append(t)
        bodies.append(b)
    hdr = b"".join(put_varint(t) for t in types)
    hl = len(hdr) + 1
    if hl > 127:
        hl = len(hdr) + 2
    return put_varint(hl) + hdr + b"".join(bodies)

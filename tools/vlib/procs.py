"""Real processes driven step by step: Go agents holding sqlittle handles, python SQLite writers, and the
kernel's lock table as seen in /proc/locks."""
import json, os, subprocess
from . import common
from .common import Infra

PENDING = 0x40000000
REGIONS = {"pend": (PENDING, PENDING), "resv": (PENDING + 1, PENDING + 1), "shrd": (PENDING + 2, PENDING + 511)}


class Blocked(Exception):
    """the agent did not answer within the time limit: the operation it runs is blocked"""


class Proc:
    def __init__(self, argv, name):
        self.name = name
        self.p = subprocess.Popen(argv, stdin=subprocess.PIPE, stdout=subprocess.PIPE, stderr=subprocess.DEVNULL)
        self.pid = self.p.pid

    def call(self, _timeout=None, **cmd):
        """_timeout (seconds): raise Blocked when the agent does not answer in time (an operation that sleeps in the
        kernel instead of returning)"""
        try:
            self.p.stdin.write((json.dumps(cmd) + "\n").encode())
            self.p.stdin.flush()
            if _timeout is not None:
                import select
                r, _, _ = select.select([self.p.stdout], [], [], _timeout)
                if not r:
                    raise Blocked("agent %s did not answer %s within %s s" % (self.name, cmd.get("cmd"), _timeout))
            line = self.p.stdout.readline()
        except BrokenPipeError:
            raise Infra("agent %s died" % self.name)
        if not line:
            raise Infra("agent %s died (no reply to %s)" % (self.name, cmd.get("cmd")))
        return json.loads(line)

    def kill(self):
        """SIGKILL: the process dies where it stands (its kernel locks go, its files stay as they are)"""
        self.p.kill()
        self.p.wait(timeout=10)

    def close(self):
        try:
            self.call(cmd="quit")
        except Exception:
            pass
        try:
            self.p.stdin.close()
            self.p.wait(timeout=5)
        except Exception:
            self.p.kill()


class GoAgent(Proc):
    def __init__(self, harness, name):
        super().__init__([harness, "agent"], name)


class SqlWriter(Proc):
    def __init__(self, db, name):
        super().__init__([common.PYTHON, os.path.join(common.VERIF, "tools", "writer.py"), "agent", db], name)

    def sql(self, sql, params=()):
        return self.call(cmd="sql", sql=sql, params=list(params))


def proc_locks(path):
    """[(pid, 'R'|'W', start, end)] for the inode of path, from the kernel's own table"""
    ino = os.stat(path).st_ino
    out = []
    for line in open("/proc/locks"):
        f = line.split()
        if len(f) < 8 or f[1] != "POSIX":
            continue
        try:
            if int(f[5].split(":")[2]) != ino:
                continue
        except (IndexError, ValueError):
            continue
        end = -1 if f[7] == "EOF" else int(f[7])
        out.append((int(f[4]), "W" if f[3] == "WRITE" else "R", int(f[6]), end))
    return out


def region_table(locks, pids):
    """kernel entries -> {proc name: {region: 'N'|'R'|'W'|'?'}}; '?' = a lock that is not exactly a SQLite region
    (wrong byte range): can never match the specification's table"""
    table = {name: {r: "N" for r in REGIONS} for name in pids.values()}
    for pid, typ, start, end in locks:
        name = pids.get(pid)
        if name is None:
            continue
        if end == -1:
            end = 1 << 62
        covered = False
        for r, (a, b) in REGIONS.items():
            if start <= a and end >= b:
                table[name][r] = typ if table[name][r] in ("N", typ) else "?"
                covered = True
            elif not (end < a or start > b):
                table[name][r] = "?"      # partial cover of a region
                covered = True
        lo, hi = PENDING, PENDING + 511
        if start < lo or end > hi:
            table[name]["other"] = "?"    # locks outside SQLite's byte range
    return table

"""CREATE TABLE / CREATE INDEX abstract syntax trees (Schema.tla's ast), their rendering to SQL text in many
spellings, and what real SQLite reports about them (PRAGMA table_xinfo / index_list / index_xinfo)."""
import random, sqlite3

TYPES = ["INTEGER", "integer", "Integer", "INT", "TEXT", "", "VARCHAR(10)", "NUMERIC(5,2)", "BLOB", "BIGINT", "INTEGER", "INTEGER(8)"]
COLLS = ["nocase", "rtrim", "binary"]


def gen_ast(rnd, i, rich=True):
    name = "t%d" % i
    ncols = rnd.choice([1, 2, 2, 3, 3, 4])
    names = ["a", "b", "c", "d"][:ncols]
    if rnd.random() < 0.12:
        # identifiers SQLite accepts bare: letters beyond ASCII
        names[rnd.randrange(ncols)] = rnd.choice(["é", "ñame", "日本", "aé", "ü_1"])
    elif rnd.random() < 0.14:
        # names that only exist quoted, containing the quote characters themselves (written doubled inside the quotes)
        names[rnd.randrange(ncols)] = rnd.choice(['q"t', "b`t", "c`d", "m`n", 'u"v', 'w"x', "s't", "x y", "k]z", 'd""d', "e``e", "select", "a.b", "(p)"])
    wr = rnd.random() < 0.25
    cols = []
    pk_col = None
    pk_style = rnd.choice(["column", "table", "none"]) if not wr else rnd.choice(["column", "table"])
    if pk_style == "column":
        pk_col = rnd.choice(names)
    for n in names:
        typ = rnd.choice(TYPES)
        cons = []
        if n == pk_col:
            d = rnd.choice([None, None, "asc", "desc"])
            isint = typ.upper() == "INTEGER"
            autoinc = (isint and d != "desc" and not wr and rnd.random() < 0.3)
            cons.append({"k": "pk", "desc": d == "desc", "dir": d, "autoinc": autoinc})
        if rnd.random() < 0.3:
            cons.append({"k": "unique"})
        if rnd.random() < 0.35:
            cons.append({"k": "collate", "c": rnd.choice(COLLS)})
        if rnd.random() < 0.2:
            cons.append({"k": "notnull"})
        if rnd.random() < 0.08:
            cons.append({"k": "null"})
        if rnd.random() < 0.2:
            cons.append({"k": "default", "v": rnd.choice(["5", "-3", "'x'", "NULL", "1.5", "+2", "''", "''", "'it''s'", "x''"])})
        if rich and rnd.random() < 0.12 and (n.isalnum() or not n.isascii()) and n != "select":
            cons.append({"k": "check", "e": "%s > 0" % n})
        if rich and rnd.random() < 0.08:
            cons.append({"k": "references", "t": "other", "c": "x"})
        if rnd.random() < 0.15 and not any(c["k"] == "unique" for c in cons):
            cons.append({"k": "unique"})
        rnd.shuffle(cons)
        if not n.isascii() and n != pk_col and rnd.random() < 0.6:
            typ, cons = "", []           # a bare non-ASCII name directly followed by ',' or ')'
        cols.append({"name": n, "type": typ, "isint": typ.upper() == "INTEGER", "cons": cons})
    tcons = []

    def icols(kmin=1):
        k = rnd.randrange(kmin, ncols + 1)
        sel = rnd.sample(names, k)
        return [{"name": n, "coll": rnd.choice(["", "", "", "nocase", "rtrim", "binary"]), "desc": rnd.random() < 0.3} for n in sel]
    if pk_style == "table":
        tcons.append({"k": "pk", "cols": icols()})
    for _ in range(rnd.choice([0, 0, 1, 1, 2])):
        if rnd.random() < 0.5 and (tcons or any(c["k"] in ("unique", "pk") for col in cols for c in col["cons"])):
            # a deliberate near-duplicate of an existing constraint: same columns, other direction / collation / none
            src = None
            if tcons and rnd.random() < 0.5:
                src = [dict(c) for c in rnd.choice(tcons)["cols"]]
            else:
                cand = [col["name"] for col in cols if any(c["k"] in ("unique", "pk") for c in col["cons"])]
                if cand:
                    src = [{"name": rnd.choice(cand), "coll": "", "desc": False}]
            if src:
                for c in src:
                    r = rnd.random()
                    if r < 0.4:
                        c["desc"] = not c["desc"]
                    elif r < 0.7:
                        c["coll"] = rnd.choice(["", "nocase", "rtrim", "binary"])
                tcons.append({"k": "unique", "cols": src})
                continue
        tcons.append({"k": "unique", "cols": icols()})
    rnd.shuffle(tcons)
    idx = []
    for j in range(rnd.choice([0, 1, 1, 2])):
        idx.append({"name": "x%d_%d" % (i, j), "unique": rnd.random() < 0.3, "cols": icols(),
                    "where": ("%s > 0" % names[0]) if rnd.random() < 0.15 else ""})
    return {"name": name, "wr": wr, "cols": cols, "tcons": tcons, "idx": idx}


def tla_ast(ast):
    """the shape Schema.tla reads (no rendering-only fields)"""
    def cons(c):
        if c["k"] == "pk":
            return {"k": "pk", "desc": c["desc"], "autoinc": c["autoinc"]}
        if c["k"] == "collate":
            return {"k": "collate", "c": c["c"]}
        if c["k"] == "default" and c["v"] == "NULL":
            return {"k": "defaultnull"}      # indistinguishable from "no default" in the parser's report (nil)
        if c["k"] == "default":
            # the value the literal denotes, in the parser's own rendering (Go type : value); "?" = not compared
            v = c["v"]
            import re as _re
            if _re.fullmatch(r"[+-]?\d+", v):
                dv = "int64:%d" % int(v)
            elif len(v) >= 2 and v[0] == "'" and v[-1] == "'":
                dv = "string:" + v[1:-1].replace("''", "'")
            else:
                dv = "?"
            return {"k": "default", "dv": dv}
        return {"k": c["k"]}
    return {"name": ast["name"], "wr": ast["wr"],
            "cols": [{"name": c["name"], "isint": c["isint"], "type": c["type"], "cons": [cons(k) for k in c["cons"]]} for c in ast["cols"]],
            "tcons": [{"k": t["k"], "cols": [{"name": c["name"], "coll": c["coll"], "desc": c["desc"]} for c in t["cols"]]} for t in ast["tcons"]],
            "idx": [{"name": x["name"], "unique": x["unique"], "cols": [{"name": c["name"], "coll": c["coll"], "desc": c["desc"]} for c in x["cols"]]}
                    for x in ast["idx"]]}


class Style:
    def __init__(self, rnd):
        self.rnd = rnd
        self.kwcase = rnd.choice(["upper", "lower", "mixed"])
        self.quote = rnd.choice(["bare", "bare", "dq", "br", "bt", "mix"])
        self.named = rnd.random() < 0.25
        # identifiers are case-insensitive (ASCII): every occurrence of a name may be spelled in another case
        self.idcase = rnd.random() < 0.35
        self.ws = rnd.choice([" ", " ", "  ", "\n  ", "\t"])

    def kw(self, s):
        if self.kwcase == "upper":
            return s.upper()
        if self.kwcase == "lower":
            return s.lower()
        return "".join(ch.upper() if self.rnd.random() < 0.5 else ch.lower() for ch in s)

    def ident(self, s):
        if self.idcase:
            s = "".join((ch.upper() if self.rnd.random() < 0.5 else ch.lower()) if ch.isascii() else ch for ch in s)
        q = self.quote if self.quote != "mix" else self.rnd.choice(["bare", "dq", "br", "bt"])
        plain = all(ch.isalnum() or ch == "_" or not ch.isascii() for ch in s) and s.lower() != "select"
        if not plain and q == "bare":
            q = self.rnd.choice(["dq", "bt", "br"])
        if q == "br" and "]" in s:
            q = "dq"
        if q == "dq":
            return '"%s"' % s.replace('"', '""')
        if q == "br":
            return "[%s]" % s
        if q == "bt":
            return "`%s`" % s.replace("`", "``")
        return s


def render_icols(st, cols):
    out = []
    for c in cols:
        s = st.ident(c["name"])
        if c["coll"]:
            s += " " + st.kw("collate") + " " + c["coll"]
        if c["desc"]:
            s += " " + st.kw("desc")
        elif st.rnd.random() < 0.2:
            s += " " + st.kw("asc")
        out.append(s)
    return ", ".join(out)


def render_table(ast, st):
    parts = []
    for c in ast["cols"]:
        s = st.ident(c["name"])
        if c["type"]:
            s += " " + c["type"]
        for k in c["cons"]:
            if k["k"] == "pk":
                s += " " + st.kw("primary key")
                if k.get("dir"):
                    s += " " + st.kw(k["dir"])
                if k["autoinc"]:
                    s += " " + st.kw("autoincrement")
            elif k["k"] == "unique":
                s += " " + st.kw("unique")
            elif k["k"] == "collate":
                s += " " + st.kw("collate") + " " + k["c"]
            elif k["k"] == "notnull":
                s += " " + st.kw("not null")
            elif k["k"] == "null":
                s += " " + st.kw("null")
            elif k["k"] == "default":
                s += " " + st.kw("default") + " " + k["v"]
            elif k["k"] == "check":
                s += " " + st.kw("check") + " (" + k["e"] + ")"
            elif k["k"] == "references":
                s += " " + st.kw("references") + " " + k["t"] + "(" + k["c"] + ")"
        parts.append(s)
    for n, t in enumerate(ast["tcons"]):
        s = ""
        if st.named:
            s += st.kw("constraint") + " cn%d " % n
        s += st.kw("primary key") if t["k"] == "pk" else st.kw("unique")
        s += " (" + render_icols(st, t["cols"]) + ")"
        parts.append(s)
    sql = st.kw("create table") + " " + st.ident(ast["name"]) + " (" + st.ws + ("," + st.ws).join(parts) + st.ws + ")"
    if ast["wr"]:
        sql += " " + st.kw("without rowid")
    return sql


def render_index(ast, x, st):
    sql = st.kw("create") + (" " + st.kw("unique") if x["unique"] else "") + " " + st.kw("index") + " " + st.ident(x["name"]) + \
        " " + st.kw("on") + " " + st.ident(ast["name"]) + " (" + render_icols(st, x["cols"]) + ")"
    if x.get("where"):
        sql += " " + st.kw("where") + " " + x["where"]
    return sql


def sqlite_view(con, ast):
    """what SQLite says, in the shape of Schema.tla's SpecMatchesSqlite"""
    name = ast["name"]
    cols = [c for c in con.execute('PRAGMA table_xinfo("%s")' % name).fetchall() if c[6] == 0]
    pk = [c[1].lower() for c in sorted((c for c in cols if c[5]), key=lambda c: c[5])]
    il = con.execute('PRAGMA index_list("%s")' % name).fetchall()
    idx = []
    for seq, iname, unique, origin, partial in il:
        xi = con.execute('PRAGMA index_xinfo("%s")' % iname).fetchall()
        idx.append({"name": iname.lower(), "pk": origin == "pk",
                    "cols": [{"name": (x[2] or "").lower(), "coll": x[4].lower(), "desc": bool(x[3])} for x in xi if x[5]]})

    def order(i):
        n = i["name"]
        if n.startswith("sqlite_autoindex_"):
            return (0, int(n.rsplit("_", 1)[1]))
        return (1, [x["name"] for x in ast["idx"]].index(n) if n in [x["name"] for x in ast["idx"]] else 99)
    idx.sort(key=order)
    alias = ""
    if not ast["wr"] and len(pk) == 1 and not any(i["pk"] for i in idx):
        alias = pk[0]
    return {"alias": alias, "pk": pk, "indexes": idx}

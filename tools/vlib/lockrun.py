"""Schedules on real processes for C06/C07 and their validation by TraceLocks.tla."""
import json, os, random, shutil, sqlite3
from . import common, procs, gen
from .common import Infra

PROCS_ALL = ["p1", "p2", "p3", "w1", "w2", "f1"]
LAYOUT = {"sep": {"h1": "p1", "h2": "p2", "h3": "p3"}, "same": {"h1": "p1", "h2": "p1", "h3": "p2"}}


def make_db(path):
    con = gen.connect(path, 1024)
    con.execute("CREATE TABLE meta(k INTEGER PRIMARY KEY, v)")
    con.execute("INSERT INTO meta VALUES(1, 0)")
    con.execute("CREATE TABLE t(id INTEGER PRIMARY KEY, a, b TEXT)")
    con.execute("CREATE INDEX ta ON t(a)")
    con.execute("CREATE TABLE w(k TEXT PRIMARY KEY, v) WITHOUT ROWID")
    con.execute("BEGIN")
    for i in range(40):
        con.execute("INSERT INTO t VALUES(?,?,?)", (i + 1, i % 7, "row %d " % i + "x" * 60))
        con.execute("INSERT INTO w VALUES(?,?)", ("k%02d" % i, i))
    con.execute("COMMIT")
    con.close()


class Runner:
    """Executes one schedule; records one event per observable step with the kernel lock table."""

    def __init__(self, harness, db, layout):
        self.harness, self.db, self.layout = harness, db, layout
        self.agents, self.writers = {}, {}
        self.events = []
        self.fver = 0            # transactions committed so far (all writers)
        self.parked = {}         # handle -> last reply while at a gate
        self.results = {}
        self._marker = {}
        self.failed_open = set()

    def pids(self):
        m = {a.pid: name for name, a in self.agents.items()}
        m.update({w.pid: name for name, w in self.writers.items()})
        m.update({p.pid: name for name, p in getattr(self, "foreign", {}).items()})
        return m

    def foreign_lock(self, w):
        """a process that is not SQLite takes a write lock on the shared byte range only (no PENDING byte)"""
        import subprocess
        code = ("import fcntl, os, sys\nfd = os.open(sys.argv[1], os.O_RDWR)\n"
                "fcntl.lockf(fd, fcntl.LOCK_EX | fcntl.LOCK_NB, 510, 0x40000000 + 2, 0)\nprint('ok', flush=True)\nsys.stdin.readline()\n")
        p = subprocess.Popen([common.PYTHON, "-c", code, self.db], stdin=subprocess.PIPE, stdout=subprocess.PIPE, stderr=subprocess.DEVNULL)
        if p.stdout.readline().strip() != b"ok":
            raise Infra("the foreign locker could not lock the shared range")
        if not hasattr(self, "foreign"):
            self.foreign = {}
        self.foreign[w] = p
        self.emit(w, "f_lock")

    def foreign_unlock(self, w):
        p = self.foreign.pop(w)
        try:
            p.stdin.close()
            p.wait(timeout=10)
        except Exception:
            p.kill()
        self.emit(w, "f_unlock")

    def table(self):
        t = procs.region_table(procs.proc_locks(self.db), self.pids())
        for p in PROCS_ALL:
            t.setdefault(p, {"pend": "N", "resv": "N", "shrd": "N"})
        return t

    def emit(self, who, ev, **kw):
        e = {"who": who, "ev": ev, "table": self.table(), "fver": self.fver}
        e.update(kw)
        self.events.append(e)
        return e

    def agent(self, h):
        p = LAYOUT[self.layout][h]
        if p not in self.agents:
            self.agents[p] = procs.GoAgent(self.harness, p)
        return self.agents[p]

    def writer(self, w):
        if w not in self.writers:
            # writer_uri: query string for the SQLite connections of this run (e.g. "psow=0")
            q = getattr(self, "writer_uri", "")
            self.writers[w] = procs.SqlWriter(("file:%s?%s" % (self.db, q)) if q else self.db, w)
        return self.writers[w]

    # ---- handle steps
    def open(self, h):
        r = self.agent(h).call(cmd="open", h=h, db=self.db)
        if not r.get("ok"):
            # Locks.tla has no failing Open: the recorded schedule will not be explained (a violation, not an infra error)
            self.emit(h, "open_err", error=str(r.get("error"))[:80])
            self.failed_open.add(h)
            return False
        self.emit(h, "open")
        return True

    def close(self, h):
        if h in self.failed_open:
            return
        self.agent(h).call(cmd="close", h=h)
        self.emit(h, "close")

    def _observe(self, h, r):
        if r.get("error"):
            raise Infra("agent error: %r" % r)
        if r["state"] == "gate":
            k = r["ev"][0]
            self.parked[h] = r
            if k == "L":
                self.emit(h, "rlock_ok")
            elif k == "l":
                pass                      # reported with the final result
            elif k in ("P", "p"):
                self.emit(h, "page")
            elif k == "C":
                self.emit(h, "cb")
            elif k == "U":
                self.emit(h, "runlock")
            return k
        self.parked.pop(h, None)
        res = r["res"]
        self.results[h] = res
        evs = [e[0] for e in res.get("events") or []]
        extra = {}
        if res.get("op") == "select" and res.get("rows") and self._marker.get(h):
            extra["seen"] = int(res["rows"][0][1][1])
        exp = getattr(self, "_expect", {}).pop(h, None)
        if exp is not None and not res.get("err") and not res.get("panic"):
            # the content the operation delivered: the committed one (the version count) or something else (-2, what the
            # specification calls a read during a write)
            extra["seen"] = self.fver if (res.get("rows") or []) == exp else -2
        if "l" in evs and "L" not in evs:
            nrows = int(res.get("n") or 0) + len(res.get("rows") or [])
            self.emit(h, "rlock_err", rows=nrows, haserr=bool(res.get("err")), reads=sum(1 for x in evs if x in ("P", "p")))
        else:
            self.emit(h, "done", **extra)
        return "done"

    def start(self, h, op, gate_on=None, expect=None):
        """expect: the committed rows (as the harness encodes them) this operation must deliver if it delivers any"""
        if h in self.failed_open:
            return "done"
        if not hasattr(self, "_expect"):
            self._expect = {}
        if expect is not None:
            self._expect[h] = expect
        self._marker[h] = op.get("table") == "meta"
        try:
            r = self.agent(h).call(_timeout=20, cmd="start", h=h, gate=True, gate_on=gate_on or [], op=dict(op, id=1))
        except procs.Blocked:
            return self._blocked(h)
        return self._observe(h, r)

    def _blocked(self, h):
        """the operation neither returned nor reached its next event within 20 s (e.g. it waits for a lock instead of being
        refused): recorded as an event the specification has no action for; the agent is killed"""
        self.emit(h, "blocked")
        self.parked.pop(h, None)
        p = LAYOUT[self.layout][h]
        a = self.agents.pop(p, None)
        if a is not None:
            a.kill()
        self.failed_open.add(h)
        self.results[h] = {"err": "blocked", "rows": [], "n": 0}
        return "done"

    def step(self, h):
        if h not in self.parked:
            return "done"
        try:
            return self._observe(h, self.agent(h).call(_timeout=20, cmd="step", h=h))
        except procs.Blocked:
            return self._blocked(h)

    def finish(self, h, limit=2000):
        k = None
        for _ in range(limit):
            if h not in self.parked:
                return "done"
            k = self.step(h)
        raise Infra("operation did not finish within %d steps" % limit)

    def run_until(self, h, kinds, limit=500):
        """step until parked at an event of one of the kinds (or done)"""
        for _ in range(limit):
            k = self.step(h)
            if k == "done" or k in kinds:
                return k
        raise Infra("gate not reached")

    # ---- writer steps
    def sql(self, w, sql, commits=False):
        r = self.writer(w).sql(sql)
        if r.get("ok") and commits:
            self.fver += 1
        self.emit(w, "w_rest", ok=bool(r.get("ok")), busy=bool(r.get("busy")), sql=sql[:40])
        return r

    def kill(self, w):
        """the writer process dies (SIGKILL) in whatever state it is: its locks are gone, a journal may stay behind"""
        self.writer(w).kill()
        self.emit(w, "w_rest", ok=False, busy=False, sql="(killed)")

    def cursor(self, w, open_=True):
        r = self.writer(w).call(cmd="open_cursor" if open_ else "close_cursor", sql="SELECT * FROM t")
        self.emit(w, "w_rest", ok=bool(r.get("ok")), busy=bool(r.get("busy")), sql="cursor")
        return r

    def shutdown(self):
        for h in list(self.parked):
            try:
                self.finish(h)
            except Exception:
                pass
        for a in list(self.agents.values()) + list(self.writers.values()):
            a.close()
        for p in list(getattr(self, "foreign", {}).values()):
            p.kill()


def validate(v, schedules, layout, tag, module="TraceLocks", cfg=None, fname="locks.ndjson", reset=None):
    """schedules: list of (name, events).  One TLC run over the concatenation; on rejection the offending
    schedule is identified from the high-water mark and the rest is validated again."""
    cfg = cfg or ("TraceLocks_%s.cfg" % layout)
    results = {}
    todo = list(schedules)
    d = common.sub("locks-" + tag)
    rounds = 0
    while todo:
        rounds += 1
        lines, owner = [], []
        for name, evs in todo:
            if reset is None:
                lines.append({"who": "h1", "ev": "reset", "table": {}, "fver": 0})
                owner.append(name)
            for e in evs:
                lines.append(e)
                owner.append(name)
        f = os.path.join(d, "locks-%d.ndjson" % rounds)
        common.write_ndjson(f, lines)
        r = common.tlc(module, cfg=cfg, files={f: fname}, workers=1, timeout=1200,
                       name="locks-%s-%d" % (tag, rounds), heap="8g")
        v.add_tlc(r)
        vp = os.path.join(r.workdir, "verdict.json")
        if os.path.exists(vp):
            verdict = json.load(open(vp))
            for name, _ in todo:
                results.setdefault(name, {"accepted": True, "viol": []})
            for x in verdict.get("viol", []):
                results[owner[x["i"] - 1]]["viol"].append({"line": lines[x["i"] - 1], "why": sorted(x["why"])})
            break
        import re
        m = re.search(r'"HIGHWATER", (\d+)', r.out)
        if not m or not (r.ok or "HIGHWATER" in r.out):
            raise Infra("TraceLocks failed:\n" + (r.error or r.out)[-3000:])
        hw = int(m.group(1))
        bad = owner[min(hw, len(owner)) - 1]
        results[bad] = {"accepted": False, "viol": [], "stuck_at": lines[min(hw, len(lines)) - 1]}
        # everything before the rejected schedule was explained; validate the rest separately
        names = [n for n, _ in todo]
        k = names.index(bad)
        for n in names[:k]:
            results.setdefault(n, {"accepted": True, "viol": [], "unverified_viol": True})
        first = todo[:k]
        if first:
            # re-validate the accepted prefix alone to collect its observed violations
            sub = validate(v, first, layout, tag + "-pre%d" % rounds, module=module, cfg=cfg, fname=fname, reset=reset)
            results.update(sub)
        todo = todo[k + 1:]
        if rounds > 12:
            # (nearly) every schedule is rejected: the remaining ones are reported as rejected without locating the line
            for n, evs in todo:
                results.setdefault(n, {"accepted": False, "viol": [], "stuck_at": {"note": "not analysed individually"}})
            break
    return results

#!/usr/bin/python3
"""Import and confirm seeded changes (mutations made by independent sub-agents).

  seeded.py import <ID> <variant> <srcdir>   copy patch.diff, demo, meta.json to /verif/seeded/<ID><variant>/
  seeded.py confirm [<name> ...]            in a scratch worktree of /repo HEAD: patch applies, builds (both tags),
                                            existing tests pass (only db TestIOZero may fail), demo fails with the
                                            patch and passes without; result recorded in meta.json
  seeded.py run [<name> ...] [--tier quick] apply each patch to /repo, run the owning check, undo; record which
                                            checks caught it in seeded/RESULTS.json
"""
import json, os, shutil, subprocess, sys, tempfile, time

VERIF = os.path.dirname(os.path.dirname(os.path.abspath(__file__)))
SEEDED = os.path.join(VERIF, "seeded")
ENV = dict(os.environ, GOFLAGS="-mod=mod", GOPROXY="off", GOSUMDB="off", GOTOOLCHAIN="local")


def sh(cmd, cwd=None, timeout=900):
    p = subprocess.run(cmd, cwd=cwd, env=ENV, shell=isinstance(cmd, str), stdout=subprocess.PIPE,
                       stderr=subprocess.STDOUT, timeout=timeout)
    return p.returncode, p.stdout.decode("utf-8", "replace")


def names(args):
    if args:
        return args
    return sorted(d for d in os.listdir(SEEDED) if os.path.isfile(os.path.join(SEEDED, d, "patch.diff")))


def do_import(pid, variant, src):
    dst = os.path.join(SEEDED, pid + variant)
    if os.path.exists(dst):
        shutil.rmtree(dst)
    shutil.copytree(src, dst)
    print("imported", dst)


def tests_ok(wt):
    rc, out = sh("go test -mod=mod -vet=off -count=1 ./... 2>&1", cwd=wt, timeout=1500)
    fails = [l for l in out.splitlines() if l.startswith("--- FAIL")]
    bad = [l for l in fails if "TestIOZero" not in l]
    build_fail = "[build failed]" in out or "cannot" in out and "FAIL" in out and not fails
    return (not bad) and not build_fail, fails


def confirm(name):
    d = os.path.join(SEEDED, name)
    meta_p = os.path.join(d, "meta.json")
    meta = json.load(open(meta_p)) if os.path.exists(meta_p) else {}
    wt = tempfile.mkdtemp(prefix="seedwt-")
    os.rmdir(wt)
    res = {}
    try:
        rc, out = sh(["git", "-C", "/repo", "worktree", "add", "-q", "--detach", wt, "HEAD"])
        if rc != 0:
            raise RuntimeError(out)
        rc, out = sh(["bash", os.path.join(d, "run_demo.sh"), wt], timeout=600)
        res["demo_passes_without"] = rc == 0
        sh(["git", "-C", wt, "checkout", "--", "."]); sh(["git", "-C", wt, "clean", "-fdq"])
        rc, out = sh(["git", "-C", wt, "apply", os.path.join(d, "patch.diff")])
        res["applies"] = rc == 0
        if rc == 0:
            rc1, o1 = sh("go build ./... && go build -tags verif ./...", cwd=wt)
            res["builds"] = rc1 == 0
            ok, fails = tests_ok(wt)
            res["existing_tests_pass"] = ok
            res["test_failures"] = fails
            rc, out = sh(["bash", os.path.join(d, "run_demo.sh"), wt], timeout=600)
            res["demo_fails_with_patch"] = rc != 0
            res["demo_output_tail"] = out[-600:]
        res["confirmed"] = bool(res.get("applies") and res.get("builds") and res.get("existing_tests_pass")
                                and res.get("demo_fails_with_patch") and res.get("demo_passes_without"))
    finally:
        sh(["git", "-C", "/repo", "worktree", "remove", "--force", wt])
        shutil.rmtree(wt, ignore_errors=True)
    meta["confirmation"] = dict(res, at=time.strftime("%Y-%m-%d %H:%M:%S"), repo_head=sh(["git", "-C", "/repo", "rev-parse", "--short", "HEAD"])[1].strip())
    json.dump(meta, open(meta_p, "w"), indent=1)
    print(name, "CONFIRMED" if res.get("confirmed") else "NOT CONFIRMED", {k: v for k, v in res.items() if k not in ("demo_output_tail", "test_failures")})
    return res.get("confirmed")


def run_checks(name, tier, props=None):
    d = os.path.join(SEEDED, name)
    pid = name[:3]
    props = props or [pid]
    rc, out = sh(["git", "-C", "/repo", "status", "--porcelain"])
    if out.strip():
        print("refusing: /repo working tree is not clean"); sys.exit(2)
    rc, out = sh(["git", "-C", "/repo", "apply", os.path.join(d, "patch.diff")])
    if rc != 0:
        print(name, "patch does not apply:", out[-300:]); return None
    result = {}
    try:
        for p in props:
            t0 = time.time()
            rc, out = sh([os.path.join(VERIF, "tools", "check"), p, "--tier", tier], cwd=VERIF, timeout=7200)
            viol = [l for l in out.splitlines() if l.startswith("VIOLATION")]
            result[p] = {"rc": rc, "violations": len(viol), "first": viol[:1], "wall_s": round(time.time() - t0, 1),
                         "tail": out[-400:] if rc not in (0, 1) else ""}
            print(name, p, "rc=%d" % rc, "CAUGHT" if rc == 1 and viol else "MISSED" if rc == 0 else "INFRA", viol[:1])
    finally:
        sh(["git", "-C", "/repo", "checkout", "--", "."])
        sh(["git", "-C", "/repo", "clean", "-fdq", "--", "."])
    rp = os.path.join(SEEDED, "RESULTS.json")
    allr = json.load(open(rp)) if os.path.exists(rp) else {}
    allr.setdefault(name, {}).update({("%s:%s" % (p, tier)): r for p, r in result.items()})
    json.dump(allr, open(rp, "w"), indent=1, sort_keys=True)
    return result


def table():
    """markdown table for DESIGN.md: every seeded change, what it is, which check caught it and with what"""
    allr = json.load(open(os.path.join(SEEDED, "RESULTS.json")))
    notes = json.load(open(os.path.join(SEEDED, "NOTES.json")))
    rows = ["| change | what was changed (summary of the author's meta.json) | quick check | first replay file | note |", "|---|---|---|---|---|"]
    for name in sorted(n for n in os.listdir(SEEDED) if os.path.isdir(os.path.join(SEEDED, n))):
        meta = json.load(open(os.path.join(SEEDED, name, "meta.json")))
        summ = " ".join(meta.get("summary", "").split())
        summ = (summ[:230] + "...") if len(summ) > 230 else summ
        summ = summ.replace("|", "\\|")
        res = allr.get(name, {})
        cells = []
        first = ""
        for k in sorted(res):
            r = res[k]
            st = "caught" if r["rc"] == 1 and r["violations"] else "missed" if r["rc"] == 0 else "infra"
            cells.append("%s: %s (%d violations, %ss)" % (k, st, r["violations"], r["wall_s"]))
            if r.get("first") and not first:
                first = os.path.basename(r["first"][0].split("replay=")[-1])
        if str(meta.get("status", "")).startswith("obsolete"):
            cells = ["obsolete"]
        rows.append("| %s | %s | %s | %s | %s |" % (name, summ, "; ".join(cells), first, notes.get(name, "")))
    return "\n".join(rows)


def main():
    a = sys.argv[1:]
    if not a:
        print(__doc__); return 2
    if a[0] == "import":
        do_import(a[1], a[2], a[3])
    elif a[0] == "confirm":
        for n in names(a[1:]):
            confirm(n)
    elif a[0] == "table":
        print(table())
    elif a[0] == "run":
        tier = "quick"
        props = None
        rest = []
        i = 1
        while i < len(a):
            if a[i] == "--tier":
                tier = a[i + 1]; i += 2
            elif a[i] == "--props":
                props = a[i + 1].split(","); i += 2
            else:
                rest.append(a[i]); i += 1
        for n in names(rest):
            run_checks(n, tier, props)
    return 0


if __name__ == "__main__":
    sys.exit(main())

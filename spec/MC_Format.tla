------------------------------ MODULE MC_Format ------------------------------
(***************************************************************************)
(* Exhaustive check of the algebra of Format.tla:                          *)
(*  - the local/overflow split for every legal usable size U, every        *)
(*    payload length 0..3U for U = 512 and the neighbourhood of every      *)
(*    threshold for the other sizes, table and index cells;                *)
(*  - Decode(Encode(v)) = v and the encoded length for varints of every    *)
(*    bit length 0..64 (three bit patterns each), with and without         *)
(*    trailing garbage; truncated varints are reported as such.            *)
(***************************************************************************)
EXTENDS Format, TLC

Around(c) == (c - 3)..(c + 3)

PSet(U, idx) ==
    IF U = 512 THEN 0..(3 * U)
    ELSE {p \in UNION {Around(MaxLocal(U, idx)), Around(MinLocal(U)), Around(MaxLocal(U, idx) + (U - 4)),
                       Around(MaxLocal(U, idx) + 2 * (U - 4)), Around(MinLocal(U) + (U - 4)),
                       Around(U), Around(2 * U), 0..3} : p >= 0}

Patterns(n) ==
    IF n = 0 THEN {<<>>}
    ELSE {[i \in 1..n |-> 1], [i \in 1..n |-> IF i = 1 THEN 1 ELSE 0], [i \in 1..n |-> IF i % 2 = 1 THEN 1 ELSE 0]}

VARIABLES mode, U, P, idx, bits
vars == <<mode, U, P, idx, bits>>

Init ==
    \/ /\ mode = "split" /\ U \in PageSizes /\ idx \in BOOLEAN /\ P \in PSet(U, idx) /\ bits = <<>>
    \/ /\ mode = "varint" /\ U = 0 /\ P = 0 /\ idx = FALSE
       /\ \E n \in 0..64 : bits \in Patterns(n)
Next == UNCHANGED vars
Spec == Init /\ [][Next]_vars

SplitInv == mode = "split" => SplitOK(U, P, idx)

VarintInv ==
    mode = "varint" =>
        LET enc == VarintEncode(bits)
            dec == VarintDecode(enc)
            ext == VarintDecode(enc \o <<255, 0>>)
        IN  /\ Len(enc) = VarintLen(bits)
            /\ dec = [n |-> Len(enc), bits |-> bits]
            /\ ext = dec                         \* bytes after the varint are not consumed
            /\ Len(enc) > 1 => VarintDecode(SubSeq(enc, 1, Len(enc) - 1)).n = -1   \* truncated
=============================================================================

---------------------------- MODULE TraceRowScan ----------------------------
(***************************************************************************)
(* Trace validation for C18.  scan.ndjson, one line per call of the real   *)
(* Row.Scan:                                                               *)
(*  ev = "conv": kinds (abstract kind of every stored value of the row),   *)
(*       dests (abstract destination of every argument), err, panic,       *)
(*       row_unchanged, got / expect (canonical text of every destination  *)
(*       after the call / of the documented conversion, "-" = left to Go), *)
(*       zero (the destination holds its zero value)                       *)
(*  ev = "life": observations of one lifetime history on a real file:      *)
(*       scan into []byte and string, overwrite the scanned slice, re-read *)
(*       through the warm cache and a fresh handle, close, overwrite file  *)
(***************************************************************************)
EXTENDS RowScan, Json, TLC

Trace == ndJsonDeserialize("scan.ndjson")

VARIABLES l, bad
tvars == <<l, bad, lvars>>

KindAt(e, i) == IF i <= Len(e.kinds) THEN e.kinds[i] ELSE "missing"

ConvOK(e) ==
    LET fe  == FirstError(e.kinds, e.dests, 1)
        upto == IF fe = 0 THEN Len(e.dests) ELSE fe - 1
    IN  /\ ~e.panic
        /\ e.row_unchanged
        /\ e.err = (fe # 0)
        /\ \A i \in 1..upto :
              LET oc == Outcome(KindAt(e, i), e.dests[i])
              IN  /\ oc = "zero" => e.zero[i]
                  /\ (oc = "value" /\ e.expect[i] # "-") => e.got[i] = e.expect[i]

LifeOK(e) ==
    /\ ~e.panic
    /\ e.reread_same_handle /\ e.reread_fresh_handle        \* ReadsSeeFile: mutating a scanned slice changes no later read
    /\ e.all_rows_after_mutate                              \* ... of ANY row or column (the slice's whole capacity is the caller's)
    /\ e.string_after_mutate /\ e.other_slice_after_mutate  \* Independent: scanned values do not share memory
    /\ e.after_close /\ e.after_overwrite                   \* ... and outlive the transaction, the handle and the file
    /\ e.kept_after_rescan                                   \* ... and a later Scan into the same variable

TInit == l = 1 /\ bad = <<>> /\ LInit
Step ==
    /\ l <= Len(Trace)
    /\ LET e == Trace[l]
           ok == IF e.ev = "conv" THEN ConvOK(e) ELSE LifeOK(e)
       IN  bad' = IF ok THEN bad ELSE Append(bad, l)
    /\ l' = l + 1
    /\ UNCHANGED lvars
TSpec == TInit /\ [][Step]_tvars
VerdictWritten == l = Len(Trace) + 1 => JsonSerialize("verdict.json", [n |-> Len(Trace), bad |-> bad])
=============================================================================

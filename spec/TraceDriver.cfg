SPECIFICATION TSpec
CONSTANTS
  MaxN = 0
INVARIANT Track
POSTCONDITION Post
CHECK_DEADLOCK FALSE

----------------------------- MODULE TraceLocks -----------------------------
(***************************************************************************)
(* Trace validation for C06 / C07: schedules executed by REAL processes -- *)
(* Go agents holding sqlittle handles (stopped at every lock / page /      *)
(* callback event), real SQLite connections (python sqlite3) walking their *)
(* lock ladder -- with the kernel's own lock table (/proc/locks) recorded  *)
(* after every step.                                                       *)
(*                                                                         *)
(* locks.ndjson, one line per observed step:                               *)
(*   who    the handle or writer that acted                                *)
(*   ev     "reset" | "open" | "rlock_ok" | "rlock_err" | "page" | "cb" |  *)
(*          "runlock" | "done" | "close" | "w_rest"                        *)
(*   table  [process -> [pend, resv, shrd]] as the kernel reports it       *)
(*   fver   (w_rest) transactions this writer has committed so far         *)
(*                                                                         *)
(* The individual fcntl calls inside RLock, Open and SQLite's transitions  *)
(* are not observable from outside: they are SILENT steps of Locks.tla     *)
(* taken by the actor of the next line.  A trace is accepted iff some      *)
(* interleaving of silent steps explains every line, i.e. the kernel table *)
(* recorded after every step is exactly the one the specification has.     *)
(* Separately, the properties are evaluated on the RECORDED tables.        *)
(***************************************************************************)
EXTENDS Locks, Json

Trace == ndJsonDeserialize("locks.ndjson")

VARIABLES l, viol, wdone,
          att        \* att[h]: the operation of handle h that is under way has made its lock attempt (a refusal reported
                     \* for an operation must be the outcome of ITS attempt, not the one remembered from an earlier operation)
tvars == <<vars, l, viol, wdone, att>>
tview == <<lk, fds, hpc, belief, hres, hseen, wst, wpc, fver, writing, l, viol, wdone, att>>

TraceProcSep  == [h \in Handles |-> CASE h = "h1" -> "p1" [] h = "h2" -> "p2" [] OTHER -> "p3"]
TraceProcSame == [h \in Handles |-> CASE h = "h1" -> "p1" [] h = "h2" -> "p1" [] OTHER -> "p2"]

HProcs == {ProcOf[h] : h \in Handles}

TableMatches(e) == \A p \in Procs : \A r \in Regions : lk[p][r] = e.table[p][r]

Actor == Trace[l].who

\* unobservable steps of the acting handle / connection
Silent ==
    /\ l <= Len(Trace)
    /\ Trace[l].ev # "reset"
    /\ \/ /\ Actor \in Handles
          /\ \/ (LockPendingR(Actor) /\ ~att[Actor] /\ att' = [att EXCEPT ![Actor] = TRUE])
             \/ /\ OsOpen(Actor) \/ LockSharedR(Actor) \/ UnlockPending(Actor) \/ CallbackExit(Actor)
                   \/ PageRead(Actor)        \* page reads are not always recorded one by one
                /\ UNCHANGED att
       \/ /\ Actor \in Writers
          /\ UNCHANGED att
          /\ WPendR(Actor) \/ WShrdR(Actor) \/ WUnpend(Actor) \/ WReserve(Actor) \/ WPendW(Actor)
             \/ WExclusive(Actor) \/ WWrite(Actor) \/ WCommit(Actor) \/ WRollback(Actor) \/ WUnlock(Actor)
          /\ fver' <= Trace[l].fver          \* no more commits than the connection reported
    /\ UNCHANGED <<l, viol, wdone>>

\* C06 evaluated on what the kernel reported at this line
ObservedViolations(e) ==
    LET p == IF e.who \in Handles THEN ProcOf[e.who] ELSE e.who
    IN  (IF e.ev \in {"rlock_ok", "page", "cb"} /\ e.table[p]["shrd"] # "R" THEN {"shared-lock-not-held"} ELSE {})
        \cup (IF e.ev \in {"done", "rlock_err"}
                 /\ (\A h \in Handles : (ProcOf[h] = p /\ h # e.who) => hpc[h] \in {"closed", "idle"})
                 /\ (e.table[p]["shrd"] # "N" \/ e.table[p]["pend"] # "N") THEN {"lock-not-released"} ELSE {})
        \cup (IF e.ev \in {"page", "cb"} /\ \E w \in Writers : e.table[w]["shrd"] = "W" THEN {"writer-exclusive-during-read"} ELSE {})

Consume ==
    /\ l <= Len(Trace)
    /\ Trace[l].ev # "reset"
    /\ LET e == Trace[l]
       IN  /\ CASE e.ev = "open"      -> MmapOpenClosesSecondFd(e.who)
                [] e.ev = "rlock_ok"  -> hpc[e.who] = "locked" /\ hres[e.who] = "ok" /\ UNCHANGED vars
                \* C07: a refused lock means an error and no rows -- and nothing was read without the lock
                [] e.ev = "rlock_err" -> /\ hpc[e.who] = "idle" /\ hres[e.who] = "err" /\ att[e.who] /\ UNCHANGED vars
                                         /\ e.rows = 0 /\ e.haserr /\ e.reads = 0
                [] e.ev = "page"      -> PageRead(e.who)
                [] e.ev = "cb"        -> CallbackEnter(e.who)
                [] e.ev = "runlock"   -> RUnlock(e.who)
                [] e.ev = "done"      -> /\ hpc[e.who] = "idle" /\ UNCHANGED vars
                                         \* what the operation read is the version committed when it took the lock
                                         /\ ("seen" \in DOMAIN e) => hseen[e.who] = e.seen
                [] e.ev = "close"     -> Close(e.who)
                \* a process that is not SQLite write-locks the shared range directly (Locks.tla: FLock / FUnlock)
                [] e.ev = "f_lock"    -> FLock(e.who, "shrd")
                [] e.ev = "f_unlock"  -> FUnlock(e.who, "shrd")
                [] e.ev = "w_rest"    -> wpc[e.who] \in {"idle"} /\ fver = e.fver /\ UNCHANGED vars
                [] OTHER -> FALSE
           /\ att' = IF e.ev \in {"done", "rlock_err"} THEN [att EXCEPT ![e.who] = FALSE] ELSE att
           /\ e.ev = "w_rest" => wdone' = [wdone EXCEPT ![e.who] = e.fver]
           /\ e.ev # "w_rest" => UNCHANGED wdone
           /\ viol' = IF ObservedViolations(e) = {} THEN viol
                      ELSE Append(viol, [i |-> l, why |-> ObservedViolations(e)])
    /\ l' = l + 1
    \* the kernel's table after the step is the specification's table
    /\ \A p \in Procs : \A r \in Regions : lk'[p][r] = Trace[l].table[p][r]

\* a new schedule starts from scratch (many schedules are validated in one TLC run)
Reset ==
    /\ l <= Len(Trace) /\ Trace[l].ev = "reset"
    /\ lk' = [p \in Procs |-> NoLocks]
    /\ fds' = [p \in Procs |-> IF p \in Writers THEN 1 ELSE 0]
    /\ hpc' = [h \in Handles |-> "closed"]
    /\ belief' = [h \in Handles |-> FALSE]
    /\ hres' = [h \in Handles |-> "-"]
    /\ hseen' = [h \in Handles |-> -1]
    /\ nops' = [h \in Handles |-> 0]
    /\ wst' = [w \in Writers |-> "UNLOCKED"]
    /\ wpc' = [w \in Writers |-> "idle"]
    /\ fver' = 0 /\ writing' = FALSE /\ last' = <<"Reset">>
    /\ wdone' = [w \in Writers |-> 0]
    /\ att' = [h \in Handles |-> FALSE]
    /\ l' = l + 1 /\ UNCHANGED viol

TInit == Init /\ l = 1 /\ viol = <<>> /\ wdone = [w \in Writers |-> 0] /\ att = [h \in Handles |-> FALSE]
TNext == Silent \/ Consume \/ Reset
TSpec == TInit /\ [][TNext]_tvars

\* longest prefix any interleaving explains (register 1), and the observed violations on that path
Track ==
    /\ TLCSet(1, IF l > TLCGet(1) THEN l ELSE TLCGet(1))
    /\ l = Len(Trace) + 1 => JsonSerialize("verdict.json", [accepted |-> TRUE, n |-> Len(Trace), viol |-> viol])

ASSUME TLCSet(1, 0)
Post == PrintT(<<"HIGHWATER", TLCGet(1)>>)
=============================================================================

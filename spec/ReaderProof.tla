----------------------------- MODULE ReaderProof -----------------------------
(***************************************************************************)
(* Unbounded safety of the long-lived handle of Reader.tla (C08), proved   *)
(* with TLAPS: for a file of ANY size, ANY number of commits of the five   *)
(* kinds between reads, and ANY cache limit, a transaction only consumes   *)
(* pages and a schema that carry the latest committed version (Freshness), *)
(* and -- with the descriptor fallback of the repaired pager -- never      *)
(* fails on a valid file (NoFalseError).  TLC checks the same on files of  *)
(* at most 4 pages and 3 commits.                                          *)
(*                                                                         *)
(* The heart of the argument is ValidWhileCounter: the page cache is       *)
(* current AS LONG AS the change counter the handle remembers equals the   *)
(* file's; every commit moves the file's counter, the remembered one never *)
(* runs ahead, and ResolveDirty drops the cache exactly when they differ.  *)
(* The same for the schema cache and the schema cookie.                    *)
(***************************************************************************)
EXTENDS Reader, TLAPS

ASSUME ConstOK == MaxPages \in Nat /\ MaxVer \in Nat /\ CacheLimit \in Nat /\ MapFallback = TRUE

TypeInv ==
    /\ fsize \in 1..MaxPages /\ mapSize \in 1..MaxPages
    /\ fver \in [Pages -> Nat] /\ fcc \in Nat /\ fcookie \in Nat /\ fschema \in Nat
    /\ locked \in BOOLEAN /\ dirty \in BOOLEAN /\ failed \in BOOLEAN /\ hset = TRUE
    /\ hcc \in Nat /\ hcookie \in Nat
    /\ DOMAIN bcache \subseteq Pages
    /\ ocache \in Nat \cup {NoSchema} /\ usedSchema \in Nat \cup {NoSchema}

IndInv ==
    /\ TypeInv
    /\ hcc <= fcc /\ hcookie <= fcookie                              \* the handle never runs ahead of the file
    /\ hcc = fcc => \A p \in DOMAIN bcache : bcache[p] = fver[p]      \* ValidWhileCounter
    /\ hcookie = fcookie => (ocache = NoSchema \/ ocache = fschema)
    /\ (locked /\ ~dirty) => (hcc = fcc /\ hcookie = fcookie)
    /\ locked => \A u \in used : u[1] \in Pages /\ u[2] = fver[u[1]]
    /\ locked => (usedSchema = NoSchema \/ usedSchema = fschema)
    /\ ~failed

Safety == Freshness /\ NoFalseError /\ HeaderCurrent /\ CacheCurrent

THEOREM InitOK == Init => IndInv
BY ConstOK DEF Init, IndInv, TypeInv, Pages, NoSchema

THEOREM SafetyFromInv == IndInv => Safety
BY ConstOK DEF IndInv, TypeInv, Safety, Freshness, NoFalseError, HeaderCurrent, CacheCurrent, NoSchema, Pages

THEOREM StepOK == IndInv /\ [Next]_vars => IndInv'
<1> SUFFICES ASSUME IndInv, [Next]_vars PROVE IndInv' OBVIOUS
<1> USE ConstOK
<1>1. CASE RLock BY <1>1 DEF RLock, IndInv, TypeInv, NoSchema, Pages
<1>2. CASE ResolveDirty BY <1>2 DEF ResolveDirty, IndInv, TypeInv, NoSchema, Pages
<1>3. CASE Master BY <1>3 DEF Master, IndInv, TypeInv, NoSchema, Pages
<1>4. CASE RUnlock BY <1>4 DEF RUnlock, IndInv, TypeInv, NoSchema, Pages
<1>5. ASSUME NEW p \in Pages, GetPage(p) PROVE IndInv'
  <2>1. CASE p \in DOMAIN bcache BY <1>5, <2>1 DEF GetPage, IndInv, TypeInv, NoSchema, Pages
  <2>2. CASE p \notin DOMAIN bcache
    <3>1. /\ used' = used \cup {<<p, fver[p]>>} /\ failed' = failed
          /\ bcache' = IF Cardinality(DOMAIN bcache) >= CacheLimit
                               THEN [q \in {p} |-> fver[p]]
                               ELSE [q \in DOMAIN bcache \cup {p} |-> IF q = p THEN fver[p] ELSE bcache[q]]
          /\ UNCHANGED <<fsize, fver, fcc, fcookie, fschema, locked, dirty, hset, hcc, hcookie, ocache, mapSize, usedSchema>>
          /\ locked /\ ~dirty
      BY <1>5, <2>2 DEF GetPage
    <3>2. CASE Cardinality(DOMAIN bcache) >= CacheLimit
      <4>1. bcache' = [q \in {p} |-> fver[p]] BY <3>1, <3>2
      <4> QED BY <3>1, <4>1 DEF IndInv, TypeInv, NoSchema, Pages
    <3>3. CASE ~(Cardinality(DOMAIN bcache) >= CacheLimit)
      <4>1. bcache' = [q \in DOMAIN bcache \cup {p} |-> IF q = p THEN fver[p] ELSE bcache[q]] BY <3>1, <3>3
      <4> QED BY <3>1, <4>1 DEF IndInv, TypeInv, NoSchema, Pages
    <3> QED BY <3>2, <3>3
  <2> QED BY <2>1, <2>2
<1>6. ASSUME NEW k \in Kinds, Commit(k) PROVE IndInv'
  <2> USE <1>6 DEF Commit, Bump
  <2>0. ~locked /\ UNCHANGED <<locked, dirty, hset, hcc, hcookie, bcache, ocache, mapSize, used, usedSchema, failed>> OBVIOUS
  <2>1. CASE k = "dml" BY <2>1, <2>0 DEF IndInv, TypeInv, NoSchema, Pages
  <2>2. CASE k = "ddl" BY <2>2, <2>0 DEF IndInv, TypeInv, NoSchema, Pages
  <2>3. CASE k = "grow" BY <2>3, <2>0 DEF IndInv, TypeInv, NoSchema, Pages
  <2>4. CASE k = "vacuum" BY <2>4, <2>0 DEF IndInv, TypeInv, NoSchema, Pages
  <2>5. CASE k = "reuse" BY <2>5, <2>0 DEF IndInv, TypeInv, NoSchema, Pages
  <2> QED BY <2>1, <2>2, <2>3, <2>4, <2>5 DEF Kinds
<1>7. CASE UNCHANGED vars BY <1>7 DEF vars, IndInv, TypeInv, NoSchema, Pages
<1> QED BY <1>1, <1>2, <1>3, <1>4, <1>5, <1>6, <1>7 DEF Next

THEOREM Spec => []Safety
<1>1. Spec => []IndInv BY InitOK, StepOK, PTL DEF Spec
<1> QED BY <1>1, SafetyFromInv, PTL
=============================================================================

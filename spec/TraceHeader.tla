----------------------------- MODULE TraceHeader -----------------------------
(***************************************************************************)
(* Trace validation for C15.  Every line of header.ndjson is one           *)
(* experiment on the real code: a 100-byte header h (a valid base header   *)
(* with one field patched, or the header of a file real SQLite wrote),     *)
(* the base page size, and what the implementation did:                    *)
(*   outcome = "accepted"  opened, and every read operation returned the   *)
(*                         base file's rows                                *)
(*             "rejected"  an error and no rows through every entry point  *)
(*             "other"     anything else (rows that differ, partial rows)  *)
(*   parsed  = [ok, ps, cc, sc] result of the header parser alone          *)
(* mode = "open": fresh handle; "reread": the patch was applied between    *)
(* two reads of a long-lived handle with warm caches.                      *)
(***************************************************************************)
EXTENDS Header, Json, TLC

Trace == ndJsonDeserialize("header.ndjson")

VARIABLES l, bad
vars == <<l, bad>>

\* a valid-looking page size other than the file's real one makes the file inconsistent: not judged
Judged(e) == Class(e.h) # "either" /\ (Class(e.h) = "accept" => PageSize(e.h) = e.basePageSize)

OutcomeOK(e) ==
    CASE ~Judged(e) -> TRUE
      [] Class(e.h) = "reject" -> e.outcome = "rejected"
      [] Class(e.h) = "accept" -> e.outcome = "accepted"

\* the parser alone: refuses what must be refused, and reports the three fields it keeps correctly
ParserOK(e) ==
    /\ MustReject(e.h) => ~e.parsed.ok
    /\ Class(e.h) = "accept" => e.parsed.ok
    /\ e.parsed.ok => /\ e.parsed.ps = PageSize(e.h)
                      /\ e.parsed.cc = ChangeCounter(e.h)
                      /\ e.parsed.sc = SchemaCookie(e.h)

Init == l = 1 /\ bad = <<>>
Step ==
    /\ l <= Len(Trace)
    /\ LET e == Trace[l]
           f == (IF OutcomeOK(e) THEN {} ELSE {"outcome"}) \cup (IF ParserOK(e) THEN {} ELSE {"parser"})
       IN  bad' = IF f = {} THEN bad ELSE Append(bad, [i |-> l, why |-> f, class |-> Class(e.h)])
    /\ l' = l + 1
Spec == Init /\ [][Step]_vars

VerdictWritten ==
    l = Len(Trace) + 1 => JsonSerialize("verdict.json", [n |-> Len(Trace), bad |-> bad])
=============================================================================

----------------------------- MODULE TraceDriver -----------------------------
(***************************************************************************)
(* Trace validation for C19: scenarios run against the real database/sql   *)
(* driver.  driver.ndjson, one line per observation:                       *)
(*   "reset" n fault   a new result set over n rows (fault: a read failure *)
(*                     was injected somewhere into the scan)               *)
(*   "next_ok"         rows.Next() delivered a row                         *)
(*   "next_eof"        rows.Next() = false, rows.Err() = nil               *)
(*   "next_err"        rows.Next() = false, rows.Err() # nil               *)
(*   "cancel"          the query's context was cancelled                   *)
(*   "close_nil" / "close_err"   rows.Close() returned                     *)
(*   "settled" locked leak late  after everything: is the file lock still  *)
(*                     held, did goroutines leak, did the producer touch   *)
(*                     the pager after Close had returned                  *)
(* Producer steps are not observable: silent.  A scenario is accepted iff  *)
(* some interleaving of Driver.tla explains all its observations.          *)
(***************************************************************************)
EXTENDS Driver, Json

Trace == ndJsonDeserialize("driver.ndjson")
VARIABLE l
tvars == <<dvars, l>>

Silent ==
    /\ l <= Len(Trace) /\ Trace[l].ev # "reset"
    /\ \/ PLock \/ PScan \/ PSelectCancelled \/ PUnlock \/ PSetErr \/ PWgDone \/ PCloseChan
       \/ CNext \/ CCloseStart
    /\ UNCHANGED l

Consume ==
    /\ l <= Len(Trace)
    /\ LET e == Trace[l]
       IN  CASE e.ev = "next_ok"   -> Handoff
             [] e.ev = "next_eof"  -> CNextClosed /\ ended' = "eof"
             [] e.ev = "next_err"  -> CNextClosed /\ ended' = "err"
             [] e.ev = "cancel"    -> ExternalCancel
             \* database/sql closes the driver rows itself when Next hits the end: an explicit Close is then a no-op
             [] e.ev = "close_nil" -> IF cpc = "closed" THEN UNCHANGED dvars ELSE CCloseDone /\ closeres' = "nil"
             [] e.ev = "close_err" -> IF cpc = "closed" THEN UNCHANGED dvars ELSE CCloseDone /\ closeres' = "err"
             \* Close after the stream had ended: database/sql has closed the driver rows already and returns nil
             [] e.ev = "close_any" -> IF cpc = "closed" THEN UNCHANGED dvars ELSE CCloseDone
             [] e.ev = "settled"   -> /\ ppc = "done" /\ cpc = "closed"
                                      /\ e.locked = locked /\ ~e.leak /\ ~e.late
                                      \* Close STOPS the producer: after cancel it finishes at most the row it is working
                                      \* on (PScan once more, then PSelectCancelled) -- measured in page reads done while
                                      \* Close was running, against the cost of one row step
                                      /\ ("closereads" \in DOMAIN e) => e.closereads <= e.rowcost
                                      /\ UNCHANGED dvars
             [] OTHER -> FALSE
    /\ l' = l + 1

Reset ==
    /\ l <= Len(Trace) /\ Trace[l].ev = "reset"
    /\ N' = Trace[l].n
    /\ FaultAt' \in (IF Trace[l].fault THEN 1..(Trace[l].n + 1) ELSE {0})
    /\ ppc' = "start" /\ nexti' = 1 /\ perr' = "none" /\ locked' = FALSE /\ cancelled' = FALSE
    /\ err' = "none" /\ wg' = 1 /\ closed' = FALSE
    /\ cpc' = "idle" /\ got' = 0 /\ ended' = "-" /\ closeres' = "-"
    /\ l' = l + 1

TInit == DInit /\ N = 0 /\ FaultAt = 0 /\ l = 1
TNext == Silent \/ Consume \/ Reset
TSpec == TInit /\ [][TNext]_tvars

Track ==
    /\ TLCSet(1, IF l > TLCGet(1) THEN l ELSE TLCGet(1))
    /\ l = Len(Trace) + 1 => JsonSerialize("verdict.json", [accepted |-> TRUE, n |-> Len(Trace)])
ASSUME TLCSet(1, 0)
Post == PrintT(<<"HIGHWATER", TLCGet(1)>>)
=============================================================================

------------------------------- MODULE Values -------------------------------
(***************************************************************************)
(* Storable SQLite values, their exact order, the three built-in           *)
(* collations and the key/record predicates used by index searches.        *)
(*                                                                         *)
(* TLC integers are 32 bit, so int64/float64 are NOT TLC integers here.    *)
(* Every finite number is the exact dyadic rational                        *)
(*        s * 0.b1 b2 ... bn * 2^top      (b1 = bn = 1, n >= 1)           *)
(* zero is s = 0, infinities are s = 2 / -2.  The order is: sign, then     *)
(* `top`, then the bit string (a proper prefix is smaller).  This is exact *)
(* over the whole int64 and float64 ranges.                                *)
(*                                                                         *)
(*   [k |-> "null"]                                                        *)
(*   [k |-> "num",  s |-> -2..2, top |-> Int, bits |-> Seq({0,1})]         *)
(*   [k |-> "text", b |-> Seq(0..255)]                                     *)
(*   [k |-> "blob", b |-> Seq(0..255)]                                     *)
(***************************************************************************)
EXTENDS Integers, Sequences, FiniteSets

Min2(a, b) == IF a <= b THEN a ELSE b

Sgn(n) == IF n < 0 THEN -1 ELSE IF n = 0 THEN 0 ELSE 1

MinOf(S) == CHOOSE j \in S : \A m \in S : j <= m

\* first index at which two sequences differ within 1..n (0 if none).  Two stages: most byte strings
\* differ within the first few bytes, so the long scan is rarely evaluated (TLC evaluates set
\* comprehensions natively; deep recursion would be far slower).
FirstDiff(a, b, n) ==
    LET m  == Min2(n, 12)
        d1 == {i \in 1..m : a[i] # b[i]}
    IN  IF d1 # {} THEN MinOf(d1)
        ELSE LET d2 == {i \in (m + 1)..n : a[i] # b[i]}
             IN  IF d2 = {} THEN 0 ELSE MinOf(d2)

\* Lexicographic comparison of two integer sequences (memcmp, then length).
SeqCmp(a, b) ==
    LET n == Min2(Len(a), Len(b))
        i == FirstDiff(a, b, n)
    IN  IF i = 0 THEN Sgn(Len(a) - Len(b)) ELSE Sgn(a[i] - b[i])

\* Magnitude comparison of two positive dyadics.
MagCmp(x, y) ==
    IF x.top # y.top THEN Sgn(x.top - y.top) ELSE SeqCmp(x.bits, y.bits)

NumCmp(x, y) ==
    IF x.s # y.s THEN Sgn(x.s - y.s)
    ELSE IF x.s = 1 THEN MagCmp(x, y)
    ELSE IF x.s = -1 THEN MagCmp(y, x)
    ELSE 0                     \* both zero, or the same infinity

-----------------------------------------------------------------------------
(* Collations.  SQLite: BINARY = memcmp then length; RTRIM = ignore trailing *)
(* 0x20 only; NOCASE = fold ASCII A-Z only, and (sqlite3StrNICmp) the       *)
(* byte-wise scan stops at the first NUL of the left operand.               *)

Fold(c) == IF c >= 65 /\ c <= 90 THEN c + 32 ELSE c

RTrimLen(b) ==
    LET keep == {i \in 1..Len(b) : b[i] # 32}
    IN  IF keep = {} THEN 0 ELSE CHOOSE j \in keep : \A m \in keep : m <= j

RTrim(b) == SubSeq(b, 1, RTrimLen(b))

\* first position at which the scan of sqlite3StrNICmp stops, 0 if it runs to the end
NoCaseStop(a, b, n) ==
    LET m  == Min2(n, 12)
        d1 == {i \in 1..m : a[i] = 0 \/ Fold(a[i]) # Fold(b[i])}
    IN  IF d1 # {} THEN MinOf(d1)
        ELSE LET d2 == {i \in (m + 1)..n : a[i] = 0 \/ Fold(a[i]) # Fold(b[i])}
             IN  IF d2 = {} THEN 0 ELSE MinOf(d2)

NoCaseCmp(a, b) ==
    LET n == Min2(Len(a), Len(b))
        i == NoCaseStop(a, b, n)
    IN  IF i = 0 THEN Sgn(Len(a) - Len(b))
        ELSE LET r == Fold(a[i]) - Fold(b[i])
             IN  IF r # 0 THEN Sgn(r) ELSE Sgn(Len(a) - Len(b))

Collations == {"binary", "nocase", "rtrim"}

TextCmp(a, b, coll) ==
    CASE coll = "binary" -> SeqCmp(a, b)
      [] coll = "rtrim"  -> SeqCmp(RTrim(a), RTrim(b))
      [] coll = "nocase" -> NoCaseCmp(a, b)

ClassRank(v) ==
    CASE v.k = "null" -> 0
      [] v.k = "num"  -> 1
      [] v.k = "text" -> 2
      [] v.k = "blob" -> 3

\* Cmp(a, b, coll) in {-1, 0, 1}: the order SQLite sorts values in.
Cmp(a, b, coll) ==
    IF ClassRank(a) # ClassRank(b) THEN Sgn(ClassRank(a) - ClassRank(b))
    ELSE CASE a.k = "null" -> 0
           [] a.k = "num"  -> NumCmp(a, b)
           [] a.k = "text" -> TextCmp(a.b, b.b, coll)
           [] a.k = "blob" -> SeqCmp(a.b, b.b)

-----------------------------------------------------------------------------
(* Keys.  A key column is [v, coll, desc]; a record is a sequence of values. *)
(* The index order on the first Len(key) columns is lexicographic, column i  *)
(* reversed when desc; a record that ends before column i sorts before every *)
(* key that has a column i.                                                  *)

ColCmp(kc, v) == LET c == Cmp(kc.v, v, kc.coll) IN IF kc.desc THEN -c ELSE c

\* KeyCmp(key, rec): -1 key sorts before rec, 0 equal on the key's columns, 1 after
KeyCmp(key, rec) ==
    LET n == Len(key)
        d == {i \in 1..n : i > Len(rec) \/ ColCmp(key[i], rec[i]) # 0}
    IN  IF d = {} THEN 0
        ELSE LET i == CHOOSE j \in d : \A m \in d : j <= m
             IN  IF i > Len(rec) THEN 1 ELSE ColCmp(key[i], rec[i])

KeyEquals(key, rec)  == KeyCmp(key, rec) = 0      \* db.Equals
KeyNotLess(key, rec) == KeyCmp(key, rec) <= 0     \* db.Search: rec is equal to or after key

=============================================================================

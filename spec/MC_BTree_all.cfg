SPECIFICATION Spec
CONSTANTS
  CacheLimit = 100
  MaxDepth = 2
  MaxKids = 3
  MaxKidsDeep = 2
  MaxLeaf = 2
  Focus = "all"
INVARIANT DesignOK
CHECK_DEADLOCK FALSE

SPECIFICATION Spec
INVARIANT VerdictWritten
CHECK_DEADLOCK FALSE

SPECIFICATION Spec
CONSTANTS
  MaxPages = 4
  MaxVer = 3
  CacheLimit = 2
  MapFallback = TRUE
VIEW view
INVARIANT TypeOK
INVARIANT Freshness
INVARIANT NoFalseError
INVARIANT HeaderCurrent
INVARIANT CacheCurrent
CHECK_DEADLOCK FALSE

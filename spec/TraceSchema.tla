----------------------------- MODULE TraceSchema -----------------------------
(***************************************************************************)
(* Trace validation for C10 and C16 (locality).  Every line of             *)
(* schema.ndjson is one CREATE TABLE (with its CREATE INDEX statements)    *)
(* that real SQLite accepted and stored:                                   *)
(*   ast     the abstract syntax tree the text was rendered from           *)
(*   sq      what SQLite itself reports (PRAGMA table_xinfo, index_list,   *)
(*           index_xinfo) -- validates Schema.tla's rules (mode C)         *)
(*   res     what sqlittle's Database.Schema reports for the stored text   *)
(*   parsed  what sqlittle's parser reports for the CREATE TABLE text      *)
(*   iparsed the same for every CREATE INDEX text                          *)
(***************************************************************************)
EXTENDS Schema, Json

Trace == ndJsonDeserialize("schema.ndjson")

VARIABLES l, bad, specbad
vars == <<l, bad, specbad>>

Init == l = 1 /\ bad = <<>> /\ specbad = <<>>

Failed(e) ==
    (IF SchemaOK(e.ast, e.res) THEN {} ELSE {"schema"})
    \cup (IF ~e.parsed.ok \/ ParseTableOK(e.ast, e.parsed) THEN {} ELSE {"parse-table"})
    \cup (IF \A i \in 1..Len(e.iparsed) : (~e.iparsed[i].ok \/ ParseIndexOK(e.ast.idx[i], e.iparsed[i])) THEN {} ELSE {"parse-index"})

Step ==
    /\ l <= Len(Trace)
    /\ LET e == Trace[l]
           f == Failed(e)
       IN  /\ bad' = IF f = {} THEN bad ELSE Append(bad, [i |-> l, why |-> f])
           /\ specbad' = IF Consistent(e.ast) /\ SpecMatchesSqlite(e.ast, e.sq) THEN specbad ELSE Append(specbad, l)
    /\ l' = l + 1

Spec == Init /\ [][Step]_vars

VerdictWritten ==
    l = Len(Trace) + 1 => JsonSerialize("verdict.json", [n |-> Len(Trace), bad |-> bad, specbad |-> specbad])
=============================================================================

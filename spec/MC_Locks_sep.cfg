SPECIFICATION Spec
CONSTANTS
  Handles = {"h1", "h2"}
  ProcOf <- ProcSep
  Writers = {"w1", "w2"}
  Foreign = {"f1"}
  MaxCommits = 2
  MaxOps = 2
VIEW view
INVARIANT SharedWhileReading
INVARIANT NoWriterWhileReading
INVARIANT CommittedOnly
INVARIANT Released
INVARIANT YieldToWriters
INVARIANT BeliefMatchesKernel
INVARIANT WriterLadderOK
CHECK_DEADLOCK FALSE

----------------------------- MODULE DriverProof -----------------------------
(***************************************************************************)
(* Unbounded safety of the result-set protocol of Driver.tla (C19), proved *)
(* with TLAPS: for a result of ANY number of rows N, a failure at ANY      *)
(* position, and Close / cancel arriving at ANY moment, the inductive      *)
(* invariant IndInv holds and implies the invariants TLC checks for N <= 3:*)
(* Cleanup, ErrBeforeClose, NoSilentShort, PrefixDelivered,                *)
(* FailureSurfaces.                                                        *)
(***************************************************************************)
EXTENDS Driver, TLAPS

PPC == {"start", "scan", "select", "unlock", "seterr", "wgdone", "closechan", "done"}
CPC == {"idle", "next", "closewait", "closed"}
ERR == {"none", "scan"}

TypeOK ==
    /\ N \in Nat /\ FaultAt \in 0..(N + 1)
    /\ ppc \in PPC /\ nexti \in 1..(N + 1) /\ perr \in ERR /\ locked \in BOOLEAN /\ cancelled \in BOOLEAN
    /\ err \in ERR /\ wg \in {0, 1} /\ closed \in BOOLEAN /\ cpc \in CPC /\ got \in Nat
    /\ ended \in {"-", "eof", "err"} /\ closeres \in {"-", "nil", "err"}

IndInv ==
    /\ TypeOK
    /\ got = nexti - 1
    /\ ppc = "select" => nexti <= N                                   \* a row is offered only if there is one
    /\ locked <=> ppc \in {"scan", "select", "unlock"}                 \* the file lock spans exactly the scan
    /\ perr = "scan" => ppc \in {"unlock", "seterr", "wgdone", "closechan", "done"}
    /\ ppc \in {"start", "scan", "select", "unlock", "seterr"} => err = "none"
    /\ ppc \in {"wgdone", "closechan", "done"} => err = perr          \* the error is published before the wait group ...
    /\ wg = 0 <=> ppc \in {"closechan", "done"}
    /\ closed <=> ppc = "done"                                        \* ... and before the channel is closed
    /\ ended # "-" => closed
    /\ ended = "eof" => perr = "none"
    /\ cpc = "closed" => wg = 0 /\ closeres = (IF perr # "none" THEN "err" ELSE "nil")

Safety == Cleanup /\ ErrBeforeClose /\ NoSilentShort /\ PrefixDelivered /\ FailureSurfaces

THEOREM InitOK == DInit => IndInv
BY DEF DInit, IndInv, TypeOK, PPC, CPC, ERR

THEOREM SafetyFromInv == IndInv => Safety
BY DEF IndInv, TypeOK, PPC, CPC, ERR, Safety, Cleanup, ErrBeforeClose, NoSilentShort, PrefixDelivered, FailureSurfaces

THEOREM StepOK == IndInv /\ [DNext]_dvars => IndInv'
<1> SUFFICES ASSUME IndInv, [DNext]_dvars PROVE IndInv' OBVIOUS

<1>1. CASE Finished BY <1>1 DEF Finished, IndInv, TypeOK, PPC, CPC, ERR, Terminal, dvars
<1>2. CASE PLock BY <1>2 DEF PLock, IndInv, TypeOK, PPC, CPC, ERR
<1>3. CASE PScan BY <1>3 DEF PScan, IndInv, TypeOK, PPC, CPC, ERR
<1>4. CASE PSelectCancelled BY <1>4 DEF PSelectCancelled, IndInv, TypeOK, PPC, CPC, ERR
<1>5. CASE Handoff BY <1>5 DEF Handoff, IndInv, TypeOK, PPC, CPC, ERR
<1>6. CASE PUnlock BY <1>6 DEF PUnlock, IndInv, TypeOK, PPC, CPC, ERR
<1>7. CASE PSetErr BY <1>7 DEF PSetErr, IndInv, TypeOK, PPC, CPC, ERR
<1>8. CASE PWgDone BY <1>8 DEF PWgDone, IndInv, TypeOK, PPC, CPC, ERR
<1>9. CASE PCloseChan BY <1>9 DEF PCloseChan, IndInv, TypeOK, PPC, CPC, ERR
<1>10. CASE CNext BY <1>10 DEF CNext, IndInv, TypeOK, PPC, CPC, ERR
<1>11. CASE CNextClosed BY <1>11 DEF CNextClosed, IndInv, TypeOK, PPC, CPC, ERR
<1>12. CASE CCloseStart BY <1>12 DEF CCloseStart, IndInv, TypeOK, PPC, CPC, ERR
<1>13. CASE CCloseDone BY <1>13 DEF CCloseDone, IndInv, TypeOK, PPC, CPC, ERR
<1>14. CASE ExternalCancel BY <1>14 DEF ExternalCancel, IndInv, TypeOK, PPC, CPC, ERR
<1>15. CASE UNCHANGED dvars BY <1>15 DEF dvars, IndInv, TypeOK, PPC, CPC, ERR
<1> QED BY <1>1, <1>2, <1>3, <1>4, <1>5, <1>6, <1>7, <1>8, <1>9, <1>10, <1>11, <1>12, <1>13, <1>14, <1>15 DEF DNext

THEOREM DSpec => []Safety
<1>1. DSpec => []IndInv BY InitOK, StepOK, PTL DEF DSpec
<1> QED BY <1>1, SafetyFromInv, PTL
=============================================================================

SPECIFICATION TSpec
CONSTANTS
  NPages = 2
  R = 3
  Fuel = 10
  BoundedChain = TRUE
INVARIANT VerdictWritten
CHECK_DEADLOCK FALSE

SPECIFICATION LSpec
CONSTANT ScanCopies = TRUE
INVARIANT ReadsSeeFile
INVARIANT Independent
CHECK_DEADLOCK FALSE

SPECIFICATION Spec
CONSTANTS
  Handles = {"h1", "h2"}
  ProcOf <- ProcSame
  Writers = {"w1"}
  Foreign = {"f1"}
  MaxCommits = 1
  MaxOps = 2
VIEW view
INVARIANT SharedWhileReading
CHECK_DEADLOCK FALSE

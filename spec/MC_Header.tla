------------------------------ MODULE MC_Header ------------------------------
(***************************************************************************)
(* Exhaustive classification of every single-byte patch (offset 0..99 x    *)
(* value 0..255) of a valid base header, for each legal page-size          *)
(* encoding: one state per (base, offset, value).  Checks the shape the    *)
(* property states: patches of fields that do not affect reading are       *)
(* accepted, every patch is classified, and the classes are consistent.    *)
(***************************************************************************)
EXTENDS Header, TLC

Base(ps) ==
    [i \in 1..100 |->
        IF i <= 16 THEN Magic[i]
        ELSE IF i = 17 THEN (IF ps = 65536 THEN 0 ELSE ps \div 256)
        ELSE IF i = 18 THEN (IF ps = 65536 THEN 1 ELSE ps % 256)
        ELSE IF i \in {19, 20} THEN 1
        ELSE IF i = 22 THEN 64 ELSE IF i \in {23, 24} THEN 32
        ELSE IF i = 28 THEN 7            \* change counter
        ELSE IF i = 44 THEN 3            \* schema cookie
        ELSE IF i = 48 THEN 4            \* schema format 4
        ELSE IF i = 60 THEN 1            \* UTF-8
        ELSE 0]

VARIABLES ps, off, val
vars == <<ps, off, val>>
Init == ps \in LegalPageSizes /\ off = -1 /\ val = 0
Next == off = -1 /\ off' \in 0..99 /\ val' \in 0..255 /\ UNCHANGED ps
Spec == Init /\ [][Next]_vars

H == IF off = -1 THEN Base(ps) ELSE [Base(ps) EXCEPT ![off + 1] = val]

BaseAccepted == off = -1 => Class(H) = "accept" /\ PageSize(H) = ps
FreeFieldsAccepted == (off \in FreeOffsets) => Class(H) = "accept"
ClassesDisjoint == ~(MustReject(H) /\ Class(H) # "reject")
\* every patch of the magic, of the read version, of the reserved-space byte is refused
CoreRejected ==
    /\ (off \in 0..15 /\ val # Base(ps)[off + 1]) => Class(H) = "reject"
    /\ (off = 19 /\ val # 1) => Class(H) = "reject"
    /\ (off = 20 /\ val # 0) => Class(H) = "reject"
    /\ (off \in 56..58 /\ val # 0) => Class(H) = "reject"
    /\ (off = 59 /\ val > 1) => Class(H) = "reject"
    /\ (off \in 44..46 /\ val # 0) => Class(H) = "reject"
    /\ (off = 47 /\ val > 4) => Class(H) = "reject"
=============================================================================

------------------------------- MODULE Format -------------------------------
(***************************************************************************)
(* SQLite file-format arithmetic: varints, two's complement integers,      *)
(* IEEE doubles, serial types, record decoding and the local/overflow      *)
(* payload split.  Numbers that do not fit TLC's 32-bit integers are bit   *)
(* sequences (most significant bit first) or the exact dyadic values of    *)
(* Values.tla.                                                             *)
(***************************************************************************)
EXTENDS Values

RECURSIVE Pow2(_)
Pow2(n) == IF n = 0 THEN 1 ELSE 2 * Pow2(n - 1)

\* the n low bits of c, most significant first
BitsOf(c, n) == [i \in 1..n |-> (c \div Pow2(n - i)) % 2]

RECURSIVE Flatten(_)
Flatten(ss) == IF ss = <<>> THEN <<>> ELSE Head(ss) \o Flatten(Tail(ss))

StripLeadingZeros(bits) ==
    LET ones == {i \in 1..Len(bits) : bits[i] = 1}
    IN  IF ones = {} THEN <<>>
        ELSE SubSeq(bits, CHOOSE j \in ones : \A m \in ones : j <= m, Len(bits))

StripTrailingZeros(bits) ==
    LET ones == {i \in 1..Len(bits) : bits[i] = 1}
    IN  IF ones = {} THEN <<>>
        ELSE SubSeq(bits, 1, CHOOSE j \in ones : \A m \in ones : m <= j)

\* value of a short bit string as a TLC integer (caller guarantees < 2^31)
RECURSIVE BitsToNat(_)
BitsToNat(bits) == IF bits = <<>> THEN 0
                   ELSE 2 * BitsToNat(SubSeq(bits, 1, Len(bits) - 1)) + bits[Len(bits)]

-----------------------------------------------------------------------------
(* Varints: 1..9 bytes, 7 bits per byte, the ninth byte contributes all 8.  *)
(* Result: n = bytes consumed (-1: not enough bytes), bits = the unsigned   *)
(* 64-bit value without leading zeros.                                      *)

VarintDecode(bytes) ==
    LET lim  == Min2(8, Len(bytes))
        ends == {i \in 1..lim : bytes[i] < 128}
    IN  IF ends # {}
          THEN LET k == CHOOSE j \in ends : \A m \in ends : j <= m
               IN  [n |-> k,
                    bits |-> StripLeadingZeros(Flatten([i \in 1..k |-> BitsOf(bytes[i] % 128, 7)]))]
        ELSE IF Len(bytes) >= 9
          THEN [n |-> 9,
                bits |-> StripLeadingZeros(Flatten([i \in 1..8 |-> BitsOf(bytes[i] % 128, 7)])
                                           \o BitsOf(bytes[9], 8))]
        ELSE [n |-> -1, bits |-> <<>>]

\* encoder (used to check Decode o Encode = identity for every length 1..9)
PadLeft(bits, n) == [i \in 1..(n - Len(bits)) |-> 0] \o bits

VarintEncode(bits) ==
    IF Len(bits) <= 56
      THEN LET k == IF Len(bits) = 0 THEN 1 ELSE (Len(bits) + 6) \div 7
               p == PadLeft(bits, 7 * k)
           IN  [i \in 1..k |-> BitsToNat(SubSeq(p, 7 * (i - 1) + 1, 7 * i)) + (IF i < k THEN 128 ELSE 0)]
      ELSE LET p == PadLeft(bits, 64)
           IN  [i \in 1..9 |-> IF i <= 8 THEN BitsToNat(SubSeq(p, 7 * (i - 1) + 1, 7 * i)) + 128
                                          ELSE BitsToNat(SubSeq(p, 57, 64))]

VarintLen(bits) == IF Len(bits) = 0 THEN 1 ELSE IF Len(bits) > 56 THEN 9 ELSE (Len(bits) + 6) \div 7

\* a varint whose value is known to be small, as a TLC integer; -1 when unusable
VarintSmall(bytes) ==
    LET v == VarintDecode(bytes)
    IN  IF v.n < 0 \/ Len(v.bits) > 30 THEN [n |-> -1, v |-> 0] ELSE [n |-> v.n, v |-> BitsToNat(v.bits)]

-----------------------------------------------------------------------------
(* Exact numbers from bytes                                                 *)

\* sign * (integer given by magnitude bits) * 2^e2  as a Values number
Dyadic(sign, magbits, e2) ==
    LET m == StripLeadingZeros(magbits)
    IN  IF m = <<>> THEN [k |-> "num", s |-> 0, top |-> 0, bits |-> <<>>]
        ELSE [k |-> "num", s |-> sign, top |-> e2 + Len(m), bits |-> StripTrailingZeros(m)]

\* big-endian two's complement integer of Len(bs) bytes
IntFromBytes(bs) ==
    LET bits == Flatten([i \in 1..Len(bs) |-> BitsOf(bs[i], 8)])
    IN  IF bits[1] = 0 THEN Dyadic(1, bits, 0)
        ELSE LET inv == [i \in 1..Len(bits) |-> 1 - bits[i]]
                 zs  == {i \in 1..Len(inv) : inv[i] = 0}
                 j   == CHOOSE x \in zs : \A m \in zs : m <= x
                 mag == [i \in 1..Len(inv) |-> IF i < j THEN inv[i] ELSE IF i = j THEN 1 ELSE 0]
             IN  Dyadic(-1, mag, 0)

NaN == [k |-> "num", s |-> 3, top |-> 0, bits |-> <<>>]

\* IEEE 754 binary64 from 8 bytes
FloatFromBytes(bs) ==
    LET bits == Flatten([i \in 1..8 |-> BitsOf(bs[i], 8)])
        sign == IF bits[1] = 1 THEN -1 ELSE 1
        e    == BitsToNat(SubSeq(bits, 2, 12))
        man  == SubSeq(bits, 13, 64)
    IN  IF e = 2047
          THEN IF StripLeadingZeros(man) = <<>>
                 THEN [k |-> "num", s |-> 2 * sign, top |-> 0, bits |-> <<>>]
                 ELSE NaN
        ELSE IF e = 0 THEN Dyadic(sign, man, -1074)
        ELSE Dyadic(sign, <<1>> \o man, e - 1075)

-----------------------------------------------------------------------------
(* Serial types and records                                                 *)

SerialLen(t) ==
    CASE t \in {0, 8, 9} -> 0
      [] t = 1 -> 1 [] t = 2 -> 2 [] t = 3 -> 3 [] t = 4 -> 4 [] t = 5 -> 6
      [] t \in {6, 7} -> 8
      [] t \in {10, 11} -> -1
      [] t >= 12 -> (t - 12 - (t % 2)) \div 2

SerialValue(t, bs) ==
    CASE t = 0 -> [k |-> "null"]
      [] t \in 1..6 -> IntFromBytes(bs)
      [] t = 7 -> FloatFromBytes(bs)
      [] t = 8 -> [k |-> "num", s |-> 0, top |-> 0, bits |-> <<>>]
      [] t = 9 -> [k |-> "num", s |-> 1, top |-> 1, bits |-> <<1>>]
      [] t >= 12 /\ t % 2 = 0 -> [k |-> "blob", b |-> bs]
      [] t >= 13 /\ t % 2 = 1 -> [k |-> "text", b |-> bs]

RecErr == [err |-> TRUE, vals |-> <<>>]

\* serial types of a record header (bytes after the header-size varint); <<-1>> on error
RECURSIVE HeaderTypes(_)
HeaderTypes(h) ==
    IF h = <<>> THEN <<>>
    ELSE LET v == VarintSmall(h)
         IN  IF v.n < 0 THEN <<-1>>
             ELSE LET rest == HeaderTypes(SubSeq(h, v.n + 1, Len(h)))
                  IN  IF rest # <<>> /\ rest[Len(rest)] = -1 THEN <<-1>> ELSE <<v.v>> \o rest

RECURSIVE BodyValues(_, _)
BodyValues(types, body) ==
    IF types = <<>> THEN [err |-> FALSE, vals |-> <<>>]
    ELSE LET t == Head(types)
             n == SerialLen(t)
         IN  IF n < 0 \/ n > Len(body) THEN RecErr
             ELSE LET rest == BodyValues(Tail(types), SubSeq(body, n + 1, Len(body)))
                  IN  IF rest.err THEN RecErr
                      ELSE [err |-> FALSE, vals |-> <<SerialValue(t, SubSeq(body, 1, n))>> \o rest.vals]

RecordDecode(bytes) ==
    LET hs == VarintSmall(bytes)
    IN  IF hs.n < 0 \/ hs.v < hs.n \/ hs.v > Len(bytes) THEN RecErr
        ELSE LET types == HeaderTypes(SubSeq(bytes, hs.n + 1, hs.v))
             IN  IF types # <<>> /\ types[Len(types)] = -1 THEN RecErr
                 ELSE BodyValues(types, SubSeq(bytes, hs.v + 1, Len(bytes)))

-----------------------------------------------------------------------------
(* Local payload (file format, "B-tree Cell Format"):  U usable page size,   *)
(* P payload size.                                                          *)

PageSizes == {512, 1024, 2048, 4096, 8192, 16384, 32768, 65536}

MaxLocal(U, isIndex) == IF isIndex THEN (((U - 12) * 64) \div 255) - 23 ELSE U - 35
MinLocal(U)          == (((U - 12) * 32) \div 255) - 23

LocalPayload(U, P, isIndex) ==
    LET X == MaxLocal(U, isIndex)
        M == MinLocal(U)
        K == M + ((P - M) % (U - 4))
    IN  IF P <= X THEN P ELSE IF K <= X THEN K ELSE M

\* number of overflow pages SQLite uses for a payload of P bytes
OverflowPages(U, P, isIndex) ==
    LET rest == P - LocalPayload(U, P, isIndex)
    IN  (rest + (U - 5)) \div (U - 4)

\* algebra of the split, checked by TLC over the grid (MC_Format)
SplitOK(U, P, isIndex) ==
    LET X == MaxLocal(U, isIndex)
        M == MinLocal(U)
        L == LocalPayload(U, P, isIndex)
    IN  /\ (P <= X) <=> (L = P)
        /\ P > X => /\ M <= L /\ L <= X
                    \* the spilled part fills overflow pages as tightly as the rule allows:
                    \* either it is a whole number of pages, or the local part is minimal
                    /\ ((P - L) % (U - 4) = 0) \/ L = M
        /\ OverflowPages(U, P, isIndex) * (U - 4) >= P - L
        /\ P > X => (OverflowPages(U, P, isIndex) - 1) * (U - 4) < P - L

=============================================================================

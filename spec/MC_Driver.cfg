SPECIFICATION DSpec
CONSTANTS
  MaxN = 3
INVARIANT Cleanup
INVARIANT ErrBeforeClose
INVARIANT NoSilentShort
INVARIANT PrefixDelivered
INVARIANT FailureSurfaces
CHECK_DEADLOCK TRUE

SPECIFICATION LSpec
CONSTANT ScanCopies = FALSE
INVARIANT ReadsSeeFile
CHECK_DEADLOCK FALSE

SPECIFICATION Spec
INVARIANT SplitInv
INVARIANT VarintInv
CHECK_DEADLOCK FALSE

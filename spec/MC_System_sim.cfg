SPECIFICATION SSpec
CONSTANTS
  Handles = {"h1", "h2", "h3"}
  NSteps = 40
  NOps = 1
INVARIANT NoSharedWrites
CHECK_DEADLOCK FALSE

------------------------------- MODULE Reader -------------------------------
(***************************************************************************)
(* One long-lived sqlittle handle on a file that other connections keep    *)
(* committing to (db/database.go, db/cache.go, db/pager_unix.go):          *)
(*                                                                         *)
(*   RLock marks the handle dirty; the first page access of a transaction  *)
(*   re-reads the 100-byte header and drops the page cache iff the change  *)
(*   counter moved and the schema cache iff the schema cookie moved; pages *)
(*   come from the cache, the memory map sized at open, or (file grown     *)
(*   since) from the descriptor.                                           *)
(*                                                                         *)
(* The file is abstract: every page carries a version stamp, the schema a  *)
(* version stamp; writers (SQLite, in other processes) commit only while   *)
(* the handle is not inside a transaction (that is Locks.tla's guarantee)  *)
(* and move the counters the way SQLite does.                              *)
(*                                                                         *)
(* Properties (C08): Freshness -- every page and the schema a transaction  *)
(* consumes carry the latest committed version; NoFalseError -- a read of  *)
(* a valid file does not fail; RepeatStable follows from Freshness.        *)
(***************************************************************************)
EXTENDS Integers, FiniteSets, Sequences

CONSTANTS MaxPages,      \* the file has 1..MaxPages pages at most
          MaxVer,        \* bound on version stamps (state constraint)
          CacheLimit,    \* pages kept by the page cache (dropped wholesale when full)
          MapFallback    \* TRUE: pages beyond the map are read through the descriptor (after the fix)

VARIABLES fsize, fver, fcc, fcookie, fschema,      \* the committed file
          locked, dirty, hset, hcc, hcookie,       \* the handle
          bcache, ocache, mapSize,
          used, usedSchema, failed,                \* observation of the current transaction
          last                                     \* label of the last action (history only)

vars == <<fsize, fver, fcc, fcookie, fschema, locked, dirty, hset, hcc, hcookie, bcache, ocache, mapSize,
          used, usedSchema, failed, last>>
view == <<fsize, fver, fcc, fcookie, fschema, locked, dirty, hset, hcc, hcookie, bcache, ocache, mapSize,
          used, usedSchema, failed>>

Pages == 1..MaxPages
NoSchema == -1

Init ==
    /\ fsize \in 2..MaxPages
    /\ fver = [p \in Pages |-> 0]
    /\ fcc = 0 /\ fcookie = 0 /\ fschema = 0
    /\ locked = FALSE /\ dirty = FALSE
    \* Open: header read outside any lock, map sized to the file
    /\ hset = TRUE /\ hcc = 0 /\ hcookie = 0
    /\ bcache = [p \in {} |-> 0] /\ ocache = NoSchema
    /\ mapSize = fsize
    /\ used = {} /\ usedSchema = NoSchema /\ failed = FALSE
    /\ last = "Open"

-----------------------------------------------------------------------------
\* the handle

RLock ==
    /\ ~locked
    /\ locked' = TRUE /\ dirty' = TRUE
    /\ used' = {} /\ usedSchema' = NoSchema /\ failed' = FALSE
    /\ last' = "RLock"
    /\ UNCHANGED <<fsize, fver, fcc, fcookie, fschema, hset, hcc, hcookie, bcache, ocache, mapSize>>

\* resolveDirty(): first access of a transaction
ResolveDirty ==
    /\ locked /\ dirty
    /\ bcache' = IF hset /\ hcc # fcc THEN [p \in {} |-> 0] ELSE bcache
    /\ ocache' = IF hset /\ hcookie # fcookie THEN NoSchema ELSE ocache
    /\ hset' = TRUE /\ hcc' = fcc /\ hcookie' = fcookie
    /\ dirty' = FALSE
    /\ last' = "ResolveDirty"
    /\ UNCHANGED <<fsize, fver, fcc, fcookie, fschema, locked, mapSize, used, usedSchema, failed>>

\* openPage(p): cache hit, or read through the map / the descriptor, then cache
GetPage(p) ==
    /\ locked /\ ~dirty /\ ~failed
    /\ p \in 1..fsize                       \* a valid file only references existing pages
    /\ IF p \in DOMAIN bcache
         THEN /\ used' = used \cup {<<p, bcache[p]>>}
              /\ UNCHANGED <<bcache, failed>>
         ELSE IF p <= mapSize \/ MapFallback
           THEN /\ used' = used \cup {<<p, fver[p]>>}
                /\ bcache' = IF Cardinality(DOMAIN bcache) >= CacheLimit
                               THEN [q \in {p} |-> fver[p]]
                               ELSE [q \in DOMAIN bcache \cup {p} |-> IF q = p THEN fver[p] ELSE bcache[q]]
                /\ UNCHANGED failed
           ELSE /\ failed' = TRUE          \* "mmap: invalid ReadAt offset"
                /\ UNCHANGED <<used, bcache>>
    /\ last' = "GetPage"
    /\ UNCHANGED <<fsize, fver, fcc, fcookie, fschema, locked, dirty, hset, hcc, hcookie, ocache, mapSize, usedSchema>>

\* master(): the schema comes from the cache, or is read (abstractly: its current version) and cached
Master ==
    /\ locked /\ ~dirty /\ ~failed
    /\ IF ocache # NoSchema
         THEN usedSchema' = ocache /\ UNCHANGED ocache
         ELSE usedSchema' = fschema /\ ocache' = fschema
    /\ last' = "Master"
    /\ UNCHANGED <<fsize, fver, fcc, fcookie, fschema, locked, dirty, hset, hcc, hcookie, bcache, mapSize, used, failed>>

RUnlock ==
    /\ locked
    /\ locked' = FALSE
    /\ last' = "RUnlock"
    /\ UNCHANGED <<fsize, fver, fcc, fcookie, fschema, dirty, hset, hcc, hcookie, bcache, ocache, mapSize, used, usedSchema, failed>>

-----------------------------------------------------------------------------
\* the environment: SQLite commits, only while the handle holds no lock

Bump(S) == [p \in Pages |-> IF p \in S THEN fver[p] + 1 ELSE fver[p]]

Commit(kind) ==
    /\ ~locked
    /\ fcc < MaxVer
    /\ CASE kind = "dml" ->        \* rows change in place: some pages rewritten
              /\ \E S \in SUBSET (1..fsize) : S # {} /\ fver' = Bump(S)
              /\ fcc' = fcc + 1 /\ UNCHANGED <<fcookie, fschema, fsize>>
         [] kind = "ddl" ->        \* schema change (also CREATE/DROP INDEX, ALTER): page 1 and others
              /\ \E S \in SUBSET (1..fsize) : fver' = Bump(S \cup {1})
              /\ fcc' = fcc + 1 /\ fcookie' = fcookie + 1 /\ fschema' = fschema + 1 /\ UNCHANGED fsize
         [] kind = "grow" ->       \* the file gets longer than it was at open
              /\ fsize < MaxPages
              /\ fsize' = fsize + 1
              /\ fver' = Bump({1, fsize + 1})
              /\ fcc' = fcc + 1 /\ UNCHANGED <<fcookie, fschema>>
         [] kind = "vacuum" ->     \* everything renumbered, file may shrink; schema cookie moves too
              /\ \E n \in 2..fsize : fsize' = n
              /\ fver' = Bump(Pages)
              /\ fcc' = fcc + 1 /\ fcookie' = fcookie + 1 /\ fschema' = fschema + 1
         [] kind = "reuse" ->      \* a freed page is recycled for other content
              /\ \E p \in 2..fsize : fver' = Bump({1, p})
              /\ fcc' = fcc + 1 /\ UNCHANGED <<fcookie, fschema, fsize>>
    /\ last' = kind
    /\ UNCHANGED <<locked, dirty, hset, hcc, hcookie, bcache, ocache, mapSize, used, usedSchema, failed>>

Kinds == {"dml", "ddl", "grow", "vacuum", "reuse"}

Next ==
    \/ RLock \/ ResolveDirty \/ Master \/ RUnlock
    \/ \E p \in Pages : GetPage(p)
    \/ \E k \in Kinds : Commit(k)

Spec == Init /\ [][Next]_vars

-----------------------------------------------------------------------------
TypeOK ==
    /\ fsize \in 1..MaxPages /\ mapSize \in 1..MaxPages
    /\ locked \in BOOLEAN /\ dirty \in BOOLEAN /\ failed \in BOOLEAN
    /\ DOMAIN bcache \subseteq Pages

\* C08: what a transaction consumes is the latest committed state
Freshness ==
    locked =>
        /\ \A u \in used : u[2] = fver[u[1]]
        /\ usedSchema # NoSchema => usedSchema = fschema

\* C08: a read of a valid file does not fail
NoFalseError == ~failed

\* the writer cannot commit inside a read transaction, so the header read in ResolveDirty stays current
HeaderCurrent == (locked /\ ~dirty) => (hcc = fcc /\ hcookie = fcookie)

\* what the cache holds after ResolveDirty is current
CacheCurrent == (locked /\ ~dirty) => \A p \in DOMAIN bcache : bcache[p] = fver[p]
=============================================================================

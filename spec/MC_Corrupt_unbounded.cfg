SPECIFICATION CSpec
CONSTANTS
  NPages = 2
  R = 3
  Fuel = 200
  BoundedChain = FALSE
INVARIANT Robust
CHECK_DEADLOCK FALSE

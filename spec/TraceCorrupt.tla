---------------------------- MODULE TraceCorrupt ----------------------------
(***************************************************************************)
(* Trace validation for C05.  corrupt.ndjson, one line per corrupted image *)
(* presented to the real code: the recipe (site, class) of Corrupt.tla     *)
(* that produced it, and the worst outcome over EVERY public operation run *)
(* on it (open, schema inspection, scans, searches, lookups with keys of   *)
(* every class, high level selects through every index, the driver):       *)
(*    "returned"  every call returned normally (rows and/or an error)      *)
(*    "panic"     a call panicked (recovered by the worker)                *)
(*    "budget"    a call exceeded its page-read budget: the deterministic  *)
(*                image of a hang / unbounded allocation                   *)
(*    "crash"     the process died (stack overflow, out of memory, signal) *)
(***************************************************************************)
EXTENDS Corrupt, Json

Trace == ndJsonDeserialize("corrupt.ndjson")
VARIABLES l, bad, seen
tvars == <<l, bad, seen, cvars>>

TInit == l = 1 /\ bad = <<>> /\ seen = {} /\ g = <<>> /\ root = 0
Step ==
    /\ l <= Len(Trace)
    /\ LET e == Trace[l]
       IN  /\ <<e.site, e.class>> \in Recipes          \* only recipes the specification names
           /\ bad' = IF e.outcome = "returned" THEN bad ELSE Append(bad, l)
           /\ seen' = seen \cup {<<e.site, e.class>>}
    /\ l' = l + 1
    /\ UNCHANGED cvars
TSpec == TInit /\ [][Step]_tvars
VerdictWritten ==
    l = Len(Trace) + 1 =>
        JsonSerialize("verdict.json", [n |-> Len(Trace), bad |-> bad, recipes |-> Cardinality(Recipes), covered |-> Cardinality(seen),
                                        missing |-> Recipes \ seen])
=============================================================================

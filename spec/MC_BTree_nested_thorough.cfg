SPECIFICATION Spec
CONSTANTS
  CacheLimit = 100
  MaxDepth = 3
  MaxKids = 3
  MaxKidsDeep = 3
  MaxLeaf = 2
  Focus = "nested"
INVARIANT DesignOK
CHECK_DEADLOCK FALSE

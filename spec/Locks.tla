-------------------------------- MODULE Locks --------------------------------
(***************************************************************************)
(* POSIX record locks on one SQLite database file, the lock ladder of real *)
(* SQLite connections (os_unix.c) and the lock steps of sqlittle handles   *)
(* (db/pager_unix.go, db/database.go, sqlittle.go), every fcntl call a     *)
(* separate action so that TLC explores all interleavings.                 *)
(*                                                                         *)
(* Kernel semantics that matter:                                           *)
(*  - locks belong to (process, inode); a process never conflicts with     *)
(*    itself; re-locking replaces; F_SETLK fails at once on conflict;      *)
(*  - unlocking a range removes the PROCESS's lock on it, whichever of its *)
(*    descriptors / handles took it;                                       *)
(*  - closing ANY descriptor of the inode drops ALL locks of the process   *)
(*    on that file.                                                        *)
(* Three regions: "pend" (byte 0x40000000), "resv" (+1), "shrd" (+2..+511);*)
(* lock types "N" none, "R" read, "W" write.                               *)
(***************************************************************************)
EXTENDS Integers, FiniteSets, Sequences, TLC

CONSTANTS Handles,        \* sqlittle handles
          ProcOf,         \* handle -> process
          Writers,        \* SQLite connections that write (each its own process)
          Foreign,        \* processes that are not SQLite: they lock byte ranges of the file as they like
          MaxCommits,     \* bound on committed transactions
          MaxOps          \* bound on operations per handle

Procs == {ProcOf[h] : h \in Handles} \cup Writers \cup Foreign
Regions == {"pend", "resv", "shrd"}

VARIABLES lk,        \* lk[p][r] \in {"N","R","W"}: the kernel's table
          fds,       \* fds[p]: descriptors of the file open in process p
          hpc,       \* handle program counter
          belief,    \* handle believes it holds the read lock (filePager.readLock # nil)
          hres,      \* result of the handle's last lock attempt: "ok" | "err" | "-"
          hseen,     \* version of the file the handle's current operation read (-1: nothing yet)
          nops,      \* operations started per handle
          wst,       \* writer lock state as SQLite tracks it (eFileLock)
          wpc,       \* writer program counter within a transition
          fver,      \* committed version of the file
          writing,   \* a writer is modifying the database file right now
          last       \* label of the last action (history only)

vars == <<lk, fds, hpc, belief, hres, hseen, nops, wst, wpc, fver, writing, last>>
view == <<lk, fds, hpc, belief, hres, hseen, nops, wst, wpc, fver, writing>>

NoLocks == [r \in Regions |-> "N"]

\* can process p take a lock of type t on region r?  (other processes' locks only)
CanLock(table, p, r, t) ==
    \A q \in Procs \ {p} :
        IF t = "R" THEN table[q][r] # "W" ELSE table[q][r] = "N"

SetLock(table, p, r, t) == [table EXCEPT ![p][r] = t]
DropAll(table, p) == [table EXCEPT ![p] = NoLocks]

Init ==
    /\ lk = [p \in Procs |-> NoLocks]
    /\ fds = [p \in Procs |-> IF p \in Writers THEN 1 ELSE 0]      \* writers keep one descriptor open
    /\ hpc = [h \in Handles |-> "closed"]
    /\ belief = [h \in Handles |-> FALSE]
    /\ hres = [h \in Handles |-> "-"]
    /\ hseen = [h \in Handles |-> -1]
    /\ nops = [h \in Handles |-> 0]
    /\ wst = [w \in Writers |-> "UNLOCKED"]
    /\ wpc = [w \in Writers |-> "idle"]
    /\ fver = 0 /\ writing = FALSE
    /\ last = <<"Init">>

-----------------------------------------------------------------------------
(* sqlittle handle h, process p = ProcOf[h]                                 *)

\* newFilePager: os.Open, then mmap.Open which opens a SECOND descriptor, maps, and closes it again:
\* that close drops every lock the process holds on the file (other handles' locks too).
OsOpen(h) ==
    /\ hpc[h] = "closed"
    /\ fds' = [fds EXCEPT ![ProcOf[h]] = @ + 1]
    /\ hpc' = [hpc EXCEPT ![h] = "opening"]
    /\ last' = <<"OsOpen", h>>
    /\ UNCHANGED <<lk, belief, hres, hseen, nops, wst, wpc, fver, writing>>

MmapOpenClosesSecondFd(h) ==
    /\ hpc[h] = "opening"
    /\ lk' = DropAll(lk, ProcOf[h])
    /\ hpc' = [hpc EXCEPT ![h] = "idle"]
    /\ last' = <<"MmapOpen", h>>
    /\ UNCHANGED <<fds, belief, hres, hseen, nops, wst, wpc, fver, writing>>

\* RLock, first fcntl: read lock on the pending byte (a locked handle refuses to lock again)
LockPendingR(h) ==
    /\ hpc[h] = "idle" /\ nops[h] < MaxOps
    /\ nops' = [nops EXCEPT ![h] = @ + 1]
    /\ hseen' = [hseen EXCEPT ![h] = -1]
    /\ IF belief[h]
         THEN /\ hres' = [hres EXCEPT ![h] = "err"] /\ UNCHANGED <<lk, hpc>>
         ELSE IF CanLock(lk, ProcOf[h], "pend", "R")
           THEN /\ lk' = SetLock(lk, ProcOf[h], "pend", "R")
                /\ hpc' = [hpc EXCEPT ![h] = "rl_pending"]
                /\ hres' = [hres EXCEPT ![h] = "-"]
           ELSE /\ hres' = [hres EXCEPT ![h] = "err"] /\ UNCHANGED <<lk, hpc>>
    /\ last' = <<"LockPendingR", h>>
    /\ UNCHANGED <<fds, belief, wst, wpc, fver, writing>>

\* second fcntl: read lock on the shared range
LockSharedR(h) ==
    /\ hpc[h] = "rl_pending"
    /\ IF CanLock(lk, ProcOf[h], "shrd", "R")
         THEN /\ lk' = SetLock(lk, ProcOf[h], "shrd", "R")
              /\ belief' = [belief EXCEPT ![h] = TRUE]
              /\ hpc' = [hpc EXCEPT ![h] = "rl_got"]
         ELSE /\ hpc' = [hpc EXCEPT ![h] = "rl_failed"] /\ UNCHANGED <<lk, belief>>
    /\ last' = <<"LockSharedR", h>>
    /\ UNCHANGED <<fds, hres, hseen, nops, wst, wpc, fver, writing>>

\* deferred: the pending byte is unlocked whatever happened
UnlockPending(h) ==
    /\ hpc[h] \in {"rl_got", "rl_failed"}
    /\ lk' = SetLock(lk, ProcOf[h], "pend", "N")
    /\ hpc' = [hpc EXCEPT ![h] = IF hpc[h] = "rl_got" THEN "locked" ELSE "idle"]
    /\ hres' = [hres EXCEPT ![h] = IF hpc[h] = "rl_got" THEN "ok" ELSE "err"]
    /\ last' = <<"UnlockPending", h>>
    /\ UNCHANGED <<fds, belief, hseen, nops, wst, wpc, fver, writing>>

\* a page is read inside the transaction (what it sees: the committed version, or garbage if a
\* writer is modifying the file right now)
PageRead(h) ==
    /\ hpc[h] \in {"locked", "callback"}
    /\ hseen' = [hseen EXCEPT ![h] = IF writing THEN -2 ELSE fver]
    /\ last' = <<"PageRead", h>>
    /\ UNCHANGED <<lk, fds, hpc, belief, hres, nops, wst, wpc, fver, writing>>

CallbackEnter(h) ==
    /\ hpc[h] = "locked" /\ hseen[h] # -1
    /\ hpc' = [hpc EXCEPT ![h] = "callback"]
    /\ last' = <<"CallbackEnter", h>>
    /\ UNCHANGED <<lk, fds, belief, hres, hseen, nops, wst, wpc, fver, writing>>

CallbackExit(h) ==
    /\ hpc[h] = "callback"
    /\ hpc' = [hpc EXCEPT ![h] = "locked"]
    /\ last' = <<"CallbackExit", h>>
    /\ UNCHANGED <<lk, fds, belief, hres, hseen, nops, wst, wpc, fver, writing>>

\* RUnlock (deferred in every high level operation: normal return, early stop, error, panic)
RUnlock(h) ==
    /\ hpc[h] = "locked"
    /\ lk' = SetLock(lk, ProcOf[h], "shrd", "N")
    /\ belief' = [belief EXCEPT ![h] = FALSE]
    /\ hpc' = [hpc EXCEPT ![h] = "idle"]
    /\ last' = <<"RUnlock", h>>
    /\ UNCHANGED <<fds, hres, hseen, nops, wst, wpc, fver, writing>>

\* Close: closing the descriptor drops all locks of the process on the file
Close(h) ==
    /\ hpc[h] = "idle"
    /\ fds' = [fds EXCEPT ![ProcOf[h]] = @ - 1]
    /\ lk' = DropAll(lk, ProcOf[h])
    /\ belief' = [belief EXCEPT ![h] = FALSE]
    /\ hpc' = [hpc EXCEPT ![h] = "closed"]
    /\ last' = <<"Close", h>>
    /\ UNCHANGED <<hres, hseen, nops, wst, wpc, fver, writing>>

-----------------------------------------------------------------------------
(* A writing SQLite connection w (its own process), os_unix.c unixLock()    *)

\* UNLOCKED -> SHARED: R on pending, R on shared range, drop pending
WPendR(w) ==
    /\ wst[w] = "UNLOCKED" /\ wpc[w] = "idle" /\ fver < MaxCommits
    /\ IF CanLock(lk, w, "pend", "R")
         THEN lk' = SetLock(lk, w, "pend", "R") /\ wpc' = [wpc EXCEPT ![w] = "sh1"]
         ELSE UNCHANGED <<lk, wpc>>                      \* SQLITE_BUSY
    /\ last' = <<"WPendR", w>>
    /\ UNCHANGED <<fds, hpc, belief, hres, hseen, nops, wst, fver, writing>>
WShrdR(w) ==
    /\ wpc[w] = "sh1"
    /\ IF CanLock(lk, w, "shrd", "R")
         THEN lk' = SetLock(lk, w, "shrd", "R") /\ wpc' = [wpc EXCEPT ![w] = "sh2ok"]
         ELSE wpc' = [wpc EXCEPT ![w] = "sh2fail"] /\ UNCHANGED lk
    /\ last' = <<"WShrdR", w>>
    /\ UNCHANGED <<fds, hpc, belief, hres, hseen, nops, wst, fver, writing>>
WUnpend(w) ==
    /\ wpc[w] \in {"sh2ok", "sh2fail"}
    /\ lk' = SetLock(lk, w, "pend", "N")
    /\ wst' = [wst EXCEPT ![w] = IF wpc[w] = "sh2ok" THEN "SHARED" ELSE "UNLOCKED"]
    /\ wpc' = [wpc EXCEPT ![w] = "idle"]
    /\ last' = <<"WUnpend", w>>
    /\ UNCHANGED <<fds, hpc, belief, hres, hseen, nops, fver, writing>>

\* SHARED -> RESERVED: W on the reserved byte
WReserve(w) ==
    /\ wst[w] = "SHARED" /\ wpc[w] = "idle"
    /\ IF CanLock(lk, w, "resv", "W")
         THEN lk' = SetLock(lk, w, "resv", "W") /\ wst' = [wst EXCEPT ![w] = "RESERVED"]
         ELSE UNCHANGED <<lk, wst>>
    /\ last' = <<"WReserve", w>>
    /\ UNCHANGED <<fds, hpc, belief, hres, hseen, nops, wpc, fver, writing>>

\* RESERVED -> PENDING: W on the pending byte (new readers are kept out from now on)
WPendW(w) ==
    /\ wst[w] = "RESERVED" /\ wpc[w] = "idle"
    /\ IF CanLock(lk, w, "pend", "W")
         THEN lk' = SetLock(lk, w, "pend", "W") /\ wst' = [wst EXCEPT ![w] = "PENDING"]
         ELSE UNCHANGED <<lk, wst>>
    /\ last' = <<"WPendW", w>>
    /\ UNCHANGED <<fds, hpc, belief, hres, hseen, nops, wpc, fver, writing>>

\* PENDING -> EXCLUSIVE: W on the shared range; on failure the connection stays PENDING
WExclusive(w) ==
    /\ wst[w] = "PENDING" /\ wpc[w] = "idle"
    /\ IF CanLock(lk, w, "shrd", "W")
         THEN lk' = SetLock(lk, w, "shrd", "W") /\ wst' = [wst EXCEPT ![w] = "EXCLUSIVE"]
         ELSE UNCHANGED <<lk, wst>>
    /\ last' = <<"WExclusive", w>>
    /\ UNCHANGED <<fds, hpc, belief, hres, hseen, nops, wpc, fver, writing>>

\* EXCLUSIVE: database pages are written, then the commit point, then everything is unlocked
WWrite(w) ==
    /\ wst[w] = "EXCLUSIVE" /\ ~writing /\ wpc[w] = "idle"
    /\ writing' = TRUE
    /\ wpc' = [wpc EXCEPT ![w] = "wrote"]
    /\ last' = <<"WWrite", w>>
    /\ UNCHANGED <<lk, fds, hpc, belief, hres, hseen, nops, wst, fver>>
WCommit(w) ==
    /\ wst[w] = "EXCLUSIVE" /\ wpc[w] = "wrote"
    /\ writing' = FALSE /\ fver' = fver + 1
    /\ wpc' = [wpc EXCEPT ![w] = "committed"]
    /\ last' = <<"WCommit", w>>
    /\ UNCHANGED <<lk, fds, hpc, belief, hres, hseen, nops, wst>>
\* rollback of the pages written so far (from the journal), still EXCLUSIVE
WRollback(w) ==
    /\ wst[w] = "EXCLUSIVE" /\ wpc[w] = "wrote"
    /\ writing' = FALSE
    /\ wpc' = [wpc EXCEPT ![w] = "committed"]
    /\ last' = <<"WRollback", w>>
    /\ UNCHANGED <<lk, fds, hpc, belief, hres, hseen, nops, wst, fver>>
WUnlock(w) ==
    /\ wst[w] # "UNLOCKED" /\ wpc[w] \in {"idle", "committed"}
    /\ lk' = [lk EXCEPT ![w] = NoLocks]
    /\ wst' = [wst EXCEPT ![w] = "UNLOCKED"]
    /\ wpc' = [wpc EXCEPT ![w] = "idle"]
    /\ last' = <<"WUnlock", w>>
    /\ UNCHANGED <<fds, hpc, belief, hres, hseen, nops, fver, writing>>

-----------------------------------------------------------------------------
(* A process that does not follow SQLite's protocol: it write-locks the     *)
(* pending byte or the shared range directly (what fcntl allows anybody).   *)
(* Against such a process a reader's SECOND lock step can fail after its    *)
(* first one succeeded -- which never happens against real SQLite writers.  *)
FLock(f, r) ==
    /\ r \in {"pend", "shrd"} /\ lk[f][r] = "N" /\ CanLock(lk, f, r, "W")
    /\ lk' = SetLock(lk, f, r, "W")
    /\ last' = <<"FLock", f>>
    /\ UNCHANGED <<fds, hpc, belief, hres, hseen, nops, wst, wpc, fver, writing>>
FUnlock(f, r) ==
    /\ r \in {"pend", "shrd"} /\ lk[f][r] = "W"
    /\ lk' = SetLock(lk, f, r, "N")
    /\ last' = <<"FUnlock", f>>
    /\ UNCHANGED <<fds, hpc, belief, hres, hseen, nops, wst, wpc, fver, writing>>

Next ==
    \/ \E f \in Foreign, r \in {"pend", "shrd"} : FLock(f, r) \/ FUnlock(f, r)
    \/ \E h \in Handles :
          OsOpen(h) \/ MmapOpenClosesSecondFd(h) \/ LockPendingR(h) \/ LockSharedR(h) \/ UnlockPending(h)
          \/ PageRead(h) \/ CallbackEnter(h) \/ CallbackExit(h) \/ RUnlock(h) \/ Close(h)
    \/ \E w \in Writers :
          WPendR(w) \/ WShrdR(w) \/ WUnpend(w) \/ WReserve(w) \/ WPendW(w) \/ WExclusive(w)
          \/ WWrite(w) \/ WCommit(w) \/ WRollback(w) \/ WUnlock(w)

Spec == Init /\ [][Next]_vars

-----------------------------------------------------------------------------
InTxn(h) == hpc[h] \in {"locked", "callback"}

\* C06: between a successful RLock and RUnlock (page reads, callbacks) the process holds the shared range
SharedWhileReading == \A h \in Handles : InTxn(h) => lk[ProcOf[h]]["shrd"] = "R"

\* C06/C07: hence no writer is EXCLUSIVE and nothing read is half written
NoWriterWhileReading == \A h \in Handles : InTxn(h) => \A w \in Writers : wst[w] # "EXCLUSIVE"
CommittedOnly == \A h \in Handles : hseen[h] # -2

\* C06: after the operation returned the process holds neither the pending byte nor the shared range,
\* unless another handle of the same process is in the middle of an operation
Released ==
    \A p \in {ProcOf[h] : h \in Handles} :
        (\A h \in Handles : ProcOf[h] = p => hpc[h] \in {"closed", "idle"})
            => (lk[p]["pend"] = "N" /\ lk[p]["shrd"] = "N")

\* C07: a lock attempt succeeds only if no other process holds PENDING or EXCLUSIVE at that moment,
\* and (for separate processes) fails only because of such a writer
YieldToWriters ==
    \A h \in Handles :
        (hpc[h] = "rl_got") => \A w \in Writers : lk[w]["pend"] # "W" /\ lk[w]["shrd"] # "W"

\* the belief of a handle matches the kernel (what breaks when two handles share a process)
BeliefMatchesKernel == \A h \in Handles : (belief[h] /\ hpc[h] # "rl_got") => lk[ProcOf[h]]["shrd"] = "R"

\* writers: SQLite's own invariants (validates the model of the ladder)
WriterLadderOK ==
    \A w \in Writers :
        /\ wst[w] = "EXCLUSIVE" => \A q \in Procs \ {w} : lk[q]["shrd"] = "N"
        /\ wst[w] \in {"RESERVED", "PENDING", "EXCLUSIVE"} => lk[w]["resv"] = "W"
        /\ Cardinality({x \in Writers : wst[x] \in {"RESERVED", "PENDING", "EXCLUSIVE"}}) <= 1
=============================================================================

------------------------------ MODULE MC_Values ------------------------------
(***************************************************************************)
(* Exhaustive check of the algebra of Values.tla over a core grid of       *)
(* values (grid.ndjson, produced by the trusted exact encoder): every      *)
(* triple (a, b, c) x collation x direction is one state.                  *)
(***************************************************************************)
EXTENDS Values, Json, TLC

Grid == ndJsonDeserialize("grid.ndjson")
N == Len(Grid)

VARIABLES i, j, k, coll, desc
vars == <<i, j, k, coll, desc>>

Init == /\ i \in 1..N /\ j \in 1..N /\ k \in 1..N
        /\ coll \in Collations /\ desc \in BOOLEAN
Next == UNCHANGED vars
Spec == Init /\ [][Next]_vars

a == Grid[i]
b == Grid[j]
c == Grid[k]

\* the order is a total preorder
Reflexive  == Cmp(a, a, coll) = 0
AntiSym    == Cmp(a, b, coll) = -Cmp(b, a, coll)
Transitive == (Cmp(a, b, coll) <= 0 /\ Cmp(b, c, coll) <= 0) => Cmp(a, c, coll) <= 0
EqTrans    == (Cmp(a, b, coll) = 0 /\ Cmp(b, c, coll) = 0) => Cmp(a, c, coll) = 0
ClassOrder == ClassRank(a) < ClassRank(b) => Cmp(a, b, coll) = -1

\* key predicates: one and two column keys built from the triple
K1 == <<[v |-> a, coll |-> coll, desc |-> desc]>>
K2 == <<[v |-> a, coll |-> coll, desc |-> desc], [v |-> b, coll |-> "binary", desc |-> ~desc]>>

\* Equals <=> NotLess in both directions (equal length prefixes)
EqConsistent ==
    /\ KeyEquals(K1, <<b>>) <=> (KeyNotLess(K1, <<b>>) /\ KeyNotLess(<<[v |-> b, coll |-> coll, desc |-> desc]>>, <<a>>))
    /\ KeyEquals(K2, <<a, b>>)
    /\ KeyEquals(K1, <<b, c>>) <=> (Cmp(a, b, coll) = 0)
\* DESC is the reversal of ASC
DescReverses ==
    Cmp(a, b, coll) # 0 =>
        (KeyNotLess(<<[v |-> a, coll |-> coll, desc |-> TRUE]>>, <<b>>) <=> ~KeyNotLess(<<[v |-> a, coll |-> coll, desc |-> FALSE]>>, <<b>>))
\* monotone along the index order: the precondition of the binary searches
RecLE(x, y) == IF desc THEN Cmp(y, x, coll) <= 0 ELSE Cmp(x, y, coll) <= 0
Monotone == (KeyNotLess(K1, <<b>>) /\ RecLE(b, c)) => KeyNotLess(K1, <<c>>)
\* a record that ends before the key's column sorts before the key; the empty key matches all
ShortRecord == ~KeyNotLess(K1, <<>>) /\ ~KeyEquals(K2, <<a>>) /\ KeyNotLess(<<>>, <<a>>) /\ KeyEquals(<<>>, <<>>)

=============================================================================

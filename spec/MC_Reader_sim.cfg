SPECIFICATION Spec
CONSTANTS
  MaxPages = 4
  MaxVer = 40
  CacheLimit = 2
  MapFallback = TRUE
INVARIANT Freshness
CHECK_DEADLOCK FALSE

-------------------------------- MODULE BTree --------------------------------
(***************************************************************************)
(* B-tree pages of a SQLite file as an abstract page graph, the            *)
(* declarative meaning of every read operation (Reference), and the        *)
(* traversal algorithms of sqlittle transcribed function by function from  *)
(* db/btree.go, db/low.go and db/payload.go (Run).                         *)
(*                                                                         *)
(* A tree T is  [nodes |-> [page number as string -> Node], ents |-> Seq]  *)
(*   Node  [kind |-> "tl", ents  |-> <<entry ids>>]              table leaf *)
(*         [kind |-> "ti", kids, keys |-> <<rowid ranks>>, right] interior  *)
(*         [kind |-> "il", ents]                                 index leaf *)
(*         [kind |-> "ii", kids, ents, right]      index interior (entries  *)
(*                                                  live in the cells too)  *)
(*   Entry [rowid |-> rank (order-isomorphic image of the int64 rowid),    *)
(*          rec   |-> <<Values>> (index entries; empty for table rows),    *)
(*          ov    |-> <<overflow page numbers>>]                           *)
(*                                                                         *)
(* An operation is a record                                                *)
(*   [op, root, rowid, key, to, stop, fail, pro, lockfail,                 *)
(*    nested, troot, pkcols, pkdef, nolock]                                *)
(* nolock: the operation runs inside an explicit RLock .. RUnlock bracket  *)
(* of the low level API (no lock/unlock events of its own).                *)
(* nested = "rowid" / "pk": every index entry is mapped to its table row   *)
(* (tree troot) the way indexed_select.go does, "" otherwise.              *)
(* stop = k > 0: the row callback answers "done" on its k-th call;         *)
(* fail = j > 0: the j-th page read of the operation fails.                *)
(*                                                                         *)
(* Run returns [ev, out, cbn, err, found, reads]: the pager/callback       *)
(* events in order, the entry ids handed to the callback, the number of    *)
(* callback invocations, the error ("" = nil), the entry a rowid lookup    *)
(* found (0 = none).                                                       *)
(***************************************************************************)
EXTENDS Values, TLC

CONSTANT CacheLimit       \* pages kept by a handle's page cache (100 in db/database.go)

MaxRecursion == 31

NodeAt(T, p) == T.nodes[ToString(p)]
HasNode(T, p) == ToString(p) \in DOMAIN T.nodes

SeqRange(s) == {s[i] : i \in 1..Len(s)}
Take(s, n) == SubSeq(s, 1, Min2(n, Len(s)))
IsPrefixOf(a, b) == Len(a) <= Len(b) /\ a = SubSeq(b, 1, Len(a))

RECURSIVE ConcatAll(_)
ConcatAll(ss) == IF ss = <<>> THEN <<>> ELSE Head(ss) \o ConcatAll(Tail(ss))

-----------------------------------------------------------------------------
(* Reference semantics                                                      *)

\* all entry ids of the subtree rooted at p, in b-tree order
RECURSIVE InOrder(_, _)
InOrder(T, p) ==
    LET n == NodeAt(T, p)
    IN  CASE n.kind \in {"tl", "il"} -> n.ents
          [] n.kind = "ti" ->
                ConcatAll([i \in 1..Len(n.kids) |-> InOrder(T, n.kids[i])]) \o InOrder(T, n.right)
          [] n.kind = "ii" ->
                ConcatAll([i \in 1..Len(n.kids) |-> InOrder(T, n.kids[i]) \o <<n.ents[i]>>]) \o InOrder(T, n.right)

Rec(T, i) == T.ents[i].rec

\* what each operation must deliver to the callback (entry ids, in order)
BaseReference(T, o) ==
    LET all == IF o.op \in {"none", "list"} THEN <<>> ELSE InOrder(T, o.root)
    IN  CASE o.op = "none" -> <<>>        \* schema inspection only (Columns, Schema)
          \* Tables() / Indexes(): the sqlite_master rows of that type, in sqlite_master order
          [] o.op = "list" -> SelectSeq(InOrder(T, 1), LAMBDA i : T.ents[i].mtype = o.mtype)
          [] o.op \in {"table_scan", "index_scan"} -> all
          [] o.op \in {"rowid", "pk_rowid"} -> SelectSeq(all, LAMBDA i : NumCmp(T.ents[i].rowid, o.rowid) = 0)
          [] o.op = "scan_min" ->
                \* the suffix starting at the first entry not less than the key
                LET hit == {j \in 1..Len(all) : KeyNotLess(o.key, Rec(T, all[j]))}
                IN  IF hit = {} THEN <<>>
                    ELSE SubSeq(all, CHOOSE j \in hit : \A m \in hit : j <= m, Len(all))
          [] o.op = "scan_range" ->
                SelectSeq(all, LAMBDA i : KeyNotLess(o.key, Rec(T, i)) /\ ~KeyNotLess(o.to, Rec(T, i)))
          [] o.op = "scan_eq" ->
                SelectSeq(all, LAMBDA i : KeyEquals(o.key, Rec(T, i)))

\* the table row an index entry denotes (high level indexed selects): by rowid, or for a
\* WITHOUT ROWID table by the primary key columns held in the index entry; 0 = no such row
TableRowOf(T, o, i) ==
    LET rows == InOrder(T, o.troot)
        hit  == IF o.nested = "rowid"
                  THEN {j \in 1..Len(rows) : T.ents[i].rowid.k = "num" /\ NumCmp(T.ents[rows[j]].rowid, T.ents[i].rowid) = 0}
                  ELSE LET key == [j \in 1..Len(o.pkcols) |->
                                     [v |-> Rec(T, i)[o.pkcols[j]], coll |-> o.pkdef[j].coll, desc |-> o.pkdef[j].desc]]
                       IN  {j \in 1..Len(rows) : KeyEquals(key, Rec(T, rows[j]))}
    IN  IF hit = {} THEN 0 ELSE rows[CHOOSE j \in hit : \A m \in hit : j <= m]

Reference(T, o) ==
    LET base == BaseReference(T, o)
    IN  IF o.nested = "" THEN base ELSE [j \in 1..Len(base) |-> TableRowOf(T, o, base[j])]

\* Well-formedness of an index tree under the order of key definition `def`
\* (a key whose values are ignored: only coll/desc matter): entries sorted.
RecLE(def, r1, r2) ==
    KeyCmp([i \in 1..Min2(Len(def), Len(r1)) |-> [v |-> r1[i], coll |-> def[i].coll, desc |-> def[i].desc]], r2) <= 0

SortedIndex(T, root, def) ==
    LET all == InOrder(T, root)
    IN  \A j \in 1..(Len(all) - 1) : RecLE(def, Rec(T, all[j]), Rec(T, all[j + 1]))

SortedTable(T, root) ==
    LET all == InOrder(T, root)
    IN  \A j \in 1..(Len(all) - 1) : NumCmp(T.ents[all[j]].rowid, T.ents[all[j + 1]].rowid) < 0

\* separators of table interior pages bound their subtrees
RECURSIVE SeparatorsOK(_, _)
SeparatorsOK(T, p) ==
    LET n == NodeAt(T, p)
    IN  IF n.kind # "ti" THEN TRUE
        ELSE /\ \A i \in 1..Len(n.kids) :
                    /\ \A e \in SeqRange(InOrder(T, n.kids[i])) : NumCmp(T.ents[e].rowid, n.keys[i]) <= 0
                    /\ i > 1 => \A e \in SeqRange(InOrder(T, n.kids[i])) : NumCmp(T.ents[e].rowid, n.keys[i - 1]) > 0
                    /\ SeparatorsOK(T, n.kids[i])
             /\ Len(n.keys) > 0 =>
                    \A e \in SeqRange(InOrder(T, n.right)) : NumCmp(T.ents[e].rowid, n.keys[Len(n.keys)]) > 0
             /\ SeparatorsOK(T, n.right)

-----------------------------------------------------------------------------
(* The implementation, transcribed.  State threaded through the traversal:  *)
(*   ev     events so far        cache  pages in the handle's page cache    *)
(*   reads  page reads so far    cbn    callback invocations so far         *)
(*   out    entries delivered    done   callback said stop                  *)
(*   err    "" or the error      serr   error met by a binary-search probe  *)
(*   found  rowid lookup result                                             *)

S0(cache) == [ev |-> <<>>, cache |-> cache, reads |-> 0, cbn |-> 0, out |-> <<>>, done |-> FALSE,
              err |-> "", serr |-> "", found |-> 0]

Run(T, o, cache0) ==
    LET Halt(S) == S.done \/ S.err # ""

        \* pager.page(): one read event; the fail-th read of the operation fails
        Read(S, p) ==
            LET n == S.reads + 1
            IN  IF o.fail = n
                  THEN [S EXCEPT !.reads = n, !.ev = Append(@, <<"p", p>>), !.err = "io"]
                  ELSE [S EXCEPT !.reads = n, !.ev = Append(@, <<"P", p>>)]

        \* Database.openPage(): cache hit, or read + parse + cache (dropped wholesale when full)
        Open(S, p) ==
            IF p \in S.cache THEN S
            ELSE LET S1 == Read(S, p)
                 IN  IF S1.err # "" THEN S1
                     ELSE IF ~HasNode(T, p) THEN [S1 EXCEPT !.err = "unsupported page"]
                     ELSE [S1 EXCEPT !.cache = IF Cardinality(@) >= CacheLimit THEN {p} ELSE @ \cup {p}]

        \* addOverflow(): walk the chain, stop at the first failing read
        RECURSIVE ReadChain(_, _)
        ReadChain(S, ps) ==
            IF ps = <<>> \/ S.err # "" THEN S ELSE ReadChain(Read(S, Head(ps)), Tail(ps))

        \* the caller's row callback, behind the adapters of low.go; i = entry delivered
        UserCB(S, i) ==
            LET n == S.cbn + 1
            IN  [S EXCEPT !.cbn = n, !.ev = Append(@, <<"C", n>>), !.out = Append(@, i),
                          !.done = (o.stop > 0 /\ n >= o.stop)]

        EmitTable(S, i) == LET S1 == ReadChain(S, T.ents[i].ov) IN IF S1.err # "" THEN S1 ELSE UserCB(S1, i)

        \* ---- table b-tree: Iter (btree.go tableLeaf.Iter, tableInterior.Iter/cellIter)
        RECURSIVE TLeafFrom(_, _, _), TIter(_, _, _), TKidsFrom(_, _, _, _)
        TLeafFrom(S, es, j) ==
            IF j > Len(es) \/ Halt(S) THEN S ELSE TLeafFrom(EmitTable(S, es[j]), es, j + 1)
        TIter(S, p, r) ==          \* openTable(p) followed by page.Iter(r)
            LET S1 == Open(S, p)
            IN  IF S1.err # "" THEN S1
                ELSE LET n == NodeAt(T, p)
                     IN  CASE n.kind = "tl" -> TLeafFrom(S1, n.ents, 1)
                           [] n.kind = "ti" ->
                                IF r = 0 THEN [S1 EXCEPT !.err = "tree is too deep"]
                                ELSE TKidsFrom(S1, n.kids \o <<n.right>>, 1, r)
                           [] OTHER -> [S1 EXCEPT !.err = "found an index, expected a table"]
        TKidsFrom(S, kids, j, r) ==
            IF j > Len(kids) \/ Halt(S) THEN S ELSE TKidsFrom(TIter(S, kids[j], r - 1), kids, j + 1, r)

        \* ---- table b-tree: IterMin as used by Table.Rowid (its callback always answers done)
        RECURSIVE TMin(_, _, _, _), TMinKids(_, _, _, _, _)
        TMin(S, p, r, rid) ==
            LET S1 == Open(S, p)
            IN  IF S1.err # "" THEN S1
                ELSE LET n == NodeAt(T, p)
                     IN  CASE n.kind = "tl" ->
                                LET ge == {j \in 1..Len(n.ents) : NumCmp(T.ents[n.ents[j]].rowid, rid) >= 0}
                                IN  IF ge = {} THEN S1
                                    ELSE LET j == CHOOSE x \in ge : \A m \in ge : x <= m
                                             e == n.ents[j]
                                         IN  [S1 EXCEPT !.done = TRUE,
                                                        !.found = IF NumCmp(T.ents[e].rowid, rid) = 0 THEN e ELSE 0]
                           [] n.kind = "ti" ->
                                IF r = 0 THEN [S1 EXCEPT !.err = "tree is too deep"]
                                ELSE LET ge == {j \in 1..Len(n.keys) : NumCmp(n.keys[j], rid) >= 0}
                                         first == IF ge = {} THEN Len(n.keys) + 1
                                                  ELSE CHOOSE x \in ge : \A m \in ge : x <= m
                                     IN  TMinKids(S1, n.kids \o <<n.right>>, first, r, rid)
                           [] OTHER -> [S1 EXCEPT !.err = "found an index, expected a table"]
        TMinKids(S, kids, j, r, rid) ==
            IF j > Len(kids) \/ Halt(S) THEN S ELSE TMinKids(TMin(S, kids[j], r - 1, rid), kids, j + 1, r, rid)

        \* Table.Rowid(): search, then load the payload of the row that was found
        Lookup(S, root, rid) ==
            LET S1 == TMin([S EXCEPT !.found = 0], root, MaxRecursion, rid)
                S2 == [S1 EXCEPT !.done = FALSE]
            IN  IF S2.err # "" \/ S2.found = 0 THEN S2 ELSE ReadChain(S2, T.ents[S2.found].ov)

        \* ---- index b-tree.  c = [key, to, mode] is the callback the adapters of low.go build:
        \*   "all"   Scan / ScanMin: every record goes to the next stage
        \*   "eq"    ScanEq: stop at the first record not equal to the key
        \*   "range" ScanRange: stop at the first record not less than `to`
        \*   "first" the nested ScanEq of indexed_select.go on a WITHOUT ROWID table: remember the
        \*           first equal record and stop
        \* The next stage (o.op) is the user callback, or the nested table lookup of indexed_select.go.
        RECURSIVE RecCB(_, _, _), ILeafFrom(_, _, _, _), IIter(_, _, _, _), ICellsFrom(_, _, _, _, _),
                  BinSearch(_, _, _, _, _), IMin(_, _, _, _), IMinCells(_, _, _, _, _, _)

        EmitIndex(S, i, c) ==
            LET S1 == ReadChain(S, T.ents[i].ov) IN IF S1.err # "" THEN S1 ELSE RecCB(S1, i, c)

        \* index entry -> table row (indexed_select.go); an error or a missing row ends the operation
        Nested(S, i) ==
            IF o.nested = "rowid"
              THEN IF T.ents[i].rowid.k # "num" THEN [S EXCEPT !.err = "invalid rowid pointer in index"]
                   ELSE LET S1 == Lookup(S, o.troot, T.ents[i].rowid)
                        IN  IF S1.err # "" THEN S1
                            ELSE IF S1.found = 0 THEN [S1 EXCEPT !.err = "index entry without table row"]
                            ELSE UserCB(S1, S1.found)
            ELSE \* WITHOUT ROWID: key from the entry's primary key columns, first equal row of the table
                 IF \E j \in 1..Len(o.pkcols) : o.pkcols[j] > Len(Rec(T, i))
                   THEN [S EXCEPT !.err = "short index entry"]
                 ELSE
                 LET key == [j \in 1..Len(o.pkcols) |->
                                [v |-> Rec(T, i)[o.pkcols[j]], coll |-> o.pkdef[j].coll, desc |-> o.pkdef[j].desc]]
                     S1  == IMin([S EXCEPT !.found = 0], o.troot, MaxRecursion, [key |-> key, to |-> <<>>, mode |-> "first"])
                     S2  == [S1 EXCEPT !.done = FALSE]
                 IN  IF S2.err # "" THEN S2
                     ELSE IF S2.found = 0 THEN [S2 EXCEPT !.err = "index entry without table row"]
                     ELSE UserCB(S2, S2.found)

        NextStage(S, i) == IF o.nested = "" THEN UserCB(S, i) ELSE Nested(S, i)

        RecCB(S, i, c) ==
            CASE c.mode = "eq" ->
                    IF ~KeyEquals(c.key, Rec(T, i)) THEN [S EXCEPT !.done = TRUE] ELSE NextStage(S, i)
              [] c.mode = "range" ->
                    IF KeyNotLess(c.to, Rec(T, i)) THEN [S EXCEPT !.done = TRUE] ELSE NextStage(S, i)
              [] c.mode = "first" ->
                    IF ~KeyEquals(c.key, Rec(T, i)) THEN [S EXCEPT !.done = TRUE]
                    ELSE [S EXCEPT !.done = TRUE, !.found = i]
              [] OTHER -> NextStage(S, i)

        \* Iter
        ILeafFrom(S, es, j, c) ==
            IF j > Len(es) \/ Halt(S) THEN S ELSE ILeafFrom(EmitIndex(S, es[j], c), es, j + 1, c)
        IIter(S, p, r, c) ==
            LET S1 == Open(S, p)
            IN  IF S1.err # "" THEN S1
                ELSE LET n == NodeAt(T, p)
                     IN  CASE n.kind = "il" -> ILeafFrom(S1, n.ents, 1, c)
                           [] n.kind = "ii" ->
                                IF r = 0 THEN [S1 EXCEPT !.err = "tree is too deep"]
                                ELSE LET S2 == ICellsFrom(S1, n, 1, r, c)
                                     IN  IF Halt(S2) THEN S2 ELSE IIter(S2, n.right, r - 1, c)
                           [] OTHER -> [S1 EXCEPT !.err = "found a table, expected an index"]
        ICellsFrom(S, n, j, r, c) ==     \* child j, then the entry stored in cell j
            IF j > Len(n.kids) \/ Halt(S) THEN S
            ELSE LET S1 == IIter(S, n.kids[j], r - 1, c)
                 IN  IF Halt(S1) THEN S1 ELSE ICellsFrom(EmitIndex(S1, n.ents[j], c), n, j + 1, r, c)

        \* IterMin.  sort.Search probes load the probed cell's overflow chain; a failing probe
        \* answers true, the search goes on, the error is reported afterwards.
        Probe(S, i, c) ==
            LET S1 == ReadChain(S, T.ents[i].ov)
            IN  IF S1.err # "" THEN [S |-> [S1 EXCEPT !.err = "", !.serr = S1.err], r |-> TRUE]
                ELSE [S |-> S1, r |-> KeyNotLess(c.key, Rec(T, i))]
        BinSearch(S, es, lo, hi, c) ==      \* sort.Search: smallest index in [lo, hi) whose probe is true
            IF lo >= hi THEN [S |-> S, n |-> lo]
            ELSE LET h  == (lo + hi) \div 2
                     pr == Probe(S, es[h + 1], c)
                 IN  IF pr.r THEN BinSearch(pr.S, es, lo, h, c) ELSE BinSearch(pr.S, es, h + 1, hi, c)

        IMin(S, p, r, c) ==
            LET S1 == Open(S, p)
            IN  IF S1.err # "" THEN S1
                ELSE LET n == NodeAt(T, p)
                     IN  CASE n.kind = "il" ->
                                LET bs == BinSearch([S1 EXCEPT !.serr = ""], n.ents, 0, Len(n.ents), c)
                                IN  IF bs.S.serr # "" THEN [bs.S EXCEPT !.err = bs.S.serr]
                                    ELSE ILeafFrom(bs.S, n.ents, bs.n + 1, c)
                           [] n.kind = "ii" ->
                                IF r = 0 THEN [S1 EXCEPT !.err = "tree is too deep"]
                                ELSE LET bs == BinSearch([S1 EXCEPT !.serr = ""], n.ents, 0, Len(n.ents), c)
                                     IN  IF bs.S.serr # "" THEN [bs.S EXCEPT !.err = bs.S.serr]
                                         ELSE IMinCells(bs.S, n, bs.n + 1, r, FALSE, c)
                           [] OTHER -> [S1 EXCEPT !.err = "found a table, expected an index"]
        IMinCells(S, n, j, r, useIter, c) ==
            IF Halt(S) THEN S
            ELSE IF j > Len(n.kids)
              THEN IF useIter THEN IIter(S, n.right, r - 1, c) ELSE IMin(S, n.right, r - 1, c)
            ELSE LET S1 == IF useIter THEN IIter(S, n.kids[j], r - 1, c) ELSE IMin(S, n.kids[j], r - 1, c)
                 IN  IF Halt(S1) THEN S1
                     ELSE IMinCells(EmitIndex(S1, n.ents[j], c), n, j + 1, r, TRUE, c)

        \* sqlite_master rows: the walk of Database.master() loads every row's payload, no user callback
        RECURSIVE MLeafFrom(_, _, _), MIter(_, _, _), MKidsFrom(_, _, _, _)
        MLeafFrom(S, es, j) ==
            IF j > Len(es) \/ Halt(S) THEN S ELSE MLeafFrom(ReadChain(S, T.ents[es[j]].ov), es, j + 1)
        MIter(S, p, r) ==
            LET S1 == Open(S, p)
            IN  IF S1.err # "" THEN S1
                ELSE LET n == NodeAt(T, p)
                     IN  CASE n.kind = "tl" -> MLeafFrom(S1, n.ents, 1)
                           [] n.kind = "ti" ->
                                IF r = 0 THEN [S1 EXCEPT !.err = "tree is too deep"]
                                ELSE MKidsFrom(S1, n.kids \o <<n.right>>, 1, r)
                           [] OTHER -> [S1 EXCEPT !.err = "found an index, expected a table"]
        MKidsFrom(S, kids, j, r) ==
            IF j > Len(kids) \/ Halt(S) THEN S ELSE MKidsFrom(MIter(S, kids[j], r - 1), kids, j + 1, r)

        Ctx(mode) == [key |-> o.key, to |-> o.to, mode |-> mode]
        Body(S) ==
            CASE o.op \in {"none", "list"} -> S
              [] o.op = "table_scan" -> TIter(S, o.root, MaxRecursion)
              [] o.op = "rowid" -> Lookup(S, o.root, o.rowid)
              [] o.op = "pk_rowid" ->        \* PKSelect on an INTEGER PRIMARY KEY table: callback iff found
                    LET S1 == Lookup(S, o.root, o.rowid)
                    IN  IF S1.err # "" \/ S1.found = 0 THEN S1 ELSE UserCB(S1, S1.found)
              [] o.op = "index_scan" -> IIter(S, o.root, MaxRecursion, Ctx("all"))
              [] o.op = "scan_min"   -> IMin(S, o.root, MaxRecursion, Ctx("all"))
              [] o.op = "scan_range" -> IMin(S, o.root, MaxRecursion, Ctx("range"))
              [] o.op = "scan_eq"    -> IMin(S, o.root, MaxRecursion, Ctx("eq"))

        \* prologue of an operation on a handle (o.pro):
        \*   "none"  traversal only (MC)
        \*   "hdr"   RLock, re-read of the 100 header bytes (handle marked dirty by RLock), schema cached
        \*   "low"   RLock, header, walk of sqlite_master (fresh handle: schema not cached yet)
        \* o.lockfail: the lock cannot be taken -> error before any read.  Always unlocked at the end.
        start == S0(cache0)
        final ==
            IF o.pro = "none" THEN Body(start)
            ELSE IF o.lockfail THEN [start EXCEPT !.ev = <<<<"l", 0>>>>, !.err = "busy"]
            ELSE LET S1 == Read([start EXCEPT !.ev = IF o.nolock THEN <<>> ELSE <<<<"L", 0>>>>], 1)
                     S2 == IF S1.err # "" \/ o.pro = "hdr" THEN S1
                           ELSE [MIter(S1, 1, MaxRecursion) EXCEPT !.done = FALSE]
                     S3 == IF S2.err # "" THEN S2 ELSE Body(S2)
                 IN  IF o.nolock THEN S3 ELSE [S3 EXCEPT !.ev = Append(@, <<"U", 0>>)]
    IN  [ev |-> final.ev, out |-> final.out, cbn |-> final.cbn, err |-> final.err,
         found |-> IF final.err = "" THEN final.found ELSE 0, reads |-> final.reads, cache |-> final.cache]

-----------------------------------------------------------------------------
(* The properties, as predicates over an operation and an outcome           *)
(* R = [out, cbn, err, found] -- either the outcome Run computes (design)   *)
(* or the outcome recorded from the real code (trace validation).           *)

\* C01 / C02 / C13 / C04 / C03: no stop, no fault
Complete(T, o, R) ==
    (o.stop = 0 /\ o.fail = 0 /\ ~o.lockfail) =>
        /\ R.err = ""
        /\ IF o.op = "rowid"
             THEN LET ref == Reference(T, o)
                  IN  IF ref = <<>> THEN R.found = 0 ELSE R.found = ref[1]
             ELSE R.out = Reference(T, o)
        /\ \A j \in 1..Len(R.out) : R.out[j] # 0

\* C17: stopping after k rows yields exactly the first k, no further call, no error
StopExact(T, o, R) ==
    (o.stop > 0 /\ o.fail = 0 /\ ~o.lockfail /\ o.op # "rowid") =>
        LET ref == Reference(T, o)
        IN  /\ R.err = ""
            /\ R.out = Take(ref, o.stop)
            /\ R.cbn = Min2(o.stop, Len(ref))

\* C12: a failing read is reported, what was delivered is a correct prefix
FaultReported(T, o, R, fired) ==
    (o.fail > 0 /\ fired) =>
        /\ R.err # ""
        /\ o.op # "rowid" => IsPrefixOf(R.out, IF o.stop > 0 THEN Take(Reference(T, o), o.stop) ELSE Reference(T, o))
        /\ o.op = "rowid" => R.found = 0

=============================================================================

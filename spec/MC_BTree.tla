------------------------------ MODULE MC_BTree ------------------------------
(***************************************************************************)
(* Exhaustive check of the traversal algorithms of BTree.tla against the   *)
(* declarative Reference on ALL small well-formed trees:                   *)
(*   shapes of depth 1..MaxDepth, interior pages with 1..MaxKids children  *)
(*   (0..MaxKids-1 cells + right-most pointer), leaves with 1..MaxLeaf     *)
(*   cells (an empty root leaf too), entries with and without overflow     *)
(*   pages, duplicate patterns for index keys, exact and stale separators  *)
(*   for table trees;  every operation, every search key / rowid of the    *)
(*   key grid (present, absent, below, above), every stop position k and   *)
(*   every fault position j.  One state per case.                          *)
(***************************************************************************)
EXTENDS BTree, Sequences

CONSTANTS MaxDepth, MaxKids, MaxKidsDeep, MaxLeaf,
          Focus    \* which slice of the case space: "all" | "scan" | "rowid" | "range" | "stop" | "fault"

-----------------------------------------------------------------------------
\* shapes as nested records
RECURSIVE Shapes(_, _)
Shapes(d, kmax) ==
    IF d = 1 THEN {[k |-> "L", n |-> n] : n \in 1..MaxLeaf}
    ELSE {[k |-> "I", kids |-> ks] : ks \in UNION {[1..c -> Shapes(d - 1, kmax)] : c \in 1..kmax}}

AllShapes ==
    {[k |-> "L", n |-> 0]} \cup Shapes(1, MaxKids) \cup
    (IF MaxDepth >= 2 THEN Shapes(2, MaxKids) ELSE {}) \cup
    (IF MaxDepth >= 3 THEN Shapes(3, MaxKidsDeep) ELSE {})

RECURSIVE NatBits(_)
NatBits(n) == IF n = 0 THEN <<>> ELSE NatBits(n \div 2) \o <<n % 2>>
StripT(b) == LET ones == {i \in 1..Len(b) : b[i] = 1}
             IN  IF ones = {} THEN <<>> ELSE SubSeq(b, 1, CHOOSE j \in ones : \A m \in ones : m <= j)
IntVal(n) == IF n = 0 THEN [k |-> "num", s |-> 0, top |-> 0, bits |-> <<>>]
             ELSE [k |-> "num", s |-> 1, top |-> Len(NatBits(n)), bits |-> StripT(NatBits(n))]

\* number of entries in the subtree (index trees keep one entry per interior cell)
RECURSIVE Count(_, _)
Count(sh, isIndex) ==
    IF sh.k = "L" THEN sh.n
    ELSE LET c == Len(sh.kids)
             RECURSIVE Sum(_)
             Sum(j) == IF j = 0 THEN 0 ELSE Sum(j - 1) + Count(sh.kids[j], isIndex)
         IN  Sum(c) + (IF isIndex THEN c - 1 ELSE 0)
RECURSIVE Pages(_)
Pages(sh) == IF sh.k = "L" THEN 1
             ELSE LET RECURSIVE Sum(_)
                      Sum(j) == IF j = 0 THEN 0 ELSE Sum(j - 1) + Pages(sh.kids[j])
                  IN  1 + Sum(Len(sh.kids))

\* Build the page graph: pages numbered in preorder from `page`, entries in b-tree order from `ent`+1.
\* Result: nodes (function on page-number strings) and the largest entry id of each subtree.
RECURSIVE Build(_, _, _, _, _)
Build(sh, page, ent, isIndex, stale) ==
    IF sh.k = "L"
      THEN [nodes |-> (ToString(page) :> [kind |-> IF isIndex THEN "il" ELSE "tl",
                                          ents |-> [i \in 1..sh.n |-> ent + i]]),
            last |-> ent + sh.n]
    ELSE LET c == Len(sh.kids)
             \* first page / entry offset of child j
             RECURSIVE PageOf(_), EntOf(_)
             PageOf(j) == IF j = 1 THEN page + 1 ELSE PageOf(j - 1) + Pages(sh.kids[j - 1])
             EntOf(j) == IF j = 1 THEN ent
                         ELSE EntOf(j - 1) + Count(sh.kids[j - 1], isIndex) + (IF isIndex THEN 1 ELSE 0)
             sub == [j \in 1..c |-> Build(sh.kids[j], PageOf(j), EntOf(j), isIndex, stale)]
             RECURSIVE Merge(_)
             Merge(j) == IF j = 0 THEN <<>> ELSE Merge(j - 1) @@ sub[j].nodes
             me == IF isIndex
                     THEN [kind |-> "ii", kids |-> [j \in 1..(c - 1) |-> PageOf(j)],
                           ents |-> [j \in 1..(c - 1) |-> sub[j].last + 1], right |-> PageOf(c)]
                     ELSE [kind |-> "ti", kids |-> [j \in 1..(c - 1) |-> PageOf(j)],
                           \* separator: largest rowid of the child (rowid = 2 * entry id), or a
                           \* stale one left behind by a delete (still below the next child)
                           keys |-> [j \in 1..(c - 1) |-> IntVal(2 * sub[j].last + (IF stale THEN 1 ELSE 0))],
                           right |-> PageOf(c)]
         IN  [nodes |-> (ToString(page) :> me) @@ Merge(c), last |-> sub[c].last]

KeyOf(pattern, i) ==
    CASE pattern = "distinct" -> i
      [] pattern = "pairs"    -> (i + 1) \div 2
      [] pattern = "same"     -> 1
      [] pattern = "triples"  -> (i + 2) \div 3
Patterns == {"distinct", "pairs", "same", "triples"}

\* For an index tree the table it indexes is added too: a two-level table tree rooted at page 100 whose row j
\* (entry n + j, rowid j) is the row index entry j points to -- so that the nested lookups of the high level indexed
\* selects (indexed_select.go) can be run on the same case.  Row TableGap (if any) is missing: a dangling index entry.
TableRoot == 100
Tree(sh, isIndex, stale, pattern, ovf) ==
    LET n == Count(sh, isIndex)
        b == Build(sh, 2, 0, isIndex, stale)
        half == (n + 1) \div 2
        tnodes == IF ~isIndex \/ n = 0 THEN <<>>
                  ELSE (ToString(100) :> [kind |-> "ti", kids |-> <<101>>, keys |-> <<IntVal(half)>>, right |-> 102])
                       @@ (ToString(101) :> [kind |-> "tl", ents |-> [j \in 1..half |-> n + j]])
                       @@ (ToString(102) :> [kind |-> "tl", ents |-> [j \in 1..(n - half) |-> n + half + j]])
    IN  [nodes |-> b.nodes @@ tnodes,
         ents |-> [i \in 1..(IF isIndex THEN 2 * n ELSE n) |->
                    IF i <= n
                      THEN [rowid |-> IF isIndex THEN IntVal(i) ELSE IntVal(2 * i),
                            rec |-> IF isIndex THEN <<IntVal(KeyOf(pattern, i)), IntVal(i)>> ELSE <<>>,
                            mtype |-> "",
                            ov |-> IF ovf /\ i % 2 = 1 THEN <<1000 + i>> ELSE IF ovf /\ i % 4 = 0 THEN <<1000 + i, 2000 + i>> ELSE <<>>]
                      ELSE [rowid |-> IntVal(i - n), rec |-> <<>>, mtype |-> "",
                            ov |-> IF ovf /\ i % 3 = 0 THEN <<3000 + i>> ELSE <<>>]]]

Base0 == [op |-> "", root |-> 2, rowid |-> IntVal(0), key |-> <<>>, to |-> <<>>, stop |-> 0, fail |-> 0,
          pro |-> "none", lockfail |-> FALSE, nested |-> "", troot |-> 0, pkcols |-> <<>>, pkdef |-> <<>>, nolock |-> FALSE, mtype |-> ""]

K1(v) == <<[v |-> IntVal(v), coll |-> "binary", desc |-> FALSE]>>
K2(v, w) == <<[v |-> IntVal(v), coll |-> "binary", desc |-> FALSE], [v |-> IntVal(w), coll |-> "binary", desc |-> FALSE]>>

-----------------------------------------------------------------------------
VARIABLES sh, isIndex, stale, pattern, ovf, o
vars == <<sh, isIndex, stale, pattern, ovf, o>>

NEnt == Count(sh, isIndex)
MaxReads == Pages(sh) + 5 * NEnt + 5     \* upper bound on page reads of one operation (incl. nested lookups)

\* the operations of one slice of the case space, for a tree of the given shape
OpsFor(shape, idx, pat) ==
    LET n == Count(shape, idx)
        reads == Pages(shape) + 2 * n + 2
        kmax == KeyOf(pat, n) + 1
        base == Base0
        keys == {<<>>} \cup {K1(v) : v \in 0..kmax} \cup {K2(v, w) : v \in 1..Min2(kmax, 2), w \in {0, 2, n + 1}}
        \* K = stop positions, J = fault positions
        Scans(K, J) ==
            IF ~idx THEN {[base EXCEPT !.op = "table_scan", !.stop = k, !.fail = j] : k \in K, j \in J}
            ELSE {[base EXCEPT !.op = "index_scan", !.stop = k, !.fail = j] : k \in K, j \in J}
        Rowids(J) ==
            IF idx THEN {}
            ELSE {[base EXCEPT !.op = "rowid", !.rowid = IntVal(r), !.fail = j] : r \in 0..(2 * n + 2), j \in J}
        Ranges(K, K2s, J) ==
            IF ~idx THEN {}
            ELSE {[base EXCEPT !.op = "scan_min", !.key = key, !.stop = k, !.fail = j] : key \in keys, k \in K, j \in J}
                 \cup {[base EXCEPT !.op = "scan_eq", !.key = key, !.stop = k, !.fail = j] : key \in keys, k \in K2s, j \in J}
                 \cup {[base EXCEPT !.op = "scan_range", !.key = K1(v), !.to = K1(w), !.stop = k, !.fail = j] :
                          v \in 0..kmax, w \in 0..kmax, k \in K2s, j \in J \cap {0, 2, 3}}
        Nested(K, J) ==
            IF ~idx \/ n = 0 THEN {}
            ELSE {[base EXCEPT !.op = "index_scan", !.nested = "rowid", !.troot = TableRoot, !.stop = k, !.fail = j] : k \in K, j \in J}
                 \cup {[base EXCEPT !.op = "scan_eq", !.nested = "rowid", !.troot = TableRoot, !.key = key, !.fail = j] : key \in keys, j \in J}
    IN  CASE Focus = "scan"  -> Scans({0}, {0})
          [] Focus = "rowid" -> Rowids({0})
          [] Focus = "range" -> Ranges({0}, {0}, {0})
          [] Focus = "stop"  -> Scans(1..n, {0}) \cup Ranges(1..n, {1, 2}, {0})
          [] Focus = "fault" -> Scans(0..n, 1..reads) \cup Rowids(1..reads) \cup Ranges({0, 1, 2}, {0, 1}, 1..Min2(reads, 8))
                                \cup Nested({0, 1}, 1..Min2(2 * reads, 14))
          \* IndexedSelect / IndexedSelectEq: every index entry is mapped to its table row by a nested rowid lookup
          [] Focus = "nested" -> Nested(0..n, {0})
          [] Focus = "all"   -> Scans(0..n, 0..reads) \cup Rowids(0..reads) \cup Ranges({0, 1, 2}, {0, 1}, 0..Min2(reads, 8))

\* two levels so that TLC's workers share the cases: initial states pick the tree, one step picks the operation
Init ==
    /\ sh \in AllShapes
    /\ isIndex \in BOOLEAN
    /\ stale \in (IF isIndex THEN {FALSE} ELSE BOOLEAN)
    /\ pattern \in (IF isIndex THEN Patterns ELSE {"distinct"})
    /\ ovf \in BOOLEAN
    /\ o = Base0
Next ==
    /\ o.op = ""
    /\ o' \in OpsFor(sh, isIndex, pattern)
    /\ UNCHANGED <<sh, isIndex, stale, pattern, ovf>>
Spec == Init /\ [][Next]_vars

\* the generated trees are well formed (guards the generator, and hence vacuity); evaluated once per
\* tree, in the slice that has exactly one operation per tree
WellFormed(T) ==
    IF isIndex THEN SortedIndex(T, 2, K2(0, 0))
    ELSE SortedTable(T, 2) /\ SeparatorsOK(T, 2)

\* every callback event is numbered consecutively and nothing follows a "done" or an error
EventsSane(R) ==
    /\ R.cbn = Len(R.out)
    /\ R.reads <= MaxReads
    /\ (o.stop > 0 /\ R.cbn = o.stop /\ o.op # "rowid") => R.ev[Len(R.ev)] = <<"C", o.stop>>

\* the design satisfies the properties on every small tree (one evaluation of the tree and of the
\* run per state: LET values are computed once)
DesignOK ==
    o.op # "" =>
        LET T == Tree(sh, isIndex, stale, pattern, ovf)
            R == Run(T, o, {})
            fired == \E i \in 1..Len(R.ev) : R.ev[i][1] = "p"
        IN  /\ Complete(T, o, R)                  \* C01 C02 C03 C04 C13: refines the Reference
            /\ StopExact(T, o, R)                 \* C17
            /\ FaultReported(T, o, R, fired)      \* C12
            /\ EventsSane(R)
            /\ Focus = "scan" => WellFormed(T)
=============================================================================

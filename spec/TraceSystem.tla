----------------------------- MODULE TraceSystem -----------------------------
(***************************************************************************)
(* Trace validation for C20.  system.ndjson, one line per operation run by *)
(* a goroutine on its own handle while other goroutines ran theirs:        *)
(*   mode   "gated"  : a TLC-generated interleaving of single steps        *)
(*                     (System.tla's `sched`) replayed with gates          *)
(*          "free"   : free-running under the race detector build          *)
(*   g, key which goroutine, which operation                               *)
(*   equal  the result equals the operation's solo result                  *)
(*   races  data race reports of the run this operation belongs to         *)
(* System.tla's Independence says: equal, always; NoSharedWrites: no race. *)
(***************************************************************************)
EXTENDS Integers, Sequences, Json, TLC

Trace == ndJsonDeserialize("system.ndjson")
VARIABLES l, bad
vars == <<l, bad>>
Init == l = 1 /\ bad = <<>>
Step ==
    /\ l <= Len(Trace)
    /\ LET e == Trace[l]
           f == (IF e.equal THEN {} ELSE {"result-differs-from-solo"}) \cup (IF e.races = 0 THEN {} ELSE {"data-race"})
       IN  bad' = IF f = {} THEN bad ELSE Append(bad, [i |-> l, why |-> f])
    /\ l' = l + 1
Spec == Init /\ [][Step]_vars
VerdictWritten == l = Len(Trace) + 1 => JsonSerialize("verdict.json", [n |-> Len(Trace), bad |-> bad])
=============================================================================

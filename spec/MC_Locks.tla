------------------------------ MODULE MC_Locks ------------------------------
EXTENDS Locks
ProcSep  == [h \in Handles |-> IF h = "h1" THEN "p1" ELSE "p2"]    \* every handle in its own process
ProcSame == [h \in Handles |-> "p1"]                                \* two handles in one process
=============================================================================

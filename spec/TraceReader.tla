----------------------------- MODULE TraceReader -----------------------------
(***************************************************************************)
(* Trace validation of a HISTORY on one long-lived handle (C08): reads by  *)
(* the real sqlittle interleaved with transactions committed by real       *)
(* SQLite in another process.                                              *)
(*                                                                         *)
(* history.ndjson, one line per step:                                      *)
(*   [t |-> "commit", kind, db, cc, cookie]  SQLite committed; `db` names  *)
(*        the page graph of the file afterwards (trees.json), cc / cookie  *)
(*        are the change counter and schema cookie now in the header       *)
(*   [t |-> "rlock"] / [t |-> "runlock"]     explicit low level bracket    *)
(*   [t |-> "read", db, o, ev, out, cbn, err, found]  one operation of the *)
(*        real code and what it did (as in TraceOps.tla)                   *)
(*                                                                         *)
(* The handle state of Reader.tla is carried along concretely: the header  *)
(* the handle remembers, the set of cached pages, whether the schema is    *)
(* cached.  For every read the specification decides -- from that state    *)
(* and the file's counters -- whether the caches survive, runs the         *)
(* transcribed algorithm (BTree.tla Run) from exactly that cache, and      *)
(*  - judges the RECORDED result against the Reference on the CURRENT      *)
(*    committed page graph (Freshness + NoFalseError of Reader.tla),       *)
(*  - compares the recorded page events with the predicted ones            *)
(*    (conformance: in particular no page may be served from a cache that  *)
(*    should have been dropped, and none re-read that should be cached).   *)
(***************************************************************************)
EXTENDS BTree, Json

Trees == JsonDeserialize("trees.json")
Trace == ndJsonDeserialize("history.ndjson")

VARIABLES l, fcc, fcookie, hcc, hcookie, bcache, ocache, bracket, fresh, bad, drift
vars == <<l, fcc, fcookie, hcc, hcookie, bcache, ocache, bracket, fresh, bad, drift>>

Init ==
    /\ l = 1
    /\ fcc = Trace[1].cc /\ fcookie = Trace[1].cookie     \* the first line is the state at Open
    /\ hcc = Trace[1].cc /\ hcookie = Trace[1].cookie     \* Open reads the header
    /\ bcache = {} /\ ocache = FALSE
    /\ bracket = FALSE /\ fresh = FALSE
    /\ bad = <<>> /\ drift = <<>>

Commit(e) ==
    /\ fcc' = e.cc /\ fcookie' = e.cookie
    /\ UNCHANGED <<hcc, hcookie, bcache, ocache, bracket, fresh, bad, drift>>

BracketOpen  == bracket' = TRUE  /\ fresh' = TRUE  /\ UNCHANGED <<fcc, fcookie, hcc, hcookie, bcache, ocache, bad, drift>>
BracketClose == bracket' = FALSE /\ fresh' = FALSE /\ UNCHANGED <<fcc, fcookie, hcc, hcookie, bcache, ocache, bad, drift>>

Read(e) ==
    LET T       == Trees[e.db]
        \* is this the first page access after an RLock?  (every self-locking operation, or the first
        \* operation of an explicit bracket)
        dirty   == ~bracket \/ fresh
        cache0  == IF dirty /\ hcc # fcc THEN {} ELSE bcache
        ovalid  == ocache /\ (~dirty \/ hcookie = fcookie)
        pro     == IF ~dirty /\ ovalid THEN "none" ELSE IF ovalid THEN "hdr" ELSE "low"
        o       == [e.o EXCEPT !.pro = pro, !.nolock = bracket]
        m       == Run(T, o, cache0)
        Rr      == [out |-> e.out, cbn |-> e.cbn, err |-> e.err, found |-> e.found]
        failed  == (IF Complete(T, o, Rr) THEN {} ELSE {"stale-or-error"})
    IN  /\ bad' = IF failed = {} THEN bad ELSE Append(bad, [i |-> l, why |-> failed])
        /\ drift' = IF m.ev = e.ev THEN drift
                     ELSE Append(drift, [i |-> l, pro |-> pro, cache0 |-> cache0,
                                         mev |-> IF Len(drift) < 3 THEN m.ev ELSE <<>>])
        /\ hcc' = IF dirty THEN fcc ELSE hcc
        /\ hcookie' = IF dirty THEN fcookie ELSE hcookie
        /\ bcache' = m.cache
        /\ ocache' = (m.err = "")
        /\ fresh' = FALSE
        /\ UNCHANGED <<fcc, fcookie, bracket>>

Step ==
    /\ l <= Len(Trace)
    /\ LET e == Trace[l]
       IN  CASE e.t = "open"    -> UNCHANGED <<fcc, fcookie, hcc, hcookie, bcache, ocache, bracket, fresh, bad, drift>>
             [] e.t = "commit"  -> Commit(e)
             [] e.t = "rlock"   -> BracketOpen
             [] e.t = "runlock" -> BracketClose
             [] e.t = "read"    -> Read(e)
    /\ l' = l + 1

Spec == Init /\ [][Step]_vars

VerdictWritten ==
    l = Len(Trace) + 1 => JsonSerialize("verdict.json", [n |-> Len(Trace), bad |-> bad, drift |-> drift])
=============================================================================

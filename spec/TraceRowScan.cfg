SPECIFICATION TSpec
CONSTANT ScanCopies = TRUE
INVARIANT VerdictWritten
CHECK_DEADLOCK FALSE

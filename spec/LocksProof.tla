----------------------------- MODULE LocksProof -----------------------------
(***************************************************************************)
(* Unbounded safety of the lock protocol of Locks.tla, proved with TLAPS:  *)
(* for ANY number of sqlittle handles, each in its own process, and ANY    *)
(* number of SQLite writers, for behaviours of any length (MaxOps and      *)
(* MaxCommits play no role), the inductive invariant IndInv holds, and it  *)
(* implies the C06 / C07 invariants that TLC checks on the bounded model   *)
(* (SharedWhileReading, NoWriterWhileReading, CommittedOnly, Released,     *)
(* YieldToWriters, BeliefMatchesKernel and the writers' own ladder).       *)
(*                                                                         *)
(* The assumption SeparateProcesses is essential: with two handles in one  *)
(* process the invariants are false (MC_Locks_same.cfg shows the           *)
(* counterexample; it is the known finding recorded for C06).              *)
(***************************************************************************)
EXTENDS Locks, TLAPS

ASSUME SeparateProcesses ==
    /\ \A h1, h2 \in Handles : ProcOf[h1] = ProcOf[h2] => h1 = h2
    /\ \A h \in Handles : ProcOf[h] \notin Writers /\ ProcOf[h] \notin Foreign
    /\ Writers \cap Foreign = {}

LockT == {"N", "R", "W"}
HPC == {"closed", "opening", "idle", "rl_pending", "rl_got", "rl_failed", "locked", "callback"}
WST == {"UNLOCKED", "SHARED", "RESERVED", "PENDING", "EXCLUSIVE"}
WPC == {"idle", "sh1", "sh2ok", "sh2fail", "wrote", "committed"}

TypeOK ==
    /\ lk \in [Procs -> [Regions -> LockT]]
    /\ hpc \in [Handles -> HPC]
    /\ belief \in [Handles -> BOOLEAN]
    /\ wst \in [Writers -> WST]
    /\ wpc \in [Writers -> WPC]
    /\ writing \in BOOLEAN
    /\ hseen \in [Handles -> Int]
    /\ fver \in Nat

\* what the kernel table holds for the process of handle h, by program counter
HandleInv(h) ==
    LET p == ProcOf[h] IN
    /\ lk[p]["resv"] = "N"
    /\ hpc[h] \in {"closed", "opening", "idle"} => lk[p]["pend"] = "N" /\ lk[p]["shrd"] = "N" /\ ~belief[h]
    /\ hpc[h] \in {"rl_pending", "rl_failed"} => lk[p]["pend"] = "R" /\ lk[p]["shrd"] = "N" /\ ~belief[h]
    /\ hpc[h] = "rl_got" => lk[p]["pend"] = "R" /\ lk[p]["shrd"] = "R" /\ belief[h]
    /\ hpc[h] \in {"locked", "callback"} => lk[p]["pend"] = "N" /\ lk[p]["shrd"] = "R" /\ belief[h]
    /\ hseen[h] # -2

\* what it holds for a writer, by SQLite's eFileLock and the position inside a transition
WriterInv(w) ==
    /\ wpc[w] \in {"sh1", "sh2ok", "sh2fail"} => wst[w] = "UNLOCKED"
    /\ wpc[w] \in {"wrote", "committed"} => wst[w] = "EXCLUSIVE"
    /\ (wst[w] = "UNLOCKED" /\ wpc[w] = "idle") => lk[w]["pend"] = "N" /\ lk[w]["shrd"] = "N" /\ lk[w]["resv"] = "N"
    /\ wpc[w] \in {"sh1", "sh2fail"} => lk[w]["pend"] = "R" /\ lk[w]["shrd"] = "N" /\ lk[w]["resv"] = "N"
    /\ wpc[w] = "sh2ok" => lk[w]["pend"] = "R" /\ lk[w]["shrd"] = "R" /\ lk[w]["resv"] = "N"
    /\ wst[w] = "SHARED" => lk[w]["pend"] = "N" /\ lk[w]["shrd"] = "R" /\ lk[w]["resv"] = "N"
    /\ wst[w] = "RESERVED" => lk[w]["pend"] = "N" /\ lk[w]["shrd"] = "R" /\ lk[w]["resv"] = "W"
    /\ wst[w] = "PENDING" => lk[w]["pend"] = "W" /\ lk[w]["shrd"] = "R" /\ lk[w]["resv"] = "W"
    /\ wst[w] = "EXCLUSIVE" => lk[w]["pend"] = "W" /\ lk[w]["shrd"] = "W" /\ lk[w]["resv"] = "W"

\* the kernel never grants a write lock next to any other process's lock
Compat == \A p, q \in Procs, r \in Regions : (p # q /\ lk[p][r] = "W") => lk[q][r] = "N"

WritingInv == writing => \E w \in Writers : wpc[w] = "wrote"

IndInv ==
    /\ TypeOK
    /\ \A h \in Handles : HandleInv(h)
    /\ \A w \in Writers : WriterInv(w)
    /\ Compat
    /\ WritingInv

\* the writers' ladder without Cardinality: at most one connection is RESERVED or above
OneReserved == \A x, y \in Writers : (wst[x] \in {"RESERVED", "PENDING", "EXCLUSIVE"} /\ wst[y] \in {"RESERVED", "PENDING", "EXCLUSIVE"}) => x = y

Safety ==
    /\ SharedWhileReading /\ NoWriterWhileReading /\ CommittedOnly /\ Released /\ YieldToWriters /\ BeliefMatchesKernel
    /\ OneReserved

LEMMA ProcFacts ==
    /\ \A h \in Handles : ProcOf[h] \in Procs
    /\ \A w \in Writers : w \in Procs
    /\ \A h \in Handles, w \in Writers : ProcOf[h] # w
    /\ \A h1, h2 \in Handles : h1 # h2 => ProcOf[h1] # ProcOf[h2]
    /\ \A p \in Procs : (\E h \in Handles : p = ProcOf[h]) \/ p \in Writers \/ p \in Foreign
    /\ \A f \in Foreign : f \in Procs /\ f \notin Writers /\ \A h \in Handles : ProcOf[h] # f
BY SeparateProcesses DEF Procs

LEMMA RegionFacts == Regions = {"pend", "resv", "shrd"} /\ "pend" \in Regions /\ "resv" \in Regions /\ "shrd" \in Regions
BY DEF Regions

THEOREM InitOK == Init => IndInv
<1> SUFFICES ASSUME Init PROVE IndInv OBVIOUS
<1> USE ProcFacts, RegionFacts
<1>1. TypeOK BY DEF Init, TypeOK, NoLocks, LockT, HPC, WST, WPC
<1>2. \A h \in Handles : HandleInv(h) BY DEF Init, HandleInv, NoLocks
<1>3. \A w \in Writers : WriterInv(w) BY DEF Init, WriterInv, NoLocks
<1>4. Compat BY DEF Init, Compat, NoLocks
<1>5. WritingInv BY DEF Init, WritingInv
<1> QED BY <1>1, <1>2, <1>3, <1>4, <1>5 DEF IndInv

THEOREM SafetyFromInv == IndInv => Safety
<1> SUFFICES ASSUME IndInv PROVE Safety OBVIOUS
<1> USE ProcFacts, RegionFacts
<1>1. SharedWhileReading BY DEF IndInv, HandleInv, SharedWhileReading, InTxn
<1>2. NoWriterWhileReading BY DEF IndInv, TypeOK, HandleInv, WriterInv, Compat, NoWriterWhileReading, InTxn, LockT
<1>3. CommittedOnly BY DEF IndInv, HandleInv, CommittedOnly
<1>4. Released
  <2> SUFFICES ASSUME NEW p \in {ProcOf[h] : h \in Handles},
                      \A h \in Handles : ProcOf[h] = p => hpc[h] \in {"closed", "idle"}
               PROVE lk[p]["pend"] = "N" /\ lk[p]["shrd"] = "N"
      BY DEF Released
  <2> PICK h \in Handles : p = ProcOf[h] OBVIOUS
  <2> QED BY DEF IndInv, HandleInv
<1>5. YieldToWriters BY DEF IndInv, TypeOK, HandleInv, WriterInv, Compat, YieldToWriters, LockT
<1>6. BeliefMatchesKernel BY DEF IndInv, TypeOK, HandleInv, BeliefMatchesKernel, HPC
<1>7. OneReserved BY DEF IndInv, TypeOK, WriterInv, Compat, OneReserved, LockT
<1> QED BY <1>1, <1>2, <1>3, <1>4, <1>5, <1>6, <1>7 DEF Safety

THEOREM StepOK == IndInv /\ [Next]_vars => IndInv'
<1> SUFFICES ASSUME IndInv, [Next]_vars PROVE IndInv' OBVIOUS
<1> USE ProcFacts, RegionFacts
<1>1. ASSUME NEW h \in Handles, OsOpen(h) PROVE IndInv'
  <2>1. TypeOK' BY <1>1 DEF OsOpen, IndInv, TypeOK, HandleInv, WriterInv, Compat, WritingInv, LockT, HPC, WST, WPC, CanLock, SetLock, DropAll, NoLocks
  <2>2. (\A x \in Handles : HandleInv(x))' BY <1>1 DEF OsOpen, IndInv, TypeOK, HandleInv, WriterInv, Compat, WritingInv, LockT, HPC, WST, WPC, CanLock, SetLock, DropAll, NoLocks
  <2>3. (\A x \in Writers : WriterInv(x))' BY <1>1 DEF OsOpen, IndInv, TypeOK, HandleInv, WriterInv, Compat, WritingInv, LockT, HPC, WST, WPC, CanLock, SetLock, DropAll, NoLocks
  <2>4. Compat' BY <1>1 DEF OsOpen, IndInv, TypeOK, HandleInv, WriterInv, Compat, WritingInv, LockT, HPC, WST, WPC, CanLock, SetLock, DropAll, NoLocks
  <2>5. WritingInv' BY <1>1 DEF OsOpen, IndInv, TypeOK, HandleInv, WriterInv, Compat, WritingInv, LockT, HPC, WST, WPC, CanLock, SetLock, DropAll, NoLocks
  <2> QED BY <2>1, <2>2, <2>3, <2>4, <2>5 DEF IndInv
<1>2. ASSUME NEW h \in Handles, MmapOpenClosesSecondFd(h) PROVE IndInv'
  <2>1. TypeOK' BY <1>2 DEF MmapOpenClosesSecondFd, IndInv, TypeOK, HandleInv, WriterInv, Compat, WritingInv, LockT, HPC, WST, WPC, CanLock, SetLock, DropAll, NoLocks
  <2>2. (\A x \in Handles : HandleInv(x))' BY <1>2 DEF MmapOpenClosesSecondFd, IndInv, TypeOK, HandleInv, WriterInv, Compat, WritingInv, LockT, HPC, WST, WPC, CanLock, SetLock, DropAll, NoLocks
  <2>3. (\A x \in Writers : WriterInv(x))' BY <1>2 DEF MmapOpenClosesSecondFd, IndInv, TypeOK, HandleInv, WriterInv, Compat, WritingInv, LockT, HPC, WST, WPC, CanLock, SetLock, DropAll, NoLocks
  <2>4. Compat' BY <1>2 DEF MmapOpenClosesSecondFd, IndInv, TypeOK, HandleInv, WriterInv, Compat, WritingInv, LockT, HPC, WST, WPC, CanLock, SetLock, DropAll, NoLocks
  <2>5. WritingInv' BY <1>2 DEF MmapOpenClosesSecondFd, IndInv, TypeOK, HandleInv, WriterInv, Compat, WritingInv, LockT, HPC, WST, WPC, CanLock, SetLock, DropAll, NoLocks
  <2> QED BY <2>1, <2>2, <2>3, <2>4, <2>5 DEF IndInv
<1>3. ASSUME NEW h \in Handles, LockPendingR(h) PROVE IndInv'
  <2>1. TypeOK' BY <1>3 DEF LockPendingR, IndInv, TypeOK, HandleInv, WriterInv, Compat, WritingInv, LockT, HPC, WST, WPC, CanLock, SetLock, DropAll, NoLocks
  <2>2. (\A x \in Handles : HandleInv(x))' BY <1>3 DEF LockPendingR, IndInv, TypeOK, HandleInv, WriterInv, Compat, WritingInv, LockT, HPC, WST, WPC, CanLock, SetLock, DropAll, NoLocks
  <2>3. (\A x \in Writers : WriterInv(x))' BY <1>3 DEF LockPendingR, IndInv, TypeOK, HandleInv, WriterInv, Compat, WritingInv, LockT, HPC, WST, WPC, CanLock, SetLock, DropAll, NoLocks
  <2>4. Compat' BY <1>3 DEF LockPendingR, IndInv, TypeOK, HandleInv, WriterInv, Compat, WritingInv, LockT, HPC, WST, WPC, CanLock, SetLock, DropAll, NoLocks
  <2>5. WritingInv' BY <1>3 DEF LockPendingR, IndInv, TypeOK, HandleInv, WriterInv, Compat, WritingInv, LockT, HPC, WST, WPC, CanLock, SetLock, DropAll, NoLocks
  <2> QED BY <2>1, <2>2, <2>3, <2>4, <2>5 DEF IndInv
<1>4. ASSUME NEW h \in Handles, LockSharedR(h) PROVE IndInv'
  <2>1. TypeOK' BY <1>4 DEF LockSharedR, IndInv, TypeOK, HandleInv, WriterInv, Compat, WritingInv, LockT, HPC, WST, WPC, CanLock, SetLock, DropAll, NoLocks
  <2>2. (\A x \in Handles : HandleInv(x))' BY <1>4 DEF LockSharedR, IndInv, TypeOK, HandleInv, WriterInv, Compat, WritingInv, LockT, HPC, WST, WPC, CanLock, SetLock, DropAll, NoLocks
  <2>3. (\A x \in Writers : WriterInv(x))' BY <1>4 DEF LockSharedR, IndInv, TypeOK, HandleInv, WriterInv, Compat, WritingInv, LockT, HPC, WST, WPC, CanLock, SetLock, DropAll, NoLocks
  <2>4. Compat' BY <1>4 DEF LockSharedR, IndInv, TypeOK, HandleInv, WriterInv, Compat, WritingInv, LockT, HPC, WST, WPC, CanLock, SetLock, DropAll, NoLocks
  <2>5. WritingInv' BY <1>4 DEF LockSharedR, IndInv, TypeOK, HandleInv, WriterInv, Compat, WritingInv, LockT, HPC, WST, WPC, CanLock, SetLock, DropAll, NoLocks
  <2> QED BY <2>1, <2>2, <2>3, <2>4, <2>5 DEF IndInv
<1>5. ASSUME NEW h \in Handles, UnlockPending(h) PROVE IndInv'
  <2>1. TypeOK' BY <1>5 DEF UnlockPending, IndInv, TypeOK, HandleInv, WriterInv, Compat, WritingInv, LockT, HPC, WST, WPC, CanLock, SetLock, DropAll, NoLocks
  <2>2. (\A x \in Handles : HandleInv(x))' BY <1>5 DEF UnlockPending, IndInv, TypeOK, HandleInv, WriterInv, Compat, WritingInv, LockT, HPC, WST, WPC, CanLock, SetLock, DropAll, NoLocks
  <2>3. (\A x \in Writers : WriterInv(x))' BY <1>5 DEF UnlockPending, IndInv, TypeOK, HandleInv, WriterInv, Compat, WritingInv, LockT, HPC, WST, WPC, CanLock, SetLock, DropAll, NoLocks
  <2>4. Compat' BY <1>5 DEF UnlockPending, IndInv, TypeOK, HandleInv, WriterInv, Compat, WritingInv, LockT, HPC, WST, WPC, CanLock, SetLock, DropAll, NoLocks
  <2>5. WritingInv' BY <1>5 DEF UnlockPending, IndInv, TypeOK, HandleInv, WriterInv, Compat, WritingInv, LockT, HPC, WST, WPC, CanLock, SetLock, DropAll, NoLocks
  <2> QED BY <2>1, <2>2, <2>3, <2>4, <2>5 DEF IndInv
<1>6. ASSUME NEW h \in Handles, PageRead(h) PROVE IndInv'
  <2>1. TypeOK' BY <1>6 DEF PageRead, IndInv, TypeOK, HandleInv, WriterInv, Compat, WritingInv, LockT, HPC, WST, WPC, CanLock, SetLock, DropAll, NoLocks
  <2>2. (\A x \in Handles : HandleInv(x))' BY <1>6 DEF PageRead, IndInv, TypeOK, HandleInv, WriterInv, Compat, WritingInv, LockT, HPC, WST, WPC, CanLock, SetLock, DropAll, NoLocks
  <2>3. (\A x \in Writers : WriterInv(x))' BY <1>6 DEF PageRead, IndInv, TypeOK, HandleInv, WriterInv, Compat, WritingInv, LockT, HPC, WST, WPC, CanLock, SetLock, DropAll, NoLocks
  <2>4. Compat' BY <1>6 DEF PageRead, IndInv, TypeOK, HandleInv, WriterInv, Compat, WritingInv, LockT, HPC, WST, WPC, CanLock, SetLock, DropAll, NoLocks
  <2>5. WritingInv' BY <1>6 DEF PageRead, IndInv, TypeOK, HandleInv, WriterInv, Compat, WritingInv, LockT, HPC, WST, WPC, CanLock, SetLock, DropAll, NoLocks
  <2> QED BY <2>1, <2>2, <2>3, <2>4, <2>5 DEF IndInv
<1>7. ASSUME NEW h \in Handles, CallbackEnter(h) PROVE IndInv'
  <2>1. TypeOK' BY <1>7 DEF CallbackEnter, IndInv, TypeOK, HandleInv, WriterInv, Compat, WritingInv, LockT, HPC, WST, WPC, CanLock, SetLock, DropAll, NoLocks
  <2>2. (\A x \in Handles : HandleInv(x))' BY <1>7 DEF CallbackEnter, IndInv, TypeOK, HandleInv, WriterInv, Compat, WritingInv, LockT, HPC, WST, WPC, CanLock, SetLock, DropAll, NoLocks
  <2>3. (\A x \in Writers : WriterInv(x))' BY <1>7 DEF CallbackEnter, IndInv, TypeOK, HandleInv, WriterInv, Compat, WritingInv, LockT, HPC, WST, WPC, CanLock, SetLock, DropAll, NoLocks
  <2>4. Compat' BY <1>7 DEF CallbackEnter, IndInv, TypeOK, HandleInv, WriterInv, Compat, WritingInv, LockT, HPC, WST, WPC, CanLock, SetLock, DropAll, NoLocks
  <2>5. WritingInv' BY <1>7 DEF CallbackEnter, IndInv, TypeOK, HandleInv, WriterInv, Compat, WritingInv, LockT, HPC, WST, WPC, CanLock, SetLock, DropAll, NoLocks
  <2> QED BY <2>1, <2>2, <2>3, <2>4, <2>5 DEF IndInv
<1>8. ASSUME NEW h \in Handles, CallbackExit(h) PROVE IndInv'
  <2>1. TypeOK' BY <1>8 DEF CallbackExit, IndInv, TypeOK, HandleInv, WriterInv, Compat, WritingInv, LockT, HPC, WST, WPC, CanLock, SetLock, DropAll, NoLocks
  <2>2. (\A x \in Handles : HandleInv(x))' BY <1>8 DEF CallbackExit, IndInv, TypeOK, HandleInv, WriterInv, Compat, WritingInv, LockT, HPC, WST, WPC, CanLock, SetLock, DropAll, NoLocks
  <2>3. (\A x \in Writers : WriterInv(x))' BY <1>8 DEF CallbackExit, IndInv, TypeOK, HandleInv, WriterInv, Compat, WritingInv, LockT, HPC, WST, WPC, CanLock, SetLock, DropAll, NoLocks
  <2>4. Compat' BY <1>8 DEF CallbackExit, IndInv, TypeOK, HandleInv, WriterInv, Compat, WritingInv, LockT, HPC, WST, WPC, CanLock, SetLock, DropAll, NoLocks
  <2>5. WritingInv' BY <1>8 DEF CallbackExit, IndInv, TypeOK, HandleInv, WriterInv, Compat, WritingInv, LockT, HPC, WST, WPC, CanLock, SetLock, DropAll, NoLocks
  <2> QED BY <2>1, <2>2, <2>3, <2>4, <2>5 DEF IndInv
<1>9. ASSUME NEW h \in Handles, RUnlock(h) PROVE IndInv'
  <2>1. TypeOK' BY <1>9 DEF RUnlock, IndInv, TypeOK, HandleInv, WriterInv, Compat, WritingInv, LockT, HPC, WST, WPC, CanLock, SetLock, DropAll, NoLocks
  <2>2. (\A x \in Handles : HandleInv(x))' BY <1>9 DEF RUnlock, IndInv, TypeOK, HandleInv, WriterInv, Compat, WritingInv, LockT, HPC, WST, WPC, CanLock, SetLock, DropAll, NoLocks
  <2>3. (\A x \in Writers : WriterInv(x))' BY <1>9 DEF RUnlock, IndInv, TypeOK, HandleInv, WriterInv, Compat, WritingInv, LockT, HPC, WST, WPC, CanLock, SetLock, DropAll, NoLocks
  <2>4. Compat' BY <1>9 DEF RUnlock, IndInv, TypeOK, HandleInv, WriterInv, Compat, WritingInv, LockT, HPC, WST, WPC, CanLock, SetLock, DropAll, NoLocks
  <2>5. WritingInv' BY <1>9 DEF RUnlock, IndInv, TypeOK, HandleInv, WriterInv, Compat, WritingInv, LockT, HPC, WST, WPC, CanLock, SetLock, DropAll, NoLocks
  <2> QED BY <2>1, <2>2, <2>3, <2>4, <2>5 DEF IndInv
<1>10. ASSUME NEW h \in Handles, Close(h) PROVE IndInv'
  <2>1. TypeOK' BY <1>10 DEF Close, IndInv, TypeOK, HandleInv, WriterInv, Compat, WritingInv, LockT, HPC, WST, WPC, CanLock, SetLock, DropAll, NoLocks
  <2>2. (\A x \in Handles : HandleInv(x))' BY <1>10 DEF Close, IndInv, TypeOK, HandleInv, WriterInv, Compat, WritingInv, LockT, HPC, WST, WPC, CanLock, SetLock, DropAll, NoLocks
  <2>3. (\A x \in Writers : WriterInv(x))' BY <1>10 DEF Close, IndInv, TypeOK, HandleInv, WriterInv, Compat, WritingInv, LockT, HPC, WST, WPC, CanLock, SetLock, DropAll, NoLocks
  <2>4. Compat' BY <1>10 DEF Close, IndInv, TypeOK, HandleInv, WriterInv, Compat, WritingInv, LockT, HPC, WST, WPC, CanLock, SetLock, DropAll, NoLocks
  <2>5. WritingInv' BY <1>10 DEF Close, IndInv, TypeOK, HandleInv, WriterInv, Compat, WritingInv, LockT, HPC, WST, WPC, CanLock, SetLock, DropAll, NoLocks
  <2> QED BY <2>1, <2>2, <2>3, <2>4, <2>5 DEF IndInv
<1>11. ASSUME NEW w \in Writers, WPendR(w) PROVE IndInv'
  <2>1. TypeOK' BY <1>11 DEF WPendR, IndInv, TypeOK, HandleInv, WriterInv, Compat, WritingInv, LockT, HPC, WST, WPC, CanLock, SetLock, DropAll, NoLocks
  <2>2. (\A x \in Handles : HandleInv(x))' BY <1>11 DEF WPendR, IndInv, TypeOK, HandleInv, WriterInv, Compat, WritingInv, LockT, HPC, WST, WPC, CanLock, SetLock, DropAll, NoLocks
  <2>3. (\A x \in Writers : WriterInv(x))' BY <1>11 DEF WPendR, IndInv, TypeOK, HandleInv, WriterInv, Compat, WritingInv, LockT, HPC, WST, WPC, CanLock, SetLock, DropAll, NoLocks
  <2>4. Compat' BY <1>11 DEF WPendR, IndInv, TypeOK, HandleInv, WriterInv, Compat, WritingInv, LockT, HPC, WST, WPC, CanLock, SetLock, DropAll, NoLocks
  <2>5. WritingInv' BY <1>11 DEF WPendR, IndInv, TypeOK, HandleInv, WriterInv, Compat, WritingInv, LockT, HPC, WST, WPC, CanLock, SetLock, DropAll, NoLocks
  <2> QED BY <2>1, <2>2, <2>3, <2>4, <2>5 DEF IndInv
<1>12. ASSUME NEW w \in Writers, WShrdR(w) PROVE IndInv'
  <2>1. TypeOK' BY <1>12 DEF WShrdR, IndInv, TypeOK, HandleInv, WriterInv, Compat, WritingInv, LockT, HPC, WST, WPC, CanLock, SetLock, DropAll, NoLocks
  <2>2. (\A x \in Handles : HandleInv(x))' BY <1>12 DEF WShrdR, IndInv, TypeOK, HandleInv, WriterInv, Compat, WritingInv, LockT, HPC, WST, WPC, CanLock, SetLock, DropAll, NoLocks
  <2>3. (\A x \in Writers : WriterInv(x))' BY <1>12 DEF WShrdR, IndInv, TypeOK, HandleInv, WriterInv, Compat, WritingInv, LockT, HPC, WST, WPC, CanLock, SetLock, DropAll, NoLocks
  <2>4. Compat' BY <1>12 DEF WShrdR, IndInv, TypeOK, HandleInv, WriterInv, Compat, WritingInv, LockT, HPC, WST, WPC, CanLock, SetLock, DropAll, NoLocks
  <2>5. WritingInv' BY <1>12 DEF WShrdR, IndInv, TypeOK, HandleInv, WriterInv, Compat, WritingInv, LockT, HPC, WST, WPC, CanLock, SetLock, DropAll, NoLocks
  <2> QED BY <2>1, <2>2, <2>3, <2>4, <2>5 DEF IndInv
<1>13. ASSUME NEW w \in Writers, WUnpend(w) PROVE IndInv'
  <2>1. TypeOK' BY <1>13 DEF WUnpend, IndInv, TypeOK, HandleInv, WriterInv, Compat, WritingInv, LockT, HPC, WST, WPC, CanLock, SetLock, DropAll, NoLocks
  <2>2. (\A x \in Handles : HandleInv(x))' BY <1>13 DEF WUnpend, IndInv, TypeOK, HandleInv, WriterInv, Compat, WritingInv, LockT, HPC, WST, WPC, CanLock, SetLock, DropAll, NoLocks
  <2>3. (\A x \in Writers : WriterInv(x))' BY <1>13 DEF WUnpend, IndInv, TypeOK, HandleInv, WriterInv, Compat, WritingInv, LockT, HPC, WST, WPC, CanLock, SetLock, DropAll, NoLocks
  <2>4. Compat' BY <1>13 DEF WUnpend, IndInv, TypeOK, HandleInv, WriterInv, Compat, WritingInv, LockT, HPC, WST, WPC, CanLock, SetLock, DropAll, NoLocks
  <2>5. WritingInv' BY <1>13 DEF WUnpend, IndInv, TypeOK, HandleInv, WriterInv, Compat, WritingInv, LockT, HPC, WST, WPC, CanLock, SetLock, DropAll, NoLocks
  <2> QED BY <2>1, <2>2, <2>3, <2>4, <2>5 DEF IndInv
<1>14. ASSUME NEW w \in Writers, WReserve(w) PROVE IndInv'
  <2>1. TypeOK' BY <1>14 DEF WReserve, IndInv, TypeOK, HandleInv, WriterInv, Compat, WritingInv, LockT, HPC, WST, WPC, CanLock, SetLock, DropAll, NoLocks
  <2>2. (\A x \in Handles : HandleInv(x))' BY <1>14 DEF WReserve, IndInv, TypeOK, HandleInv, WriterInv, Compat, WritingInv, LockT, HPC, WST, WPC, CanLock, SetLock, DropAll, NoLocks
  <2>3. (\A x \in Writers : WriterInv(x))' BY <1>14 DEF WReserve, IndInv, TypeOK, HandleInv, WriterInv, Compat, WritingInv, LockT, HPC, WST, WPC, CanLock, SetLock, DropAll, NoLocks
  <2>4. Compat' BY <1>14 DEF WReserve, IndInv, TypeOK, HandleInv, WriterInv, Compat, WritingInv, LockT, HPC, WST, WPC, CanLock, SetLock, DropAll, NoLocks
  <2>5. WritingInv' BY <1>14 DEF WReserve, IndInv, TypeOK, HandleInv, WriterInv, Compat, WritingInv, LockT, HPC, WST, WPC, CanLock, SetLock, DropAll, NoLocks
  <2> QED BY <2>1, <2>2, <2>3, <2>4, <2>5 DEF IndInv
<1>15. ASSUME NEW w \in Writers, WPendW(w) PROVE IndInv'
  <2>1. TypeOK' BY <1>15 DEF WPendW, IndInv, TypeOK, HandleInv, WriterInv, Compat, WritingInv, LockT, HPC, WST, WPC, CanLock, SetLock, DropAll, NoLocks
  <2>2. (\A x \in Handles : HandleInv(x))' BY <1>15 DEF WPendW, IndInv, TypeOK, HandleInv, WriterInv, Compat, WritingInv, LockT, HPC, WST, WPC, CanLock, SetLock, DropAll, NoLocks
  <2>3. (\A x \in Writers : WriterInv(x))' BY <1>15 DEF WPendW, IndInv, TypeOK, HandleInv, WriterInv, Compat, WritingInv, LockT, HPC, WST, WPC, CanLock, SetLock, DropAll, NoLocks
  <2>4. Compat' BY <1>15 DEF WPendW, IndInv, TypeOK, HandleInv, WriterInv, Compat, WritingInv, LockT, HPC, WST, WPC, CanLock, SetLock, DropAll, NoLocks
  <2>5. WritingInv' BY <1>15 DEF WPendW, IndInv, TypeOK, HandleInv, WriterInv, Compat, WritingInv, LockT, HPC, WST, WPC, CanLock, SetLock, DropAll, NoLocks
  <2> QED BY <2>1, <2>2, <2>3, <2>4, <2>5 DEF IndInv
<1>16. ASSUME NEW w \in Writers, WExclusive(w) PROVE IndInv'
  <2>1. TypeOK' BY <1>16 DEF WExclusive, IndInv, TypeOK, HandleInv, WriterInv, Compat, WritingInv, LockT, HPC, WST, WPC, CanLock, SetLock, DropAll, NoLocks
  <2>2. (\A x \in Handles : HandleInv(x))' BY <1>16 DEF WExclusive, IndInv, TypeOK, HandleInv, WriterInv, Compat, WritingInv, LockT, HPC, WST, WPC, CanLock, SetLock, DropAll, NoLocks
  <2>3. (\A x \in Writers : WriterInv(x))' BY <1>16 DEF WExclusive, IndInv, TypeOK, HandleInv, WriterInv, Compat, WritingInv, LockT, HPC, WST, WPC, CanLock, SetLock, DropAll, NoLocks
  <2>4. Compat' BY <1>16 DEF WExclusive, IndInv, TypeOK, HandleInv, WriterInv, Compat, WritingInv, LockT, HPC, WST, WPC, CanLock, SetLock, DropAll, NoLocks
  <2>5. WritingInv' BY <1>16 DEF WExclusive, IndInv, TypeOK, HandleInv, WriterInv, Compat, WritingInv, LockT, HPC, WST, WPC, CanLock, SetLock, DropAll, NoLocks
  <2> QED BY <2>1, <2>2, <2>3, <2>4, <2>5 DEF IndInv
<1>17. ASSUME NEW w \in Writers, WWrite(w) PROVE IndInv'
  <2>1. TypeOK' BY <1>17 DEF WWrite, IndInv, TypeOK, HandleInv, WriterInv, Compat, WritingInv, LockT, HPC, WST, WPC, CanLock, SetLock, DropAll, NoLocks
  <2>2. (\A x \in Handles : HandleInv(x))' BY <1>17 DEF WWrite, IndInv, TypeOK, HandleInv, WriterInv, Compat, WritingInv, LockT, HPC, WST, WPC, CanLock, SetLock, DropAll, NoLocks
  <2>3. (\A x \in Writers : WriterInv(x))' BY <1>17 DEF WWrite, IndInv, TypeOK, HandleInv, WriterInv, Compat, WritingInv, LockT, HPC, WST, WPC, CanLock, SetLock, DropAll, NoLocks
  <2>4. Compat' BY <1>17 DEF WWrite, IndInv, TypeOK, HandleInv, WriterInv, Compat, WritingInv, LockT, HPC, WST, WPC, CanLock, SetLock, DropAll, NoLocks
  <2>5. WritingInv' BY <1>17 DEF WWrite, IndInv, TypeOK, HandleInv, WriterInv, Compat, WritingInv, LockT, HPC, WST, WPC, CanLock, SetLock, DropAll, NoLocks
  <2> QED BY <2>1, <2>2, <2>3, <2>4, <2>5 DEF IndInv
<1>18. ASSUME NEW w \in Writers, WCommit(w) PROVE IndInv'
  <2>1. TypeOK' BY <1>18 DEF WCommit, IndInv, TypeOK, HandleInv, WriterInv, Compat, WritingInv, LockT, HPC, WST, WPC, CanLock, SetLock, DropAll, NoLocks
  <2>2. (\A x \in Handles : HandleInv(x))' BY <1>18 DEF WCommit, IndInv, TypeOK, HandleInv, WriterInv, Compat, WritingInv, LockT, HPC, WST, WPC, CanLock, SetLock, DropAll, NoLocks
  <2>3. (\A x \in Writers : WriterInv(x))' BY <1>18 DEF WCommit, IndInv, TypeOK, HandleInv, WriterInv, Compat, WritingInv, LockT, HPC, WST, WPC, CanLock, SetLock, DropAll, NoLocks
  <2>4. Compat' BY <1>18 DEF WCommit, IndInv, TypeOK, HandleInv, WriterInv, Compat, WritingInv, LockT, HPC, WST, WPC, CanLock, SetLock, DropAll, NoLocks
  <2>5. WritingInv' BY <1>18 DEF WCommit, IndInv, TypeOK, HandleInv, WriterInv, Compat, WritingInv, LockT, HPC, WST, WPC, CanLock, SetLock, DropAll, NoLocks
  <2> QED BY <2>1, <2>2, <2>3, <2>4, <2>5 DEF IndInv
<1>19. ASSUME NEW w \in Writers, WRollback(w) PROVE IndInv'
  <2>1. TypeOK' BY <1>19 DEF WRollback, IndInv, TypeOK, HandleInv, WriterInv, Compat, WritingInv, LockT, HPC, WST, WPC, CanLock, SetLock, DropAll, NoLocks
  <2>2. (\A x \in Handles : HandleInv(x))' BY <1>19 DEF WRollback, IndInv, TypeOK, HandleInv, WriterInv, Compat, WritingInv, LockT, HPC, WST, WPC, CanLock, SetLock, DropAll, NoLocks
  <2>3. (\A x \in Writers : WriterInv(x))' BY <1>19 DEF WRollback, IndInv, TypeOK, HandleInv, WriterInv, Compat, WritingInv, LockT, HPC, WST, WPC, CanLock, SetLock, DropAll, NoLocks
  <2>4. Compat' BY <1>19 DEF WRollback, IndInv, TypeOK, HandleInv, WriterInv, Compat, WritingInv, LockT, HPC, WST, WPC, CanLock, SetLock, DropAll, NoLocks
  <2>5. WritingInv' BY <1>19 DEF WRollback, IndInv, TypeOK, HandleInv, WriterInv, Compat, WritingInv, LockT, HPC, WST, WPC, CanLock, SetLock, DropAll, NoLocks
  <2> QED BY <2>1, <2>2, <2>3, <2>4, <2>5 DEF IndInv
<1>20. ASSUME NEW w \in Writers, WUnlock(w) PROVE IndInv'
  <2>1. TypeOK' BY <1>20 DEF WUnlock, IndInv, TypeOK, HandleInv, WriterInv, Compat, WritingInv, LockT, HPC, WST, WPC, CanLock, SetLock, DropAll, NoLocks
  <2>2. (\A x \in Handles : HandleInv(x))' BY <1>20 DEF WUnlock, IndInv, TypeOK, HandleInv, WriterInv, Compat, WritingInv, LockT, HPC, WST, WPC, CanLock, SetLock, DropAll, NoLocks
  <2>3. (\A x \in Writers : WriterInv(x))' BY <1>20 DEF WUnlock, IndInv, TypeOK, HandleInv, WriterInv, Compat, WritingInv, LockT, HPC, WST, WPC, CanLock, SetLock, DropAll, NoLocks
  <2>4. Compat' BY <1>20 DEF WUnlock, IndInv, TypeOK, HandleInv, WriterInv, Compat, WritingInv, LockT, HPC, WST, WPC, CanLock, SetLock, DropAll, NoLocks
  <2>5. WritingInv' BY <1>20 DEF WUnlock, IndInv, TypeOK, HandleInv, WriterInv, Compat, WritingInv, LockT, HPC, WST, WPC, CanLock, SetLock, DropAll, NoLocks
  <2> QED BY <2>1, <2>2, <2>3, <2>4, <2>5 DEF IndInv
<1>22. ASSUME NEW f \in Foreign, NEW r \in {"pend", "shrd"}, FLock(f, r) PROVE IndInv'
  <2>1. TypeOK' BY <1>22 DEF FLock, IndInv, TypeOK, HandleInv, WriterInv, Compat, WritingInv, LockT, HPC, WST, WPC, CanLock, SetLock, DropAll, NoLocks
  <2>2. (\A x \in Handles : HandleInv(x))' BY <1>22 DEF FLock, IndInv, TypeOK, HandleInv, WriterInv, Compat, WritingInv, LockT, HPC, WST, WPC, CanLock, SetLock, DropAll, NoLocks
  <2>3. (\A x \in Writers : WriterInv(x))' BY <1>22 DEF FLock, IndInv, TypeOK, HandleInv, WriterInv, Compat, WritingInv, LockT, HPC, WST, WPC, CanLock, SetLock, DropAll, NoLocks
  <2>4. Compat' BY <1>22 DEF FLock, IndInv, TypeOK, HandleInv, WriterInv, Compat, WritingInv, LockT, HPC, WST, WPC, CanLock, SetLock, DropAll, NoLocks
  <2>5. WritingInv' BY <1>22 DEF FLock, IndInv, TypeOK, HandleInv, WriterInv, Compat, WritingInv, LockT, HPC, WST, WPC, CanLock, SetLock, DropAll, NoLocks
  <2> QED BY <2>1, <2>2, <2>3, <2>4, <2>5 DEF IndInv
<1>23. ASSUME NEW f \in Foreign, NEW r \in {"pend", "shrd"}, FUnlock(f, r) PROVE IndInv'
  <2>1. TypeOK' BY <1>23 DEF FUnlock, IndInv, TypeOK, HandleInv, WriterInv, Compat, WritingInv, LockT, HPC, WST, WPC, CanLock, SetLock, DropAll, NoLocks
  <2>2. (\A x \in Handles : HandleInv(x))' BY <1>23 DEF FUnlock, IndInv, TypeOK, HandleInv, WriterInv, Compat, WritingInv, LockT, HPC, WST, WPC, CanLock, SetLock, DropAll, NoLocks
  <2>3. (\A x \in Writers : WriterInv(x))' BY <1>23 DEF FUnlock, IndInv, TypeOK, HandleInv, WriterInv, Compat, WritingInv, LockT, HPC, WST, WPC, CanLock, SetLock, DropAll, NoLocks
  <2>4. Compat' BY <1>23 DEF FUnlock, IndInv, TypeOK, HandleInv, WriterInv, Compat, WritingInv, LockT, HPC, WST, WPC, CanLock, SetLock, DropAll, NoLocks
  <2>5. WritingInv' BY <1>23 DEF FUnlock, IndInv, TypeOK, HandleInv, WriterInv, Compat, WritingInv, LockT, HPC, WST, WPC, CanLock, SetLock, DropAll, NoLocks
  <2> QED BY <2>1, <2>2, <2>3, <2>4, <2>5 DEF IndInv
<1>21. CASE UNCHANGED vars
  BY <1>21 DEF vars, IndInv, TypeOK, HandleInv, WriterInv, Compat, WritingInv, LockT, HPC, WST, WPC, CanLock, SetLock, DropAll, NoLocks
<1> QED BY <1>1, <1>2, <1>3, <1>4, <1>5, <1>6, <1>7, <1>8, <1>9, <1>10, <1>11, <1>12, <1>13, <1>14, <1>15, <1>16, <1>17, <1>18, <1>19, <1>20, <1>21, <1>22, <1>23 DEF Next

THEOREM Spec => []Safety
<1>1. Spec => []IndInv BY InitOK, StepOK, PTL DEF Spec
<1> QED BY <1>1, SafetyFromInv, PTL
=============================================================================

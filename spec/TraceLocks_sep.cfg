SPECIFICATION TSpec
CONSTANTS
  Handles = {"h1", "h2", "h3"}
  ProcOf <- TraceProcSep
  Writers = {"w1", "w2"}
  Foreign = {"f1"}
  MaxCommits = 1000000
  MaxOps = 1000000
VIEW tview
INVARIANT Track
POSTCONDITION Post
CHECK_DEADLOCK FALSE

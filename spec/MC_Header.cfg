SPECIFICATION Spec
INVARIANT BaseAccepted
INVARIANT FreeFieldsAccepted
INVARIANT ClassesDisjoint
INVARIANT CoreRejected
CHECK_DEADLOCK FALSE

------------------------------- MODULE Schema -------------------------------
(***************************************************************************)
(* How SQLite interprets CREATE TABLE / CREATE INDEX (build.c), over an    *)
(* abstract syntax tree:                                                   *)
(*                                                                         *)
(*  ast = [name, wr (WITHOUT ROWID),                                       *)
(*         cols  |-> << [name, isint (declared type is exactly INTEGER),   *)
(*                       cons |-> << constraint >>] >>,                    *)
(*         tcons |-> << [k |-> "pk" | "unique",                            *)
(*                       cols |-> << [name, coll, desc] >>] >>,            *)
(*         idx   |-> << [name, unique, cols |-> << [name, coll, desc] >>] >>]*)
(*  column constraint = [k |-> "pk", desc, autoinc] | [k |-> "unique"] |   *)
(*         [k |-> "collate", c] | [k |-> "notnull"] | [k |-> "null"] |     *)
(*         [k |-> "default"] | [k |-> "check"] | [k |-> "references"]      *)
(*  names and collations are lower case; coll = "" means "not given".      *)
(*                                                                         *)
(* Interpret(ast) = [alias, pk, indexes]: the column that aliases the      *)
(* rowid ("" if none), the primary key columns, and every index SQLite     *)
(* creates with its name and key columns (collation, direction).           *)
(***************************************************************************)
EXTENDS Integers, Sequences, FiniteSets, TLC

Col(ast, n) == CHOOSE c \in {ast.cols[i] : i \in 1..Len(ast.cols)} : c.name = n
HasCol(ast, n) == \E i \in 1..Len(ast.cols) : ast.cols[i].name = n

\* the collation a column declares: its last COLLATE clause, wherever it stands among the constraints
ColColl(c) ==
    LET ks == {i \in 1..Len(c.cons) : c.cons[i].k = "collate"}
    IN  IF ks = {} THEN "binary" ELSE c.cons[CHOOSE i \in ks : \A j \in ks : j <= i].c

\* an indexed column as SQLite stores it: explicit collation, else the column's, else BINARY
Resolve(ast, ic) ==
    [name |-> ic.name,
     coll |-> IF ic.coll # "" THEN ic.coll ELSE IF HasCol(ast, ic.name) THEN ColColl(Col(ast, ic.name)) ELSE "binary",
     desc |-> ic.desc]

\* the index requests in creation order: column constraints column by column in textual order, then table constraints
RECURSIVE ConsReqs(_, _, _)
ConsReqs(c, i, acc) ==
    IF i > Len(c.cons) THEN acc
    ELSE LET k == c.cons[i]
         IN  CASE k.k = "pk" ->
                    ConsReqs(c, i + 1, Append(acc, [k |-> "pk", level |-> "column",
                                                    cols |-> <<[name |-> c.name, coll |-> "", desc |-> k.desc]>>]))
               [] k.k = "unique" ->
                    ConsReqs(c, i + 1, Append(acc, [k |-> "unique", level |-> "column",
                                                    cols |-> <<[name |-> c.name, coll |-> "", desc |-> FALSE]>>]))
               [] OTHER -> ConsReqs(c, i + 1, acc)

RECURSIVE ColReqs(_, _)
ColReqs(ast, i) == IF i > Len(ast.cols) THEN <<>> ELSE ConsReqs(ast.cols[i], 1, <<>>) \o ColReqs(ast, i + 1)

Requests(ast) ==
    ColReqs(ast, 1) \o [i \in 1..Len(ast.tcons) |-> [k |-> ast.tcons[i].k, level |-> "table", cols |-> ast.tcons[i].cols]]

\* two constraint indexes are the same index iff same columns and same collations (the sort order is NOT compared)
SameIndex(a, b) ==
    /\ Len(a) = Len(b)
    /\ \A k \in 1..Len(a) : a[k].name = b[k].name /\ a[k].coll = b[k].coll

AutoName(ast, n) == "sqlite_autoindex_" \o ast.name \o "_" \o ToString(n)

\* add a constraint index unless the same index exists already; a PRIMARY KEY marks the index it lands on
AddIndex(ast, st, cols, isPk) ==
    LET dup == {j \in 1..Len(st.indexes) : SameIndex(st.indexes[j].cols, cols)}
    IN  IF dup # {}
          THEN LET j == CHOOSE x \in dup : TRUE
               IN  IF isPk THEN [st EXCEPT !.indexes[j].pk = TRUE] ELSE st
          ELSE [st EXCEPT !.indexes = Append(@, [name |-> AutoName(ast, Len(st.indexes) + 1), pk |-> isPk, cols |-> cols])]

RECURSIVE Fold(_, _, _, _)
Fold(ast, reqs, i, st) ==
    IF i > Len(reqs) THEN st
    ELSE LET r    == reqs[i]
             cols == [k \in 1..Len(r.cols) |-> Resolve(ast, r.cols[k])]
             \* a single INTEGER column, not DESC at column level: the parser makes it the rowid (iPKey) at once
             isIpk == /\ r.k = "pk" /\ Len(cols) = 1
                      /\ HasCol(ast, cols[1].name) /\ Col(ast, cols[1].name).isint
                      /\ (r.level = "table" \/ ~cols[1].desc)
             st1  == IF r.k = "pk" THEN [st EXCEPT !.pk = [k \in 1..Len(cols) |-> cols[k].name], !.pkcols = cols] ELSE st
         IN  IF isIpk /\ ~ast.wr THEN Fold(ast, reqs, i + 1, [st1 EXCEPT !.alias = cols[1].name])
             ELSE IF isIpk /\ ast.wr
               \* WITHOUT ROWID is only known at the end of the statement: the primary key index of such a column
               \* is created last, from the column name alone (an explicit COLLATE in the constraint is lost,
               \* the direction is kept)
               THEN Fold(ast, reqs, i + 1,
                         [st1 EXCEPT !.deferred = <<[name |-> cols[1].name, coll |-> ColColl(Col(ast, cols[1].name)),
                                                    desc |-> cols[1].desc]>>,
                                     !.pkcols = <<[name |-> cols[1].name, coll |-> ColColl(Col(ast, cols[1].name)),
                                                   desc |-> cols[1].desc]>>])
             ELSE Fold(ast, reqs, i + 1, AddIndex(ast, st1, cols, r.k = "pk"))

Interpret(ast) ==
    LET st0 == Fold(ast, Requests(ast), 1, [alias |-> "", pk |-> <<>>, pkcols |-> <<>>, indexes |-> <<>>, deferred |-> <<>>])
        st  == IF st0.deferred = <<>> THEN st0 ELSE AddIndex(ast, st0, st0.deferred, TRUE)
        explicit == [i \in 1..Len(ast.idx) |->
                        [name |-> ast.idx[i].name, pk |-> FALSE,
                         cols |-> [k \in 1..Len(ast.idx[i].cols) |-> Resolve(ast, ast.idx[i].cols[k])]]]
    IN  [alias |-> st.alias, pk |-> st.pk, pkcols |-> st.pkcols, indexes |-> st.indexes \o explicit]

-----------------------------------------------------------------------------
(* internal consistency of the rules (checked on every enumerated AST)      *)
IndexNames(I) == {I.indexes[i].name : i \in 1..Len(I.indexes)}
Consistent(ast) ==
    LET I == Interpret(ast)
    IN  /\ Cardinality(IndexNames(I)) = Len(I.indexes)                    \* names are unique
        /\ I.alias # "" => (I.pk = <<I.alias>> /\ ~ast.wr)
        /\ \A i \in 1..Len(I.pk) : HasCol(ast, I.pk[i])
        /\ \A i \in 1..Len(I.indexes) : I.indexes[i].pk => [k \in 1..Len(I.indexes[i].cols) |-> I.indexes[i].cols[k].name] = I.pk

-----------------------------------------------------------------------------
(* What SQLite itself reports (PRAGMA table_xinfo / index_list / index_xinfo), in the same shape:   *)
(*   sq = [alias, pk, indexes |-> << [name, pk, cols] >>]  (indexes in creation order)              *)
SpecMatchesSqlite(ast, sq) ==
    LET I == Interpret(ast)
    IN  /\ I.alias = sq.alias
        /\ I.pk = sq.pk
        /\ Len(I.indexes) = Len(sq.indexes)
        /\ \A i \in 1..Len(I.indexes) :
              \E j \in 1..Len(sq.indexes) :
                 /\ sq.indexes[j].name = I.indexes[i].name
                 /\ sq.indexes[j].cols = I.indexes[i].cols
                 /\ sq.indexes[j].pk = I.indexes[i].pk

\* What sqlittle reports (db.Database.Schema), res = [err, cols, wr, alias, pk, pkcols, primarykey, indexes]:
\* rejected, or an index left out, never described wrongly
NormColl(c) == IF c = "" THEN "binary" ELSE c
NormCols(cs) == [k \in 1..Len(cs) |-> [name |-> cs[k].name, coll |-> NormColl(cs[k].coll), desc |-> cs[k].desc]]

SchemaOK(ast, res) ==
    LET I == Interpret(ast)
    IN  res.err \/
        /\ res.cols = [i \in 1..Len(ast.cols) |-> ast.cols[i].name]
        /\ res.wr = ast.wr
        /\ res.alias = I.alias
        \* the primary key: rowid alias, an index (by name), or for WITHOUT ROWID the key columns themselves
        /\ ast.wr => \E j \in 1..Len(I.indexes) : I.indexes[j].pk /\ NormCols(res.pkcols) = I.indexes[j].cols
        /\ (~ast.wr /\ I.alias = "" /\ I.pk # <<>> /\ res.primarykey # "") =>
              \E j \in 1..Len(I.indexes) : I.indexes[j].pk /\ I.indexes[j].name = res.primarykey
        \* every index it reports exists under that name with exactly these key columns
        /\ \A i \in 1..Len(res.indexes) :
              \E j \in 1..Len(I.indexes) :
                 /\ I.indexes[j].name = res.indexes[i].name
                 /\ I.indexes[j].cols = NormCols(res.indexes[i].cols)
                 /\ ~(ast.wr /\ I.indexes[j].pk)          \* the WITHOUT ROWID primary key is the table, not an index

-----------------------------------------------------------------------------
(* C16 locality: what the parser reports about one element equals that element of the generating AST,   *)
(* whatever stands next to it.  parsed = [ok, cols |-> <<[name, pk, pkdesc, autoinc, unique, notnull,    *)
(* collate, hasdefault, ncheck, references]>>, tcons, wr] for CREATE TABLE.                              *)
HasCons(c, kind) == \E i \in 1..Len(c.cons) : c.cons[i].k = kind
LastCons(c, kind) == c.cons[CHOOSE i \in {j \in 1..Len(c.cons) : c.cons[j].k = kind} :
                                \A j \in {x \in 1..Len(c.cons) : c.cons[x].k = kind} : j <= i]
NCons(c, kind) == Cardinality({i \in 1..Len(c.cons) : c.cons[i].k = kind})

ColumnReportOK(c, p) ==
    /\ p.name = c.name
    /\ p.pk = HasCons(c, "pk")
    /\ HasCons(c, "pk") => (p.pkdesc = LastCons(c, "pk").desc /\ p.autoinc = LastCons(c, "pk").autoinc)
    /\ ~HasCons(c, "pk") => (~p.pkdesc /\ ~p.autoinc)
    /\ p.unique = HasCons(c, "unique")
    /\ p.collate = (IF HasCons(c, "collate") THEN LastCons(c, "collate").c ELSE "")
    /\ p.hasdefault = HasCons(c, "default")
    \* the value of a literal default is the one its own text denotes (dv = "?": a form not compared)
    /\ \A j \in 1..Len(c.cons) : (c.cons[j].k = "default" /\ c.cons[j].dv # "?") => p.defaultval = c.cons[j].dv
    /\ p.ncheck = NCons(c, "check")
    /\ p.references = HasCons(c, "references")
    \* NULL / NOT NULL: the last one written wins, default nullable
    /\ p.notnull = (IF HasCons(c, "notnull") \/ HasCons(c, "null")
                    THEN LET ks == {i \in 1..Len(c.cons) : c.cons[i].k \in {"notnull", "null"}}
                         IN  c.cons[CHOOSE i \in ks : \A j \in ks : j <= i].k = "notnull"
                    ELSE FALSE)

IndexedColsOK(cs, ps) ==
    /\ Len(cs) = Len(ps)
    /\ \A k \in 1..Len(cs) : ps[k].name = cs[k].name /\ ps[k].coll = cs[k].coll /\ ps[k].desc = cs[k].desc

ParseTableOK(ast, parsed) ==
    /\ parsed.ok
    /\ parsed.wr = ast.wr
    /\ Len(parsed.cols) = Len(ast.cols)
    /\ \A i \in 1..Len(ast.cols) : ColumnReportOK(ast.cols[i], parsed.cols[i])
    /\ Len(parsed.tcons) = Len(ast.tcons)
    /\ \A i \in 1..Len(ast.tcons) : parsed.tcons[i].k = ast.tcons[i].k /\ IndexedColsOK(ast.tcons[i].cols, parsed.tcons[i].cols)

ParseIndexOK(ix, parsed) ==
    /\ parsed.ok
    /\ parsed.name = ix.name /\ parsed.unique = ix.unique
    /\ IndexedColsOK(ix.cols, parsed.cols)
=============================================================================

SPECIFICATION Spec
INVARIANT Reflexive
INVARIANT AntiSym
INVARIANT Transitive
INVARIANT EqTrans
INVARIANT ClassOrder
INVARIANT EqConsistent
INVARIANT DescReverses
INVARIANT Monotone
INVARIANT ShortRecord
CHECK_DEADLOCK FALSE

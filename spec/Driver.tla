------------------------------- MODULE Driver -------------------------------
(***************************************************************************)
(* driver/driver.go: one result set of the database/sql driver.            *)
(*                                                                         *)
(* QueryContext starts a PRODUCER goroutine that runs SelectDone under the *)
(* file lock; its row callback does   select { <-ctx.Done: stop ;          *)
(* rows <- row: continue }   on an UNBUFFERED channel; afterwards it       *)
(* stores the error, signals the wait group and (deferred) closes the      *)
(* channel.  The CONSUMER (database/sql) calls Next any number of times    *)
(* and finally Close (cancel, wait for the wait group, return the error);  *)
(* an external context cancel may arrive at any time.                      *)
(*                                                                         *)
(* N rows; FaultAt = j > 0: producing row j fails (read error / corrupt    *)
(* page met during the scan), j = N+1: the failure comes after the last    *)
(* row; 0: no failure.                                                     *)
(***************************************************************************)
EXTENDS Integers, Sequences, TLC

CONSTANTS MaxN          \* bound on the number of rows (model checking)

VARIABLES N,          \* rows of the result
          FaultAt,    \* see above
          ppc,        \* producer: "start" "scan" "select" "unlock" "seterr" "wgdone" "closechan" "done"
          nexti,      \* next row the producer will offer (1..N+1)
          perr,       \* error SelectDone returned (producer local): "none" | "scan"
          locked,     \* the file's read lock is held
          cancelled,  \* ctx.Done() is closed
          err,        \* Rows.err
          wg,         \* wait group counter
          closed,     \* the channel is closed
          cpc,        \* consumer: "idle" "next" "closewait" "closed"
          got,        \* rows Next returned so far
          ended,      \* what the last Next returned at the end of the stream: "-" | "eof" | "err"
          closeres    \* what Close returned: "-" | "nil" | "err"

dvars == <<N, FaultAt, ppc, nexti, perr, locked, cancelled, err, wg, closed, cpc, got, ended, closeres>>

DInit ==
    /\ N \in 0..MaxN /\ FaultAt \in 0..(N + 1)
    /\ ppc = "start" /\ nexti = 1 /\ perr = "none" /\ locked = FALSE /\ cancelled = FALSE
    /\ err = "none" /\ wg = 1 /\ closed = FALSE
    /\ cpc = "idle" /\ got = 0 /\ ended = "-" /\ closeres = "-"

\* ---- producer
PLock ==        \* SelectDone: RLock
    /\ ppc = "start" /\ locked' = TRUE /\ ppc' = "scan"
    /\ UNCHANGED <<N, FaultAt, nexti, perr, cancelled, err, wg, closed, cpc, got, ended, closeres>>
PScan ==        \* the scan reaches the next row, the end, or a failure
    /\ ppc = "scan"
    /\ IF FaultAt = nexti THEN ppc' = "unlock" /\ perr' = "scan"
       ELSE IF nexti > N THEN ppc' = "unlock" /\ UNCHANGED perr
       ELSE ppc' = "select" /\ UNCHANGED perr
    /\ UNCHANGED <<N, FaultAt, nexti, locked, cancelled, err, wg, closed, cpc, got, ended, closeres>>
PSelectCancelled ==   \* callback: case <-ctx.Done(): return true (scan stops, no error)
    /\ ppc = "select" /\ cancelled
    /\ ppc' = "unlock"
    /\ UNCHANGED <<N, FaultAt, nexti, perr, locked, cancelled, err, wg, closed, cpc, got, ended, closeres>>
Handoff ==            \* callback: case rows <- row, together with the consumer's receive in Next
    /\ ppc = "select" /\ cpc = "next"
    /\ nexti' = nexti + 1 /\ ppc' = "scan"
    /\ got' = got + 1 /\ cpc' = "idle"
    /\ UNCHANGED <<N, FaultAt, perr, locked, cancelled, err, wg, closed, ended, closeres>>
PUnlock ==      \* deferred RUnlock inside SelectDone
    /\ ppc = "unlock" /\ locked' = FALSE /\ ppc' = "seterr"
    /\ UNCHANGED <<N, FaultAt, nexti, perr, cancelled, err, wg, closed, cpc, got, ended, closeres>>
PSetErr ==
    /\ ppc = "seterr" /\ err' = perr /\ ppc' = "wgdone"
    /\ UNCHANGED <<N, FaultAt, nexti, perr, locked, cancelled, wg, closed, cpc, got, ended, closeres>>
PWgDone ==
    /\ ppc = "wgdone" /\ wg' = 0 /\ ppc' = "closechan"
    /\ UNCHANGED <<N, FaultAt, nexti, perr, locked, cancelled, err, closed, cpc, got, ended, closeres>>
PCloseChan ==
    /\ ppc = "closechan" /\ closed' = TRUE /\ ppc' = "done"
    /\ UNCHANGED <<N, FaultAt, nexti, perr, locked, cancelled, err, wg, cpc, got, ended, closeres>>

\* ---- consumer
CNext ==        \* Next is called
    /\ cpc = "idle" /\ ended = "-"
    /\ cpc' = "next"
    /\ UNCHANGED <<N, FaultAt, ppc, nexti, perr, locked, cancelled, err, wg, closed, got, ended, closeres>>
CNextClosed ==  \* the receive sees the closed channel: the stored error, or io.EOF
    /\ cpc = "next" /\ closed
    /\ ended' = IF err # "none" THEN "err" ELSE "eof"
    /\ cpc' = "idle"
    /\ UNCHANGED <<N, FaultAt, ppc, nexti, perr, locked, cancelled, err, wg, closed, got, closeres>>
CCloseStart ==  \* Close: cancel()
    /\ cpc = "idle"
    /\ cancelled' = TRUE /\ cpc' = "closewait"
    /\ UNCHANGED <<N, FaultAt, ppc, nexti, perr, locked, err, wg, closed, got, ended, closeres>>
CCloseDone ==   \* wg.Wait() returned: return r.err
    /\ cpc = "closewait" /\ wg = 0
    /\ closeres' = IF err # "none" THEN "err" ELSE "nil"
    /\ cpc' = "closed"
    /\ UNCHANGED <<N, FaultAt, ppc, nexti, perr, locked, cancelled, err, wg, closed, got, ended>>
ExternalCancel ==     \* the caller's context is cancelled
    /\ ~cancelled /\ cancelled' = TRUE
    /\ UNCHANGED <<N, FaultAt, ppc, nexti, perr, locked, err, wg, closed, cpc, got, ended, closeres>>

Terminal == (cpc = "closed" /\ ppc = "done") \/ (ppc = "done" /\ cpc = "idle" /\ ended # "-")
Finished == Terminal /\ UNCHANGED dvars      \* so that TLC's deadlock check only reports real stuck states

DNext == Finished \/ PLock \/ PScan \/ PSelectCancelled \/ Handoff \/ PUnlock \/ PSetErr \/ PWgDone \/ PCloseChan
         \/ CNext \/ CNextClosed \/ CCloseStart \/ CCloseDone \/ ExternalCancel

DSpec == DInit /\ [][DNext]_dvars

-----------------------------------------------------------------------------
\* C19: closing (at any row) stops the producer and releases the file lock
Cleanup == cpc = "closed" => (ppc \in {"closechan", "done"} /\ ~locked)
\* the error is published before the channel is closed, so Next never turns a failure into a clean EOF
ErrBeforeClose == closed => err = perr
NoSilentShort ==
    (ended = "eof") => (perr = "none")
\* rows are handed over one by one, in order, at most the rows produced
PrefixDelivered == got = nexti - 1 /\ got <= N
\* a failure is visible to the consumer once the stream is over: through Next or through Close
FailureSurfaces ==
    (cpc = "closed" /\ perr = "scan") => closeres = "err"
\* no stuck state: whenever the consumer waits in Close, the producer can always get to wgdone
\* (checked as: every reachable state with cpc = "closewait" has a successor) -- TLC deadlock check with
\* the terminal states below excluded
=============================================================================

------------------------------- MODULE RowScan -------------------------------
(***************************************************************************)
(* Row.Scan (row.go): (a) the documented outcome of scanning a stored      *)
(* value into a Go destination, (b) the lifetime of what Scan hands out.   *)
(*                                                                         *)
(* (a) A stored value is abstracted to its kind:                           *)
(*   "null" | "int" | "real" | "blob" | text by what it spells:            *)
(*   "text-int" ("123", "-7"), "text-real" ("1.5", "1e3"), "text-time"     *)
(*   ("2006-01-02 15:04:05" with optional ".000"), "text-other"            *)
(*   (anything else: "123test", "", " 5", "abc").  blob-* likewise for the *)
(*   bytes of a blob.  A column beyond the row's width is "missing".       *)
(* Destinations: "string" "bytes" "int64" "int32" "int" "bool" "float64"   *)
(*   "time" "nil" and "unsupported" (any other pointer or value).          *)
(*                                                                         *)
(* Outcome(kind, dest) \in {"value", "zero", "error", "skip"}:             *)
(*   value  converted (identity for same-class destinations)               *)
(*   zero   the destination's zero value (NULL and missing columns)        *)
(*   error  Scan returns an error                                          *)
(*   skip   nil destination: column skipped                                *)
(***************************************************************************)
EXTENDS Integers, Sequences, FiniteSets

Kinds == {"null", "missing", "int", "real", "text-int", "text-real", "text-time", "text-other",
          "blob-int", "blob-real", "blob-time", "blob-other"}
Dests == {"string", "bytes", "int64", "int32", "int", "bool", "float64", "time", "nil", "unsupported"}

IsText(k) == k \in {"text-int", "text-real", "text-time", "text-other"}
IsBlob(k) == k \in {"blob-int", "blob-real", "blob-time", "blob-other"}
Spells(k) == CASE k \in {"text-int", "blob-int"} -> "int" [] k \in {"text-real", "blob-real"} -> "real"
               [] k \in {"text-time", "blob-time"} -> "time" [] OTHER -> "other"

Outcome(k, d) ==
    CASE d = "nil" -> "skip"
      [] d = "unsupported" -> "error"
      [] k \in {"null", "missing"} -> "zero"
      [] d \in {"string", "bytes"} -> "value"                    \* everything converts to text
      [] d \in {"int64", "int32", "int", "bool"} ->
            IF k \in {"int", "real"} THEN "value"
            ELSE IF Spells(k) \in {"int", "real"} THEN "value" ELSE "error"     \* numeric text strictly parsed
      [] d = "float64" ->
            IF k \in {"int", "real"} THEN "value"
            ELSE IF Spells(k) \in {"int", "real"} THEN "value" ELSE "error"
      [] d = "time" ->
            IF k = "int" THEN "value"                               \* unix seconds
            ELSE IF k = "real" THEN "error"
            ELSE IF IsText(k) /\ Spells(k) = "time" THEN "value"
            ELSE "error"                                            \* other text, every blob

\* Scan with several destinations stops at the first error; destinations before it are filled.
RECURSIVE FirstError(_, _, _)
FirstError(kinds, dests, i) ==
    IF i > Len(dests) THEN 0
    ELSE IF Outcome(IF i <= Len(kinds) THEN kinds[i] ELSE "missing", dests[i]) = "error" THEN i
    ELSE FirstError(kinds, dests, i + 1)

ScanFails(kinds, dests) == FirstError(kinds, dests, 1) # 0

-----------------------------------------------------------------------------
(* (b) Lifetime.  Bytes live in: the file, the handle's cached page (a copy *)
(* of the file made by the pager), the value Scan handed out.  The          *)
(* property: what Scan hands out is independent of everything else.         *)

VARIABLES file,      \* committed content of the cell ("A" originally)
          cached,    \* content of the handle's cached copy of the page, or "none"
          scanned,   \* content of the slice Scan returned, or "none"
          alias,     \* the scanned slice shares memory with the cached page (what must never be)
          open,      \* the handle is open
          last
lvars == <<file, cached, scanned, alias, open, last>>

CONSTANT ScanCopies    \* TRUE: Scan returns a copy (the documented behaviour)

LInit == file = "A" /\ cached = "none" /\ scanned = "none" /\ alias = FALSE /\ open = TRUE /\ last = "init"

Read ==          \* a select reads the cell (through the cache)
    /\ open
    /\ cached' = IF cached = "none" THEN file ELSE cached
    /\ last' = "read" /\ UNCHANGED <<file, scanned, alias, open>>
Scan ==
    /\ open /\ cached # "none"
    /\ scanned' = cached
    /\ alias' = ~ScanCopies
    /\ last' = "scan" /\ UNCHANGED <<file, cached, open>>
Mutate ==        \* the caller overwrites the bytes it got
    /\ scanned # "none"
    /\ scanned' = "M"
    /\ cached' = IF alias /\ cached # "none" THEN "M" ELSE cached
    /\ last' = "mutate" /\ UNCHANGED <<file, alias, open>>
Commit ==        \* another connection rewrites the cell; the next transaction drops the cache
    /\ file' = "B" /\ cached' = "none" /\ alias' = FALSE
    /\ last' = "commit" /\ UNCHANGED <<scanned, open>>
CloseDb ==
    /\ open /\ open' = FALSE /\ cached' = "none" /\ alias' = FALSE
    /\ last' = "close" /\ UNCHANGED <<file, scanned>>

LNext == Read \/ Scan \/ Mutate \/ Commit \/ CloseDb
LSpec == LInit /\ [][LNext]_lvars

\* what a later read returns is what the file holds, whatever was done to scanned values
ReadsSeeFile == cached # "none" => cached = file
\* a scanned value changes only when its owner changes it
Independent == ~alias
=============================================================================

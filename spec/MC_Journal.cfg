SPECIFICATION JSpec
CONSTANTS
  Modified = {1, 2, 3}
  Mode = "DELETE"
  NoSync = FALSE
INVARIANT NeverReadsUnfinished
INVARIANT PostCommitReadable
INVARIANT AtomicCommit
CHECK_DEADLOCK FALSE

SPECIFICATION JSpec
CONSTANTS
  Modified = {1, 2}
  Appended = {3, 4}
  Mode = "DELETE"
  NoSync = FALSE
  HdrChunks = 1
INVARIANT NeverReadsUnfinished
INVARIANT PostCommitReadable
INVARIANT AtomicCommit
CHECK_DEADLOCK FALSE

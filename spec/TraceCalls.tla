----------------------------- MODULE TraceCalls -----------------------------
(***************************************************************************)
(* Trace validation of independent call events recorded from the real      *)
(* code.  Every line of calls.ndjson is one call of an implementation      *)
(* function with its arguments and its result `res`; `sq`, when present,   *)
(* is what real SQLite answered on the same arguments (mode C: it          *)
(* validates the specification itself).                                    *)
(*                                                                         *)
(* The trace is consumed one event per step; the specification's answer    *)
(* Expected(e) is evaluated at every step; disagreeing event numbers are   *)
(* accumulated (all of them are needed to subtract listed known findings)  *)
(* and written to verdict.json when the last event has been consumed.      *)
(***************************************************************************)
EXTENDS Values, Format, Json, TLC

Trace == ndJsonDeserialize("calls.ndjson")

VARIABLES l, bad, specbad
vars == <<l, bad, specbad>>

\* Result rows of a select against the rows real SQLite returns for the same query.  Values must
\* have the same storage class and be equal; an integral REAL may surface as an integer (documented).
ValMatch(x, y) == ClassRank(x) = ClassRank(y) /\ Cmp(x, y, "binary") = 0
RowMatch(a, b) == Len(a) = Len(b) /\ \A j \in 1..Len(a) : ValMatch(a[j], b[j])
RowsMatch(got, want) == Len(got) = Len(want) /\ \A i \in 1..Len(got) : RowMatch(got[i], want[i])

Expected(e) ==
    CASE e.op = "cmp"    -> Cmp(e.a, e.b, e.coll)
      [] e.op = "equals" -> KeyEquals(e.key, e.rec)
      [] e.op = "search" -> KeyNotLess(e.key, e.rec)
      [] e.op = "local"  -> LocalPayload(e.u, e.p, e.idx)
      [] e.op = "varint" -> VarintDecode(e.bytes)
      [] e.op = "record" -> RecordDecode(e.bytes)
      [] e.op = "ovfl"   -> OverflowPages(e.u, e.p, e.idx)
      [] e.op = "rows"   -> RowsMatch(e.got, e.want)

HasSq(e) == "sq" \in DOMAIN e

Init == l = 1 /\ bad = <<>> /\ specbad = <<>>

Step ==
    /\ l <= Len(Trace)
    /\ LET e == Trace[l]
           x == Expected(e)
       IN  /\ bad' = IF x = e.res THEN bad ELSE Append(bad, l)
           /\ specbad' = IF HasSq(e) /\ x # e.sq THEN Append(specbad, l) ELSE specbad
    /\ l' = l + 1

Next == Step

Spec == Init /\ [][Next]_vars

\* evaluated in every state; writes the verdict in the final one
VerdictWritten ==
    l = Len(Trace) + 1 =>
        JsonSerialize("verdict.json", [n |-> Len(Trace), bad |-> bad, specbad |-> specbad])

=============================================================================

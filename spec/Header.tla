------------------------------- MODULE Header -------------------------------
(***************************************************************************)
(* The 100-byte database header: field map, and the classification C15     *)
(* states: which headers a reader of plain UTF-8 rollback-journal          *)
(* databases must accept, which it must refuse, and which are left open.   *)
(* A header is a sequence of 100 byte values (1-based here, offsets in the *)
(* file format documentation are 0-based).                                 *)
(***************************************************************************)
EXTENDS Integers, Sequences

Magic == <<83, 81, 76, 105, 116, 101, 32, 102, 111, 114, 109, 97, 116, 32, 51, 0>>   \* "SQLite format 3\000"

U16(h, off) == h[off + 1] * 256 + h[off + 2]
\* big-endian 32-bit field as a pair <<high 16 bits, low 16 bits>> (TLC integers are 32-bit signed)
U32(h, off) == <<U16(h, off), U16(h, off + 2)>>

LegalPageSizes == {512, 1024, 2048, 4096, 8192, 16384, 32768, 65536}

PageSize(h) == IF U16(h, 16) = 1 THEN 65536 ELSE U16(h, 16)
ChangeCounter(h) == U32(h, 24)
SchemaCookie(h) == U32(h, 40)
ReadVersion(h) == h[20]
ReservedSpace(h) == h[21]
SchemaFormat(h) == U32(h, 44)
TextEncoding(h) == U32(h, 56)

\* the header must be refused (C15, first sentence)
MustReject(h) ==
    \/ SubSeq(h, 1, 16) # Magic
    \/ PageSize(h) \notin LegalPageSizes
    \/ ReadVersion(h) # 1                                   \* 2 = WAL, anything else unknown
    \/ ReservedSpace(h) # 0
    \/ SchemaFormat(h) \notin {<<0, 0>>, <<0, 1>>, <<0, 2>>, <<0, 3>>, <<0, 4>>}
    \/ TextEncoding(h) \notin {<<0, 0>>, <<0, 1>>}          \* 2, 3 = UTF-16, others invalid

\* fields whose values SQLite itself also refuses or whose handling the property leaves open:
\* payload fractions (must be 64/32/32 for SQLite), schema format 0 (no schema yet) and 1 (DESC ignored),
\* text encoding 0 (no schema yet), the reserved-for-expansion area
LeftOpen(h) ==
    \/ <<h[22], h[23], h[24]>> # <<64, 32, 32>>
    \/ SchemaFormat(h) \in {<<0, 0>>, <<0, 1>>}
    \/ TextEncoding(h) = <<0, 0>>
    \/ \E i \in 73..92 : h[i] # 0

Class(h) == IF MustReject(h) THEN "reject" ELSE IF LeftOpen(h) THEN "either" ELSE "accept"

\* offsets (0-based) of the fields that do not affect reading: any value must be accepted
FreeOffsets == {18} \cup (24..43) \cup (48..55) \cup (60..71) \cup (92..99)
=============================================================================

SPECIFICATION CSpec
CONSTANTS
  NPages = 3
  R = 3
  Fuel = 200
  BoundedChain = TRUE
INVARIANT Robust
CHECK_DEADLOCK FALSE

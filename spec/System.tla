------------------------------- MODULE System -------------------------------
(***************************************************************************)
(* Several sqlittle handles used from concurrent goroutines of ONE process *)
(* (C20).  Every handle runs operations; an operation is a sequence of     *)
(* steps (lock, header, page reads, callbacks, unlock) over the handle's   *)
(* PRIVATE state (dirty flag, header, page cache, schema cache).  Handles  *)
(* share only the file, which nobody writes here, and the package-level    *)
(* state of the library (collation table, parser tables), which no step    *)
(* writes.  The scheduler interleaves steps of different handles freely.   *)
(*                                                                         *)
(* What an operation returns is a function of the pages it read.           *)
(***************************************************************************)
EXTENDS Integers, Sequences, FiniteSets, TLC

CONSTANTS Handles, NSteps, NOps

VARIABLES pc,       \* pc[h]: steps of the current operation done so far (0 = between operations)
          ops,      \* ops[h]: operations completed
          cache,    \* cache[h]: private page cache (set of pages)
          acc,      \* acc[h]: what the current operation has read so far (sequence of page ids)
          results,  \* results[h]: results of the completed operations
          shared,   \* package level state: number of writes to it (must stay 0)
          sched     \* the schedule so far (history; which handle moved)

svars == <<pc, ops, cache, acc, results, shared, sched>>
sview == <<pc, ops, cache, acc, results, shared>>

\* the pages operation number k of a handle reads, in order (the same for every handle: same file)
PagesOf(k) == [i \in 1..NSteps |-> ((k + i) % 3) + 1]
Solo(k) == PagesOf(k)                 \* the result of the operation when run alone

SInit ==
    /\ pc = [h \in Handles |-> 0] /\ ops = [h \in Handles |-> 0]
    /\ cache = [h \in Handles |-> {}] /\ acc = [h \in Handles |-> <<>>]
    /\ results = [h \in Handles |-> <<>>] /\ shared = 0 /\ sched = <<>>

\* one step of handle h: it touches nothing but h's own state
Step(h) ==
    /\ ops[h] < NOps
    /\ IF pc[h] < NSteps
         THEN LET p == PagesOf(ops[h] + 1)[pc[h] + 1]
              IN  /\ pc' = [pc EXCEPT ![h] = @ + 1]
                  /\ cache' = [cache EXCEPT ![h] = @ \cup {p}]
                  /\ acc' = [acc EXCEPT ![h] = Append(@, p)]
                  /\ UNCHANGED <<ops, results>>
         ELSE /\ pc' = [pc EXCEPT ![h] = 0]
              /\ ops' = [ops EXCEPT ![h] = @ + 1]
              /\ results' = [results EXCEPT ![h] = Append(@, acc[h])]
              /\ acc' = [acc EXCEPT ![h] = <<>>]
              /\ UNCHANGED cache
    /\ sched' = Append(sched, h)
    /\ UNCHANGED shared

SNext == \E h \in Handles : Step(h)
SSpec == SInit /\ [][SNext]_svars

\* C20: every operation returns what it returns when run alone, whatever the other handles do meanwhile
Independence == \A h \in Handles : \A k \in 1..Len(results[h]) : results[h][k] = Solo(k)
\* no step writes state shared between handles
NoSharedWrites == shared = 0
\* a step of one handle leaves every other handle's private state alone
Isolation == [][\A h \in Handles : (pc'[h] # pc[h] \/ ops'[h] # ops[h]) =>
                    \A g \in Handles \ {h} : cache'[g] = cache[g] /\ acc'[g] = acc[g] /\ results'[g] = results[g]]_svars
=============================================================================

----------------------------- MODULE TraceParse -----------------------------
(***************************************************************************)
(* C16, totality and determinism: every line of parse.ndjson is one input  *)
(* string given to sqlittle's SQL parser three times -- twice in one       *)
(* process (in opposite positions of the call sequence, so that other      *)
(* statements were parsed in between) and once in a fresh process.         *)
(*   r1, r2, r3  canonical rendering of (result, error) of each call       *)
(*   panic       a call panicked          timeout   a call did not return  *)
(***************************************************************************)
EXTENDS Integers, Sequences, Json, TLC

Trace == ndJsonDeserialize("parse.ndjson")

VARIABLES l, bad
vars == <<l, bad>>

Total(e) == ~e.panic /\ ~e.timeout
Deterministic(e) == e.r1 = e.r2 /\ e.r1 = e.r3

Init == l = 1 /\ bad = <<>>
Step ==
    /\ l <= Len(Trace)
    /\ LET e == Trace[l]
           f == (IF Total(e) THEN {} ELSE {"total"}) \cup (IF Deterministic(e) THEN {} ELSE {"deterministic"})
       IN  bad' = IF f = {} THEN bad ELSE Append(bad, [i |-> l, why |-> f])
    /\ l' = l + 1
Spec == Init /\ [][Step]_vars
VerdictWritten == l = Len(Trace) + 1 => JsonSerialize("verdict.json", [n |-> Len(Trace), bad |-> bad])
=============================================================================

SPECIFICATION Spec
CONSTANT CacheLimit = 100
INVARIANT VerdictWritten
CHECK_DEADLOCK FALSE

------------------------------- MODULE Corrupt -------------------------------
(***************************************************************************)
(* Ill-formed page graphs (C05).  The traversals of BTree.tla are run on   *)
(* ARBITRARY small graphs: child, right-most and overflow pointers may be  *)
(* null, point to the page itself, to an ancestor, to a page of the wrong  *)
(* kind or outside the file; payloads may claim more overflow pages than   *)
(* the chain has, or the chain may be cyclic.                              *)
(*                                                                         *)
(* The walk is the one of db/btree.go and db/payload.go: a recursion       *)
(* budget R for interior pages (maxRecursion, 31 in the code), overflow    *)
(* chains followed page by page -- bounded by the payload length when      *)
(* BoundedChain (the repaired addOverflow), unbounded otherwise (the code  *)
(* as found).  Property Robust: every walk ends (with rows and/or an       *)
(* error) within a number of page reads that depends only on the size of   *)
(* the file and R: no hang, no unbounded allocation; and it never takes an *)
(* undefined step (TLC fails on one: the image of a Go panic).             *)
(*                                                                         *)
(* The second half names the corruption RECIPES: which field of a real     *)
(* file is overwritten with which adversarial class of value.  The check   *)
(* applies every recipe to real SQLite-written files.                      *)
(***************************************************************************)
EXTENDS Integers, Sequences, FiniteSets, TLC

CONSTANTS NPages,        \* pages 1..NPages exist; 0 = null pointer, NPages+1 = beyond the file
          R,             \* recursion budget
          Fuel,          \* evaluation fuel: a walk that needs more is "unbounded"
          BoundedChain   \* addOverflow stops after the pages the payload needs

Ptr == 0..(NPages + 1)
Pages == 1..NPages
Kinds == {"leaf", "interior", "overflow", "junk"}

\* a page: kind, up to two child pointers + right-most (interior), per leaf: first overflow page of its one cell
\* and the number of overflow pages its payload claims to need, next pointer (overflow)
PageT == [kind : Kinds, kids : Seq(Ptr), right : Ptr, ovfl : Ptr, need : 0..3, next : Ptr]

VARIABLES g, root
cvars == <<g, root>>

\* result of a walk: [reads, fuel, out] with out in {"ok", "err", "nofuel"}
Spend(s) == IF s.fuel = 0 THEN [s EXCEPT !.out = "nofuel"] ELSE [s EXCEPT !.fuel = @ - 1, !.reads = @ + 1]
Stop(s) == s.out # "ok"

RECURSIVE Chain(_, _, _)
Chain(s, p, need) ==          \* addOverflow: follow the chain from page p
    IF Stop(s) THEN s
    ELSE IF BoundedChain /\ need = 0 THEN s                   \* repaired: enough bytes collected
    ELSE IF p = 0 THEN (IF need > 0 /\ BoundedChain THEN [s EXCEPT !.out = "err"] ELSE s)   \* chain ends
    ELSE IF p > NPages THEN [Spend(s) EXCEPT !.out = "err"]   \* read beyond the file fails
    ELSE Chain(Spend(s), g[p].next, IF need > 0 THEN need - 1 ELSE 0)
    \* note: whatever kind page p has, the code reads its first 4 bytes as the next pointer

RECURSIVE Walk(_, _, _), WalkKids(_, _, _, _)
Walk(s, p, r) ==              \* openPage(p) + Iter(r)
    IF Stop(s) THEN s
    ELSE IF p = 0 \/ p > NPages THEN [Spend(s) EXCEPT !.out = "err"]     \* "invalid page number" / read error
    ELSE LET s1 == Spend(s)
             n  == g[p]
         IN  CASE Stop(s1) -> s1
               [] n.kind \in {"overflow", "junk"} -> [s1 EXCEPT !.out = "err"]   \* unsupported page type
               [] n.kind = "leaf" -> Chain(s1, n.ovfl, n.need)
               [] n.kind = "interior" ->
                     IF r = 0 THEN [s1 EXCEPT !.out = "err"]                     \* tree is too deep
                     ELSE WalkKids(s1, n.kids \o <<n.right>>, 1, r)
WalkKids(s, kids, j, r) ==
    IF j > Len(kids) \/ Stop(s) THEN s ELSE WalkKids(Walk(s, kids[j], r - 1), kids, j + 1, r)

Result == Walk([reads |-> 0, fuel |-> Fuel, out |-> "ok"], root, R)

CInit ==
    /\ root \in Pages
    /\ g \in [Pages -> {pg \in [kind : Kinds, kids : {<<>>} \cup {<<a>> : a \in Ptr}, right : Ptr, ovfl : Ptr, need : 0..2, next : Ptr] :
                          /\ (pg.kind # "interior" => pg.kids = <<>> /\ pg.right = 0)
                          /\ (pg.kind # "leaf" => pg.ovfl = 0 /\ pg.need = 0)
                          /\ (pg.kind \notin {"overflow", "junk"} => pg.next = 0)}]
CNext == UNCHANGED cvars
CSpec == CInit /\ [][CNext]_cvars

\* the bound: every interior page visit fans out to at most 2 children and the recursion is at most R deep;
\* every leaf visit reads at most `need` (repaired) overflow pages
Bound == 3 * (2 ^ (R + 1))
Robust == Result.out \in {"ok", "err"} /\ Result.reads <= Bound

-----------------------------------------------------------------------------
(* Corruption recipes for real files: (site, class)                         *)
Sites == {"child-pointer", "rightmost-pointer", "overflow-first", "overflow-next", "cell-count", "cell-pointer",
          "payload-length", "record-header-size", "serial-type", "rowid-varint", "page-type", "master-rootpage",
          "master-sql", "header-field", "truncate", "free-bytes", "journal-bytes", "byte-sweep", "journal-header"}
Classes == {"zero", "self", "root", "other-kind", "beyond-file", "max32", "huge-length", "negative-varint", "plus-one",
            "minus-one", "doubled", "random-byte", "text-garbage", "cut", "shortened", "inconsistent", "window"}
\* which classes make sense at which site
Applies(site, class) ==
    CASE site \in {"child-pointer", "rightmost-pointer", "overflow-first", "overflow-next", "master-rootpage"} ->
            class \in {"zero", "self", "root", "other-kind", "beyond-file", "max32"}
      \* "window": every cell count for which the pointer array ends within the last 64 bytes of the page or just beyond it
      [] site = "cell-count" -> class \in {"zero", "plus-one", "doubled", "max32", "random-byte", "window"}
      [] site = "cell-pointer" -> class \in {"zero", "plus-one", "doubled", "max32", "random-byte"}
      \* "shortened": a payload length reduced by 2..8, so that the record ends inside its last value, whatever its width
      [] site = "payload-length" -> class \in {"zero", "plus-one", "minus-one", "doubled", "huge-length", "negative-varint", "shortened"}
      [] site \in {"record-header-size", "serial-type", "rowid-varint"} ->
            class \in {"zero", "plus-one", "minus-one", "doubled", "huge-length", "negative-varint"}
      \* "byte-sweep": EVERY byte of the structured part of every page of a small file (page headers, cell pointer
      \* arrays, cell headers, record headers, first and last bytes of the bodies), one image per byte and class;
      \* huge-length = the varint continuation bit set
      \* doubled = 0x80: a varint byte that is nothing but the continuation bit (over-long encodings: 80 01 = 1)
      [] site = "byte-sweep" -> class \in {"zero", "max32", "plus-one", "minus-one", "huge-length", "doubled"}
      \* "journal-header": a well-formed hot-journal header (magic, record count, nonce, initial size, sector size, page
      \* size) with ONE field replaced -- doubled = every power of two 2^0..2^31 -- or the file cut at every length
      \* around the header and the first sector
      [] site = "journal-header" -> class \in {"zero", "plus-one", "minus-one", "doubled", "max32", "huge-length", "cut"}
      [] site = "page-type" -> class \in {"zero", "other-kind", "random-byte"}
      \* "inconsistent": a syntactically fine definition that does not describe the stored b-tree, or that SQLite itself
      \* would refuse (constraint on a column that does not exist, duplicate columns, WITHOUT ROWID flipped, fewer / more
      \* columns than stored, table and index definitions swapped, index on another table's columns)
      [] site = "master-sql" -> class \in {"text-garbage", "zero", "cut", "inconsistent"}
      [] site \in {"header-field", "free-bytes"} -> class \in {"random-byte", "zero", "max32"}
      [] site = "truncate" -> class = "cut"
      [] site = "journal-bytes" -> class \in {"random-byte", "text-garbage", "cut"}
Recipes == {<<s, c>> \in Sites \X Classes : Applies(s, c)}
=============================================================================

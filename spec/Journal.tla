------------------------------- MODULE Journal -------------------------------
(***************************************************************************)
(* One write transaction of a real SQLite connection in rollback-journal   *)
(* mode at the grain of its system calls (pager.c as observed through the  *)
(* syscall log of SQLite 3.40.1), the process dying at any point, and what *)
(* the two readers make of the files left behind:                          *)
(*    SqliteRecovered  -- SQLite's own hot-journal rule and playback       *)
(*    SqlittleOutcome  -- db/journal.go validJournal + the reserved-lock   *)
(*                        probe of db/database.go resolveDirty             *)
(*                                                                         *)
(* The journal is a sequence of segments; each starts with a header        *)
(* (one sector) and holds page records.  A header on disk has its magic    *)
(* and record count only after the segment was synced (synchronous=FULL),  *)
(* or magic + "count unknown" at once (synchronous=OFF).  A database page  *)
(* may be overwritten only once its journal record is covered by a header  *)
(* with magic (write-ahead rule).                                          *)
(*                                                                         *)
(* Pages are abstract: Modified is the set the transaction changes.        *)
(***************************************************************************)
EXTENDS Integers, Sequences, FiniteSets

CONSTANTS Modified,     \* existing pages the transaction changes (they are journaled first)
          Appended,     \* pages the transaction adds beyond the original end of the file (never journaled: recovery
                        \* truncates the file back to the size recorded in the journal header)
          Mode,         \* "DELETE" | "TRUNCATE" | "PERSIST"
          NoSync,       \* synchronous=OFF: headers carry magic and nRec = -1 (unknown) from the start
          HdrChunks     \* write calls one journal header takes: SQLite fills the header's SECTOR with copies of the
                        \* header, min(page size, sector size) bytes per call -- 1 unless the sector is larger than the page

VARIABLES ph,          \* "active" | "committing" | "finalized"
          jexists,     \* the -journal file exists
          jfirstfull,  \* its first sector (first header) was written completely
          segs,        \* <<[magic, nrec, recs]>>: nrec = -1 means "all complete records" (NoSync)
          partial,     \* the last record is only partly on disk
          dbnew,       \* database pages carrying the new content
          dbtorn,      \* database pages half overwritten
          dbapp,       \* appended pages present in the file (wholly or partly)
          dead,        \* the writer process died (its locks are gone)
          hch          \* chunks of the last header written so far (HdrChunks when complete)

jvars == <<ph, jexists, jfirstfull, segs, partial, dbnew, dbtorn, dbapp, dead, hch>>

JInit ==
    /\ ph = "active" /\ jexists = FALSE /\ jfirstfull = FALSE /\ segs = <<>> /\ partial = FALSE
    /\ dbnew = {} /\ dbtorn = {} /\ dbapp = {} /\ dead = FALSE /\ hch = HdrChunks

Last == segs[Len(segs)]
SeqSet(s) == {s[i] : i \in 1..Len(s)}
Journaled == UNION {SeqSet(segs[i].recs) : i \in 1..Len(segs)}

\* records the playback of SQLite would apply: segment by segment while the header has its magic
RECURSIVE CoveredFrom(_)
CoveredFrom(i) ==
    IF i > Len(segs) \/ ~segs[i].magic THEN {}
    ELSE LET s == segs[i]
             n == IF s.nrec = -1 THEN Len(s.recs) ELSE IF s.nrec < Len(s.recs) THEN s.nrec ELSE Len(s.recs)
         IN  {s.recs[k] : k \in 1..n} \cup (IF s.nrec = -1 \/ s.nrec <= Len(s.recs) THEN CoveredFrom(i + 1) ELSE {})
Covered == CoveredFrom(1)

-----------------------------------------------------------------------------
(* the writer, one action per system call                                   *)

\* pwrite of a new header sector (journal creation, or after a spill); torn: only half of it
JHdrWrite(torn) ==
    /\ ~dead /\ ph = "active" /\ ~partial /\ hch = HdrChunks
    \* a further header only after a spill: the previous segment was closed (synced); bounded number of segments
    /\ (IF segs = <<>> THEN TRUE ELSE Last.magic /\ Len(segs) <= Cardinality(Modified) + 1)
    /\ jexists' = TRUE
    /\ hch' = 1
    /\ jfirstfull' = IF segs = <<>> THEN (~torn /\ HdrChunks = 1) ELSE jfirstfull
    \* the magic is in the first 8 bytes: a torn header write still carries it
    /\ segs' = Append(segs, [magic |-> NoSync, nrec |-> IF NoSync THEN -1 ELSE 0, recs |-> <<>>])
    /\ dead' = torn                                     \* a torn write is the process dying in the middle of it
    /\ UNCHANGED <<ph, partial, dbnew, dbtorn, dbapp>>

\* the remaining write calls of a header whose sector is larger than the page: copies of the header chunk
JHdrPad(torn) ==
    /\ ~dead /\ ph = "active" /\ segs # <<>> /\ ~partial /\ hch < HdrChunks
    /\ hch' = IF torn THEN hch ELSE hch + 1
    /\ jfirstfull' = IF Len(segs) = 1 /\ ~torn /\ hch + 1 = HdrChunks THEN TRUE ELSE jfirstfull
    /\ dead' = torn
    /\ UNCHANGED <<ph, jexists, segs, partial, dbnew, dbtorn, dbapp>>

\* the three pwrites of one page record (page number, content, checksum); torn: stops in between
JRec(p, torn) ==
    /\ ~dead /\ ph = "active" /\ segs # <<>> /\ ~partial /\ hch = HdrChunks
    /\ p \in Modified /\ p \notin Journaled
    /\ IF torn THEN partial' = TRUE /\ UNCHANGED segs
       ELSE segs' = [segs EXCEPT ![Len(segs)].recs = Append(@, p)] /\ UNCHANGED partial
    /\ dead' = torn
    /\ UNCHANGED <<ph, jexists, jfirstfull, dbnew, dbtorn, dbapp, hch>>

\* pwrite of magic + record count into the header of the last segment (after fsync); torn: the magic is incomplete
JHdrCount(torn) ==
    /\ ~dead /\ ph = "active" /\ segs # <<>> /\ ~partial /\ ~NoSync /\ hch = HdrChunks
    /\ ~Last.magic
    /\ IF torn THEN UNCHANGED segs
       ELSE segs' = [segs EXCEPT ![Len(segs)].magic = TRUE, ![Len(segs)].nrec = Len(Last.recs)]
    /\ dead' = torn
    /\ UNCHANGED <<ph, jexists, jfirstfull, partial, dbnew, dbtorn, dbapp, hch>>

\* pwrite of a database page: write-ahead rule
DbWrite(p, torn) ==
    /\ ~dead /\ ph \in {"active", "committing"} /\ hch = HdrChunks
    /\ p \in Covered
    /\ IF torn THEN dbtorn' = dbtorn \cup {p} /\ dbnew' = dbnew \ {p}
       ELSE dbnew' = dbnew \cup {p} /\ dbtorn' = dbtorn \ {p}
    /\ dead' = torn
    /\ UNCHANGED <<ph, jexists, jfirstfull, segs, partial, dbapp, hch>>

\* pwrite of a page beyond the original end of the file: allowed once the first journal header (which records the
\* original size) is on disk with its magic
DbAppend(p, torn) ==
    /\ ~dead /\ ph \in {"active", "committing"}
    /\ p \in Appended
    /\ segs # <<>> /\ segs[1].magic /\ hch = HdrChunks
    /\ dbapp' = dbapp \cup {p}
    /\ dead' = torn
    /\ UNCHANGED <<ph, jexists, jfirstfull, segs, partial, dbnew, dbtorn, hch>>

\* commit phase 1: everything journaled and synced, the remaining pages go to the database file
StartCommit ==
    /\ ~dead /\ ph = "active" /\ segs # <<>> /\ Last.magic /\ ~partial /\ hch = HdrChunks
    /\ Journaled = Modified
    /\ ph' = "committing"
    /\ UNCHANGED <<jexists, jfirstfull, segs, partial, dbnew, dbtorn, dbapp, dead, hch>>

\* commit point: the journal is deleted / truncated / its header zeroed (torn: half of the zeros: the magic is gone)
Finalize ==
    /\ ~dead /\ ph = "committing" /\ dbnew = Modified /\ dbtorn = {} /\ dbapp = Appended
    /\ CASE Mode = "DELETE"   -> jexists' = FALSE /\ UNCHANGED <<segs, jfirstfull>>
         [] Mode = "TRUNCATE" -> segs' = <<>> /\ jfirstfull' = FALSE /\ UNCHANGED jexists
         [] Mode = "PERSIST"  -> segs' = [segs EXCEPT ![1].magic = FALSE] /\ UNCHANGED <<jexists, jfirstfull>>
    /\ ph' = "finalized"
    /\ UNCHANGED <<partial, dbnew, dbtorn, dbapp, dead, hch>>

Crash == ~dead /\ dead' = TRUE /\ UNCHANGED <<ph, jexists, jfirstfull, segs, partial, dbnew, dbtorn, dbapp, hch>>

JNext ==
    \/ \E t \in BOOLEAN : JHdrWrite(t) \/ JHdrCount(t) \/ JHdrPad(t)
    \/ \E p \in Modified, t \in BOOLEAN : JRec(p, t) \/ DbWrite(p, t)
    \/ \E p \in Appended, t \in BOOLEAN : DbAppend(p, t)
    \/ StartCommit \/ Finalize \/ Crash

JSpec == JInit /\ [][JNext]_jvars

-----------------------------------------------------------------------------
(* the readers                                                              *)

\* what the database file holds: the old state, the new state, or neither.  A torn append is invisible in the
\* abstraction (dbapp only says the page is there): a dying writer is never in "finalized", so it does not matter.
Class(new, torn, app) ==
    IF new = {} /\ torn = {} /\ app = {} THEN "old"
    ELSE IF new = Modified /\ torn = {} /\ app = Appended THEN "new" ELSE "mixed"

\* SQLite: the journal is hot iff it exists, nobody holds RESERVED (the writer is dead), and its first byte is
\* not zero; playback restores every covered record.
SqliteHot == jexists /\ segs # <<>> /\ segs[1].magic
\* playback restores every covered record and truncates the file to its original size
SqliteRecovered == IF SqliteHot THEN Class(dbnew \ Covered, dbtorn \ Covered, {}) ELSE Class(dbnew, dbtorn, dbapp)

\* sqlittle: validJournal (>= 28 bytes, magic, sane sector size, at least one full sector) and no live RESERVED lock
\* => ErrHotJournal; otherwise the database file is read as it is
SqlittleHot == jexists /\ segs # <<>> /\ segs[1].magic /\ jfirstfull
SqlittleOutcome == IF SqlittleHot THEN "error" ELSE Class(dbnew, dbtorn, dbapp)

\* C09
NeverReadsUnfinished == dead => (SqlittleOutcome = "error" \/ SqlittleOutcome = SqliteRecovered)
\* C09, second sentence: after a completed commit the leftovers of the journal do not prevent reading
PostCommitReadable == ph = "finalized" => SqlittleOutcome = "new"
\* sanity of the writer model itself: SQLite's recovery always yields the old or the new state
AtomicCommit == dead => SqliteRecovered \in {"old", "new"}
=============================================================================

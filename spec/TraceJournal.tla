----------------------------- MODULE TraceJournal -----------------------------
(***************************************************************************)
(* Trace validation for C09.  A real SQLite writer (python sqlite3) runs   *)
(* under an LD_PRELOAD shim that logs every write / fsync / truncate /     *)
(* unlink on the database and its journal and kills the process at the     *)
(* k-th call (optionally after writing only the first half of the bytes).  *)
(*                                                                         *)
(* crash.ndjson: for every crash experiment the system calls that          *)
(* completed, mapped one to one onto the writer actions of Journal.tla     *)
(* (jhdr, jpad, jrec, jcount, dbwrite, startcommit, finalize; torn = call  *)
(* was cut short), then one "crash" line with what the readers did with    *)
(* the files left behind:                                                  *)
(*    sqlittle  "error" | "old" | "new" | "mixed"   fresh handle           *)
(*    aged      the same for a handle opened before the crash              *)
(*    sqlite    what real SQLite returns after its own recovery            *)
(*                                                                         *)
(* Consuming the calls validates the MODEL OF SQLITE against real SQLite   *)
(* (write-ahead rule, header protocol); at the crash line                  *)
(*   - SqliteRecovered must equal what real SQLite recovered (else the     *)
(*     specification is wrong: specbad),                                   *)
(*   - C09 is judged on the recorded outcomes,                             *)
(*   - SqlittleOutcome must equal the recorded outcome (conformance).      *)
(***************************************************************************)
EXTENDS Journal, Json, TLC

Trace == ndJsonDeserialize("crash.ndjson")

VARIABLES l, bad, specbad, drift, covered
tjvars == <<jvars, l, bad, specbad, drift, covered>>

TJInit == JInit /\ l = 1 /\ bad = <<>> /\ specbad = <<>> /\ drift = <<>> /\ covered = {}

Skip == UNCHANGED jvars

Reset ==
    /\ ph' = "active" /\ jexists' = FALSE /\ jfirstfull' = FALSE /\ segs' = <<>> /\ partial' = FALSE
    /\ dbnew' = {} /\ dbtorn' = {} /\ dbapp' = {} /\ dead' = FALSE /\ hch' = HdrChunks

\* the abstract state a crash was observed in (for the evidence: which states were really exercised)
StateClass ==
    <<ph, IF ~jexists THEN "nojournal" ELSE IF segs = <<>> THEN "empty" ELSE IF segs[1].magic THEN "magic" ELSE "nomagic",
      jfirstfull, partial, Class(dbnew, dbtorn, dbapp), Len(segs) > 1>>

\* what a COMPLETED commit (or anything else) left next to a consistent database file: a journal of some length.
\* e.listed: one of the leftovers the property's second sentence lists (absent, empty, zero-headered, truncated: no
\* magic) -- the file must be readable; otherwise (a header with magic but less than a sector) only the first sentence
\* applies
Leftover(e) ==
    /\ ph' = IF e.listed THEN "finalized" ELSE "committing"
    /\ jexists' = e.exists
    /\ segs' = IF e.magic THEN <<[magic |-> TRUE, nrec |-> 0, recs |-> <<>>]>> ELSE <<>>
    /\ jfirstfull' = e.full /\ partial' = FALSE
    /\ dbnew' = Modified /\ dbtorn' = {} /\ dbapp' = Appended /\ dead' = TRUE /\ hch' = HdrChunks

Step ==
    /\ l <= Len(Trace)
    /\ LET e == Trace[l]
       IN  /\ CASE e.ev = "reset"       -> Reset
                [] e.ev = "jhdr"        -> JHdrWrite(e.torn)
                [] e.ev = "jpad"        -> JHdrPad(e.torn)
                [] e.ev = "jrec"        -> JRec(e.p, e.torn)
                [] e.ev = "jcount"      -> JHdrCount(e.torn)
                [] e.ev = "dbwrite"     -> DbWrite(e.p, e.torn)
                [] e.ev = "dbappend"    -> DbAppend(e.p, e.torn)
                [] e.ev = "startcommit" -> StartCommit
                [] e.ev = "finalize"    -> Finalize
                [] e.ev = "skip"        -> Skip
                [] e.ev = "leftover"    -> Leftover(e)
                [] e.ev = "crash"       -> IF dead THEN Skip ELSE Crash
           /\ IF e.ev = "crash"
                THEN /\ specbad' = IF SqliteRecovered = e.sqlite THEN specbad ELSE Append(specbad, l)
                     /\ bad' = IF /\ (e.sqlittle = "error" \/ e.sqlittle = e.sqlite)
                                  /\ (e.aged = "error" \/ e.aged = e.sqlite)
                                  /\ (ph = "finalized" => e.sqlittle = "new" /\ e.aged = "new")
                                THEN bad ELSE Append(bad, l)
                     /\ drift' = IF SqlittleOutcome = e.sqlittle /\ SqlittleOutcome = e.aged THEN drift ELSE Append(drift, l)
                     /\ covered' = covered \cup {StateClass}
                ELSE UNCHANGED <<bad, specbad, drift, covered>>
    /\ l' = l + 1

TJSpec == TJInit /\ [][Step]_tjvars

\* the longest prefix consumed (the writer model must explain every system call of real SQLite)
Track ==
    /\ TLCSet(1, IF l > TLCGet(1) THEN l ELSE TLCGet(1))
    /\ l = Len(Trace) + 1 =>
          JsonSerialize("verdict.json", [n |-> Len(Trace), bad |-> bad, specbad |-> specbad, drift |-> drift,
                                          covered |-> covered])
ASSUME TLCSet(1, 0)
Post == PrintT(<<"HIGHWATER", TLCGet(1)>>)
=============================================================================

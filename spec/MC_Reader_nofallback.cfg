SPECIFICATION Spec
CONSTANTS
  MaxPages = 4
  MaxVer = 3
  CacheLimit = 2
  MapFallback = FALSE
VIEW view
INVARIANT Freshness
INVARIANT NoFalseError
CHECK_DEADLOCK FALSE

SPECIFICATION SSpec
CONSTANTS
  Handles = {"h1", "h2", "h3"}
  NSteps = 3
  NOps = 2
VIEW sview
INVARIANT Independence
INVARIANT NoSharedWrites
PROPERTY Isolation
CHECK_DEADLOCK FALSE

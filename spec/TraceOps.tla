------------------------------ MODULE TraceOps ------------------------------
(***************************************************************************)
(* Trace validation of read operations recorded from the real code.        *)
(*                                                                         *)
(* trees.json   abstract page graphs (BTree.tla's T) of the database       *)
(*              files the operations ran on, produced by an independent    *)
(*              reader of the file format and cross-checked with SQLite.   *)
(* ops.ndjson   one line per operation executed by the real sqlittle under *)
(*              the tracing pager: the operation o (BTree.tla), and what   *)
(*              the implementation did: ev (lock / page / callback events  *)
(*              in order), out (entries delivered to the callback), cbn,   *)
(*              err, found, fired (the injected fault was reached).        *)
(*                                                                         *)
(* Every step consumes one operation and evaluates                         *)
(*   - the properties on the RECORDED outcome against the declarative      *)
(*     Reference (Complete, StopExact, FaultReported, LockDiscipline),     *)
(*   - conformance: the recorded event sequence equals the one the         *)
(*     transcribed algorithm (Run) produces for this tree and operation.   *)
(* Failing operation numbers are accumulated and written to verdict.json.  *)
(***************************************************************************)
EXTENDS BTree, Json

Trees == JsonDeserialize("trees.json")
Trace == ndJsonDeserialize("ops.ndjson")

VARIABLES l, bad, drift, specbad
vars == <<l, bad, drift, specbad>>

\* C06 as far as one handle's own trace shows it: every page read and every callback lies between
\* a successful lock and the unlock, which is the last event; a failed lock is followed by nothing.
LockDiscipline(ev) ==
    IF ev = <<>> THEN TRUE
    ELSE IF ev[1][1] = "l" THEN Len(ev) = 1
    ELSE /\ ev[1][1] = "L"
         /\ ev[Len(ev)][1] = "U"
         /\ \A i \in 2..(Len(ev) - 1) : ev[i][1] \in {"P", "p", "C"}

\* a follow-up operation on a handle whose previous operation met a read failure may fail too (the error may be
\* remembered); what it may not do is succeed with rows missing
Lenient(e) == "lenient" \in DOMAIN e /\ e.lenient /\ e.err # ""

Failed(e) ==
    IF Lenient(e) THEN {} ELSE
    LET T  == Trees[e.db]
        o  == e.o
        Rr == [out |-> e.out, cbn |-> e.cbn, err |-> e.err, found |-> e.found]
    IN  (IF Complete(T, o, Rr) THEN {} ELSE {"complete"})
        \cup (IF StopExact(T, o, Rr) THEN {} ELSE {"stop"})
        \cup (IF FaultReported(T, o, Rr, e.fired) THEN {} ELSE {"fault"})
        \cup (IF o.lockfail => (e.err # "" /\ e.cbn = 0) THEN {} ELSE {"lockfail"})
        \cup (IF o.pro = "none" \/ LockDiscipline(e.ev) THEN {} ELSE {"lock"})

Conforms(e) ==
    LET m == Run(Trees[e.db], e.o, SeqRange(e.cache0))
    IN  m.ev = e.ev /\ m.out = e.out /\ (m.err = "") = (e.err = "")

Init == l = 1 /\ bad = <<>> /\ drift = <<>> /\ specbad = <<>>

\* mode C: what real SQLite returned for the same query (as entry ids) must be the Reference
SpecAgrees(e) == "sq" \notin DOMAIN e \/ Reference(Trees[e.db], e.o) = e.sq

Step ==
    /\ l <= Len(Trace)
    /\ LET e == Trace[l]
           f == Failed(e)
       IN  /\ bad' = IF f = {} THEN bad ELSE Append(bad, [i |-> l, why |-> f])
           /\ drift' = IF e.conf /\ ~Conforms(e)
                        THEN Append(drift, [i |-> l, mev |-> IF Len(drift) < 3 THEN Run(Trees[e.db], e.o, SeqRange(e.cache0)).ev ELSE <<>>])
                        ELSE drift
           /\ specbad' = IF SpecAgrees(e) THEN specbad ELSE Append(specbad, l)
    /\ l' = l + 1

Spec == Init /\ [][Step]_vars

VerdictWritten ==
    l = Len(Trace) + 1 =>
        JsonSerialize("verdict.json", [n |-> Len(Trace), bad |-> bad, drift |-> drift, specbad |-> specbad])
=============================================================================

//go:build verif

package main

import (
	"bufio"
	"encoding/hex"
	"encoding/json"
	"fmt"
	"os"
	"time"

	sdb "github.com/alicebob/sqlittle/db"
)

// A call request; one JSON object per line on the input file. The response
// repeats the request and adds "res" (and "err"/"panic").
type callReq struct {
	Op   string   `json:"op"`
	A    jval     `json:"a,omitempty"`
	B    jval     `json:"b,omitempty"`
	Coll string   `json:"coll,omitempty"`
	Key  []keyCol `json:"key,omitempty"`
	Rec  []jval   `json:"rec,omitempty"`
	Hex  string   `json:"hex,omitempty"`
	U    int      `json:"u,omitempty"`
	P    int64    `json:"p,omitempty"`
	X    int      `json:"x,omitempty"`
	SQL  string   `json:"sql,omitempty"`
	Args []string `json:"args,omitempty"`
	ID   int      `json:"id"`
}

type keyCol struct {
	V    jval   `json:"v"`
	Coll string `json:"coll"`
	Desc bool   `json:"desc"`
}

type callRes struct {
	ID    int         `json:"id"`
	Res   interface{} `json:"res"`
	Err   string      `json:"err,omitempty"`
	Panic string      `json:"panic,omitempty"`
}

func toKey(ks []keyCol) (sdb.Key, error) {
	key := make(sdb.Key, len(ks))
	for i, k := range ks {
		v, err := decVal(k.V)
		if err != nil {
			return nil, err
		}
		key[i] = sdb.KeyCol{V: v, Collate: k.Coll, Desc: k.Desc}
	}
	return key, nil
}

func doCall(r callReq) (res callRes) {
	res.ID = r.ID
	defer func() {
		if p := recover(); p != nil {
			res.Panic = fmt.Sprint(p)
		}
	}()
	if f, ok := callOps[r.Op]; ok {
		v, err := f(r)
		res.Res = v
		if err != nil {
			res.Err = err.Error()
		}
		return
	}
	res.Err = "unknown op " + r.Op
	return
}

var callOps = map[string]func(callReq) (interface{}, error){
	"cmp": func(r callReq) (interface{}, error) {
		a, err := decVal(r.A)
		if err != nil {
			return nil, err
		}
		b, err := decVal(r.B)
		if err != nil {
			return nil, err
		}
		return sdb.VerifCompare(a, b, r.Coll), nil
	},
	"equals": func(r callReq) (interface{}, error) {
		key, err := toKey(r.Key)
		if err != nil {
			return nil, err
		}
		rec, err := decVals(r.Rec)
		if err != nil {
			return nil, err
		}
		return sdb.Equals(key, sdb.Record(rec)), nil
	},
	"search": func(r callReq) (interface{}, error) {
		key, err := toKey(r.Key)
		if err != nil {
			return nil, err
		}
		rec, err := decVals(r.Rec)
		if err != nil {
			return nil, err
		}
		return sdb.Search(key, sdb.Record(rec)), nil
	},
	"varint": func(r callReq) (interface{}, error) {
		b, err := hex.DecodeString(r.Hex)
		if err != nil {
			return nil, err
		}
		v, n := sdb.VerifReadVarint(b)
		return []interface{}{fmt.Sprint(v), n}, nil
	},
	"local": func(r callReq) (interface{}, error) {
		return sdb.VerifLocalPayload(r.P, r.U, r.X), nil
	},
	"record": func(r callReq) (interface{}, error) {
		b, err := hex.DecodeString(r.Hex)
		if err != nil {
			return nil, err
		}
		rec, err := sdb.VerifParseRecord(b)
		if err != nil {
			return map[string]interface{}{"err": true}, nil
		}
		return map[string]interface{}{"vals": encVals(rec)}, nil
	},
	"sqlparse": func(r callReq) (interface{}, error) {
		if r.Hex != "" { // arbitrary bytes (invalid UTF-8 cannot travel in a JSON string)
			b, err := hex.DecodeString(r.Hex)
			if err != nil {
				return nil, err
			}
			return sqlParse(string(b)), nil
		}
		return sqlParse(r.SQL), nil
	},
	"header": func(r callReq) (interface{}, error) {
		b, err := hex.DecodeString(r.Hex)
		if err != nil {
			return nil, err
		}
		ps, cc, sc, err := sdb.VerifParseHeader(b)
		if err != nil {
			return map[string]interface{}{"ok": false, "e": err.Error()}, nil
		}
		return map[string]interface{}{"ok": true, "ps": ps, "cc": fmt.Sprint(cc), "sc": fmt.Sprint(sc)}, nil
	},
}

var callDeadline = 4 * time.Second

// harness calls <in.ndjson> <out.ndjson>
func cmdCalls(args []string) int {
	if len(args) != 2 {
		fmt.Fprintln(os.Stderr, "usage: harness calls in out")
		return 2
	}
	in, err := os.Open(args[0])
	if err != nil {
		fmt.Fprintln(os.Stderr, err)
		return 2
	}
	defer in.Close()
	out, err := os.Create(args[1])
	if err != nil {
		fmt.Fprintln(os.Stderr, err)
		return 2
	}
	w := bufio.NewWriterSize(out, 1<<20)
	sc := bufio.NewScanner(in)
	sc.Buffer(make([]byte, 1<<20), 1<<28)
	enc := json.NewEncoder(w)
	n := 0
	for sc.Scan() {
		var r callReq
		if err := json.Unmarshal(sc.Bytes(), &r); err != nil {
			fmt.Fprintln(os.Stderr, "bad request line", n, err)
			return 2
		}
		// a call that does not return (a parser that loops) must not take the machine down: a watchdog ends the process,
		// the unfinished call is reported as a timeout and the caller restarts after it
		done := make(chan callRes, 1)
		go func(r callReq) { done <- doCall(r) }(r)
		var cr callRes
		select {
		case cr = <-done:
		case <-time.After(callDeadline):
			enc.Encode(map[string]interface{}{"id": r.ID, "timeout": true})
			w.Flush()
			out.Close()
			return 3
		}
		if err := enc.Encode(cr); err != nil {
			fmt.Fprintln(os.Stderr, err)
			return 2
		}
		n++
	}
	if err := sc.Err(); err != nil {
		fmt.Fprintln(os.Stderr, err)
		return 2
	}
	w.Flush()
	out.Close()
	return 0
}

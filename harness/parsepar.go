package main

// harness parsepar <in.json> <out.json>: the SQL parser used from several goroutines at once.  Every string is parsed
// once sequentially (the reference), then G goroutines parse all of them R times in their own shuffled orders; a result
// that differs from the reference is recorded.

import (
	"encoding/json"
	"fmt"
	"math/rand"
	"os"
	"sync"
	"time"
)

type parseParReq struct {
	SQL        []string `json:"sql"`
	Goroutines int      `json:"goroutines"`
	Rounds     int      `json:"rounds"`
	Seed       int64    `json:"seed"`
}

func renderParse(s string) (out string) {
	defer func() {
		if p := recover(); p != nil {
			out = "panic: " + fmt.Sprint(p)
		}
	}()
	b, _ := json.Marshal(sqlParse(s))
	return string(b)
}

func cmdParsePar(args []string) int {
	if len(args) != 2 {
		return 2
	}
	data, err := os.ReadFile(args[0])
	if err != nil {
		fmt.Fprintln(os.Stderr, err)
		return 2
	}
	var req parseParReq
	if err := json.Unmarshal(data, &req); err != nil {
		fmt.Fprintln(os.Stderr, err)
		return 2
	}
	ref := make([]string, len(req.SQL))
	for i, s := range req.SQL {
		ref[i] = renderParse(s)
	}
	type diff struct {
		I    int    `json:"i"`
		G    int    `json:"g"`
		Want string `json:"want"`
		Got  string `json:"got"`
	}
	var mu sync.Mutex
	var diffs []diff
	ndiff, calls := 0, 0
	var wg sync.WaitGroup
	for g := 0; g < req.Goroutines; g++ {
		wg.Add(1)
		go func(g int) {
			defer wg.Done()
			rnd := rand.New(rand.NewSource(req.Seed + int64(g)))
			for r := 0; r < req.Rounds; r++ {
				for _, i := range rnd.Perm(len(req.SQL)) {
					got := renderParse(req.SQL[i])
					mu.Lock()
					calls++
					if got != ref[i] {
						ndiff++
						if len(diffs) < 5 {
							w, gt := ref[i], got
							if len(w) > 300 {
								w = w[:300]
							}
							if len(gt) > 300 {
								gt = gt[:300]
							}
							diffs = append(diffs, diff{i, g, w, gt})
						}
					}
					mu.Unlock()
				}
			}
		}(g)
	}
	finished := make(chan struct{})
	go func() { wg.Wait(); close(finished) }()
	hung := false
	select {
	case <-finished:
	case <-time.After(300 * time.Second):
		hung = true
	}
	mu.Lock()
	out, _ := json.Marshal(map[string]interface{}{"calls": calls, "differ": ndiff, "first": diffs, "hung": hung})
	mu.Unlock()
	os.WriteFile(args[1], out, 0644)
	if hung {
		return 4
	}
	return 0
}

func init() { commands["parsepar"] = cmdParsePar }

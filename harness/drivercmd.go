//go:build verif

package main

import (
	"bufio"
	"context"
	"database/sql"
	"encoding/json"
	"fmt"
	"os"
	"os/exec"
	"runtime"
	"sync"
	"time"

	sdb "github.com/alicebob/sqlittle/db"
	_ "github.com/alicebob/sqlittle/driver"
)

type drvScenario struct {
	ID         int    `json:"id"`
	DB         string `json:"db"`
	Query      string `json:"query"`
	NextK      int    `json:"next_k"` // Next calls before the action (-1: drain to the end)
	Action     string `json:"action"` // "close" | "cancel_close" | "drain"
	FailAt     int    `json:"fail_at"`
	FailMode   string `json:"fail_mode"` // "" / "err": I/O error; "short": short read, io.EOF like a truncated file
	GoMaxProcs int    `json:"gomaxprocs"`
	YieldFirst bool   `json:"yield_first"` // let the producer run before acting
	Prepared   bool   `json:"prepared"`    // use a prepared statement that stays open while the observations are taken
	// prepared statements only: after the first result set was closed run this command (another connection changing the
	// file), then execute the SAME statement again and record its columns and rows
	Between []string `json:"between,omitempty"`
	DelayUs int      `json:"delay_us,omitempty"` // every page read of the statement's handle takes this long
	// Overlap: two result sets of the same query open at the same time on ONE connection ("conn": sql.Conn, "tx": sql.Tx):
	// the first is advanced one row, then the second is opened and drained, then the first is drained
	Overlap string `json:"overlap,omitempty"`
}

type drvResult struct {
	ID      int      `json:"id"`
	Events  []string `json:"events"`
	Rows    [][]jval `json:"rows"`
	Cols    []string `json:"cols"`
	QueryEr string   `json:"query_err,omitempty"`
	NextErr string   `json:"next_err,omitempty"`
	CloseEr string   `json:"close_err,omitempty"`
	Locked  bool     `json:"locked"`
	Leak    bool     `json:"leak"`
	Late    bool     `json:"late"`
	Panic   string   `json:"panic,omitempty"`
	Fired   bool     `json:"fired"`
	// page reads of the statement's handle(s) between the call of rows.Close and its return
	CloseReads int `json:"close_reads"`
	// second execution of a prepared statement after the command in Between
	Again map[string]interface{} `json:"again,omitempty"`
	// both result sets of an Overlap scenario
	Over map[string]interface{} `json:"over,omitempty"`
	Gor  []int                  `json:"goroutines"`
}

var (
	drvMu     sync.Mutex
	drvPagers []*tracePager
	drvFail   int
	drvMode   string
	drvDelay  time.Duration
)

func installDriverHook() {
	sdb.VerifSetOpenFileHook(func(file string) (*sdb.Database, error) {
		p, err := sdb.VerifFilePager(file)
		if err != nil {
			return nil, err
		}
		tp := &tracePager{inner: p}
		d, err := sdb.VerifOpen(tp, file+"-journal")
		if err != nil {
			p.Close()
			return nil, err
		}
		drvMu.Lock()
		if drvFail > 0 {
			tp.failAt = tp.reads + drvFail
			tp.failMode = drvMode
		}
		if drvDelay > 0 {
			tp.delay = drvDelay
		}
		drvPagers = append(drvPagers, tp)
		drvMu.Unlock()
		return d, nil
	})
}

func pagerReads() int {
	drvMu.Lock()
	defer drvMu.Unlock()
	n := 0
	for _, tp := range drvPagers {
		tp.mu.Lock()
		n += tp.reads
		tp.mu.Unlock()
	}
	return n
}

func pagerEvents() int {
	drvMu.Lock()
	defer drvMu.Unlock()
	n := 0
	for _, tp := range drvPagers {
		tp.mu.Lock()
		n += len(tp.events)
		tp.mu.Unlock()
	}
	return n
}

func ownLocks(file string) bool {
	lt, _ := lockTable(file)
	for _, e := range lt {
		if e[0].(int) == os.Getpid() {
			return true
		}
	}
	return false
}

func runDriverScenario(s drvScenario) (res drvResult) {
	res.ID = s.ID
	defer func() {
		if p := recover(); p != nil {
			res.Panic = fmt.Sprint(p)
		}
		drvMu.Lock()
		for _, tp := range drvPagers {
			if tp.fired {
				res.Fired = true
			}
		}
		drvMu.Unlock()
	}()
	if s.GoMaxProcs > 0 {
		defer runtime.GOMAXPROCS(runtime.GOMAXPROCS(s.GoMaxProcs))
	}
	drvMu.Lock()
	drvPagers = nil
	drvFail = s.FailAt
	drvMode = s.FailMode
	drvDelay = time.Duration(s.DelayUs) * time.Microsecond
	drvMu.Unlock()
	db, err := sql.Open("sqlittle", s.DB)
	if err != nil {
		res.QueryEr = err.Error()
		return
	}
	defer db.Close()
	time.Sleep(2 * time.Millisecond)
	base := runtime.NumGoroutine()
	ctx, cancel := context.WithCancel(context.Background())
	defer cancel()
	if s.Overlap != "" {
		res.Over = runOverlap(ctx, db, s)
		return
	}
	var rows *sql.Rows
	var stmt *sql.Stmt
	if s.Prepared {
		var perr error
		stmt, perr = db.PrepareContext(ctx, s.Query)
		if perr != nil {
			res.QueryEr = perr.Error()
			res.Events = append(res.Events, "query_err")
			return
		}
		defer stmt.Close()
		rows, err = stmt.QueryContext(ctx)
		if err != nil {
			// the statement (and its handle) stays open: a lock left behind stays visible
			res.QueryEr = err.Error()
			res.Events = append(res.Events, "query_err")
			res.Locked = ownLocks(s.DB)
			if _, err2 := stmt.QueryContext(ctx); err2 != nil && err2.Error() != err.Error() {
				res.QueryEr += " | second query: " + err2.Error()
			}
			return
		}
	} else {
		rows, err = db.QueryContext(ctx, s.Query)
		if err != nil {
			res.QueryEr = err.Error()
			res.Events = append(res.Events, "query_err")
			return
		}
	}
	res.Cols, _ = rows.Columns()
	if s.YieldFirst {
		time.Sleep(3 * time.Millisecond)
	}
	ended := false
	scanRow := func() {
		n := len(res.Cols)
		dest := make([]interface{}, n)
		ptrs := make([]interface{}, n)
		for i := range dest {
			ptrs[i] = &dest[i]
		}
		if err := rows.Scan(ptrs...); err != nil {
			res.NextErr = "scan: " + err.Error()
			return
		}
		for i, v := range dest {
			if b, ok := v.([]byte); ok {
				dest[i] = append([]byte{}, b...)
			}
		}
		res.Rows = append(res.Rows, encVals(dest))
	}
	for k := 0; s.NextK < 0 || k < s.NextK; k++ {
		if rows.Next() {
			res.Events = append(res.Events, "next_ok")
			scanRow()
			continue
		}
		ended = true
		if err := rows.Err(); err != nil {
			res.NextErr = err.Error()
			res.Events = append(res.Events, "next_err")
		} else {
			res.Events = append(res.Events, "next_eof")
		}
		break
	}
	if s.Action == "cancel_close" {
		cancel()
		res.Events = append(res.Events, "cancel")
		if s.YieldFirst {
			time.Sleep(2 * time.Millisecond)
		}
	}
	readsBefore := pagerReads()
	cerr := rows.Close()
	res.CloseReads = pagerReads() - readsBefore
	after := pagerEvents()
	switch {
	case ended:
		res.Events = append(res.Events, "close_any")
	case cerr != nil:
		res.CloseEr = cerr.Error()
		res.Events = append(res.Events, "close_err")
	default:
		res.Events = append(res.Events, "close_nil")
	}
	if stmt != nil && len(s.Between) > 0 {
		if out, xerr := exec.Command(s.Between[0], s.Between[1:]...).CombinedOutput(); xerr != nil {
			res.Again = map[string]interface{}{"exec_err": xerr.Error() + ": " + string(out)}
		} else if rows2, qerr := stmt.QueryContext(context.Background()); qerr != nil {
			res.Again = map[string]interface{}{"query_err": qerr.Error()}
		} else {
			cols2, _ := rows2.Columns()
			var out2 [][]jval
			for rows2.Next() {
				dest := make([]interface{}, len(cols2))
				ptrs := make([]interface{}, len(cols2))
				for i := range dest {
					ptrs[i] = &dest[i]
				}
				if err := rows2.Scan(ptrs...); err != nil {
					break
				}
				for i, v := range dest {
					if b, ok := v.([]byte); ok {
						dest[i] = append([]byte{}, b...)
					}
				}
				out2 = append(out2, encVals(dest))
			}
			e2 := ""
			if rows2.Err() != nil {
				e2 = rows2.Err().Error()
			}
			rows2.Close()
			res.Again = map[string]interface{}{"cols": cols2, "rows": out2, "err": e2}
		}
	}
	res.Locked = ownLocks(s.DB)
	// settle: goroutines back to the baseline, no producer activity after Close returned
	leak := true
	for i := 0; i < 100; i++ {
		if runtime.NumGoroutine() <= base {
			leak = false
			break
		}
		time.Sleep(2 * time.Millisecond)
	}
	res.Gor = []int{base, runtime.NumGoroutine()}
	res.Leak = leak
	time.Sleep(3 * time.Millisecond)
	res.Late = pagerEvents() != after
	return
}

type querier interface {
	QueryContext(ctx context.Context, query string, args ...interface{}) (*sql.Rows, error)
}

func drainAll(rows *sql.Rows) ([][]jval, string) {
	cols, _ := rows.Columns()
	var out [][]jval
	for rows.Next() {
		dest := make([]interface{}, len(cols))
		ptrs := make([]interface{}, len(cols))
		for i := range dest {
			ptrs[i] = &dest[i]
		}
		if err := rows.Scan(ptrs...); err != nil {
			return out, "scan: " + err.Error()
		}
		for i, v := range dest {
			if b, ok := v.([]byte); ok {
				dest[i] = append([]byte{}, b...)
			}
		}
		out = append(out, encVals(dest))
	}
	if rows.Err() != nil {
		return out, rows.Err().Error()
	}
	return out, ""
}

func runOverlap(ctx context.Context, db *sql.DB, s drvScenario) map[string]interface{} {
	var q querier
	switch s.Overlap {
	case "tx":
		tx, err := db.BeginTx(ctx, nil)
		if err != nil {
			return map[string]interface{}{"begin_err": err.Error()}
		}
		defer tx.Rollback()
		q = tx
	default:
		conn, err := db.Conn(ctx)
		if err != nil {
			return map[string]interface{}{"conn_err": err.Error()}
		}
		defer conn.Close()
		q = conn
	}
	rows1, err := q.QueryContext(ctx, s.Query)
	if err != nil {
		return map[string]interface{}{"err1": err.Error()}
	}
	defer rows1.Close()
	first := rows1.Next()
	rows2, err := q.QueryContext(ctx, s.Query)
	if err != nil {
		return map[string]interface{}{"err2": err.Error(), "first": first}
	}
	out2, e2 := drainAll(rows2)
	rows2.Close()
	// the first result set goes on where it was: its first row was consumed by Next above (not scanned)
	out1, e1 := drainAll(rows1)
	return map[string]interface{}{"rows2": out2, "err2": e2, "rest1": len(out1), "err1": e1, "first": first}
}

// harness driver <in> <out>
func cmdDriver(args []string) int {
	if len(args) != 2 {
		return 2
	}
	installDriverHook()
	in, err := os.Open(args[0])
	if err != nil {
		fmt.Fprintln(os.Stderr, err)
		return 2
	}
	defer in.Close()
	out, _ := os.Create(args[1])
	w := bufio.NewWriter(out)
	enc := json.NewEncoder(w)
	sc := bufio.NewScanner(in)
	sc.Buffer(make([]byte, 1<<20), 1<<26)
	for sc.Scan() {
		var s drvScenario
		if err := json.Unmarshal(sc.Bytes(), &s); err != nil {
			fmt.Fprintln(os.Stderr, err)
			return 2
		}
		enc.Encode(runDriverScenario(s))
		w.Flush()
	}
	out.Close()
	return 0
}

func init() { commands["driver"] = cmdDriver }

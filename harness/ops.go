//go:build verif

package main

import (
	"bufio"
	"crypto/sha1"
	"encoding/hex"
	"encoding/json"
	"fmt"
	"os"
	"os/exec"
	"strconv"

	"github.com/alicebob/sqlittle"
	sdb "github.com/alicebob/sqlittle/db"
)

type opReq struct {
	ID       int      `json:"id"`
	Op       string   `json:"op"`
	Table    string   `json:"table,omitempty"`
	Index    string   `json:"index,omitempty"`
	Cols     []string `json:"cols,omitempty"`
	Key      []jval   `json:"key,omitempty"`   // high level key (values only)
	DbKey    []keyCol `json:"dbkey,omitempty"` // low level key
	To       []keyCol `json:"to,omitempty"`
	Rowid    string   `json:"rowid,omitempty"`
	Stop     int      `json:"stop,omitempty"`     // callback answers done on its k-th call
	PanicAt  int      `json:"panic_at,omitempty"` // callback panics on its k-th call
	FailAt   int      `json:"fail_at,omitempty"`  // k-th page read of this op fails
	FailMode string   `json:"fail_mode,omitempty"`
	LockFail bool     `json:"lock_fail,omitempty"`
	NoLock   bool     `json:"no_lock,omitempty"` // low level op inside an explicit rlock ... runlock bracket
	Args     []string `json:"args,omitempty"`    // op "exec": run this command (another process acting on the file)
	Off      int64    `json:"off,omitempty"`     // op "patch": write Hex at this file offset
	Hex      string   `json:"hex,omitempty"`
	Digest   bool     `json:"digest,omitempty"` // report sha1 of each row instead of the values
	NoRows   bool     `json:"no_rows,omitempty"`
	Reuse    bool     `json:"reuse,omitempty"`     // low level ops: use the *Table / *Index object an earlier op on this handle obtained
	NestedAt int      `json:"nested_at,omitempty"` // on its k-th call the callback runs Nested on the SAME handle
	Nested   *opReq   `json:"nested,omitempty"`
}

type opRes struct {
	ID      int         `json:"id"`
	Op      string      `json:"op"`
	Events  []event     `json:"events"`
	Rows    [][]jval    `json:"rows,omitempty"`
	Digests []string    `json:"digests,omitempty"`
	N       int         `json:"n"` // number of callback invocations
	Err     string      `json:"err,omitempty"`
	Panic   string      `json:"panic,omitempty"`
	Found   *bool       `json:"found,omitempty"`
	Extra   interface{} `json:"extra,omitempty"`
	Reads   int         `json:"reads"` // page reads performed by this op (incl. failed)
	Fired   bool        `json:"fired,omitempty"`
}

type batchReq struct {
	DB      string  `json:"db"`
	Journal *string `json:"journal,omitempty"` // default: db + "-journal"
	Mode    string  `json:"mode"`              // "fresh": new handle per op; "keep": one handle for the batch
	Mem     bool    `json:"mem,omitempty"`     // serve the file from memory (copy semantics) instead of the file pager
	Ops     []opReq `json:"ops"`
}

type handle struct {
	tp  *tracePager
	db  *sdb.Database
	hdb *sqlittle.DB
	// objects of the low level API kept across transactions (ops with "reuse": true)
	tables  map[string]*sdb.Table
	indexes map[string]*sdb.Index
}

// the *Table / *Index of an earlier operation on this handle when the op asks for it ("reuse"): a caller of the low
// level API may keep these objects as long as the handle lives
func (h *handle) table(r *opReq) (*sdb.Table, error) {
	if r.Reuse && h.tables[r.Table] != nil {
		return h.tables[r.Table], nil
	}
	t, err := h.db.Table(r.Table)
	if err == nil {
		if h.tables == nil {
			h.tables = map[string]*sdb.Table{}
		}
		h.tables[r.Table] = t
	}
	return t, err
}

func (h *handle) index(r *opReq) (*sdb.Index, error) {
	key := "i:" + r.Index
	if r.Index == "" {
		key = "t:" + r.Table
	}
	if r.Reuse && h.indexes[key] != nil {
		return h.indexes[key], nil
	}
	var ix *sdb.Index
	var err error
	if r.Index != "" {
		ix, err = h.db.Index(r.Index)
	} else {
		ix, err = h.db.NonRowidTable(r.Table)
	}
	if err == nil {
		if h.indexes == nil {
			h.indexes = map[string]*sdb.Index{}
		}
		h.indexes[key] = ix
	}
	return ix, err
}

func openHandle(b *batchReq) (*handle, error, []event) {
	var inner sdb.VerifPager
	if b.Mem {
		data, err := os.ReadFile(b.DB)
		if err != nil {
			return nil, err, nil
		}
		inner = &memPager{data: data}
	} else {
		p, err := sdb.VerifFilePager(b.DB)
		if err != nil {
			return nil, err, nil
		}
		inner = p
	}
	tp := &tracePager{inner: inner}
	journal := b.DB + "-journal"
	if b.Journal != nil {
		journal = *b.Journal
	}
	d, err := sdb.VerifOpen(tp, journal)
	if err != nil {
		ev := tp.take()
		inner.Close()
		return nil, err, ev
	}
	return &handle{tp: tp, db: d, hdb: sqlittle.VerifWrap(d)}, nil, nil
}

type collector struct {
	req   *opReq
	res   *opRes
	tp    *tracePager
	h     *handle
	calls int
}

// nestedCall runs a high level operation from inside a row callback of the same handle (the documentation forbids
// nothing of the kind; the nested call is refused because the handle is locked, and must leave the outer lock alone)
func nestedCall(h *handle, n *opReq) string {
	nop := func(sqlittle.Row) {}
	var err error
	switch n.Op {
	case "select":
		err = h.hdb.Select(n.Table, nop, n.Cols...)
	case "select_rowid":
		id, _ := strconv.ParseInt(n.Rowid, 10, 64)
		_, err = h.hdb.SelectRowid(n.Table, id, n.Cols...)
	case "indexed_select":
		err = h.hdb.IndexedSelect(n.Table, n.Index, nop, n.Cols...)
	case "indexed_select_eq":
		key, _ := toHLKey(n.Key)
		err = h.hdb.IndexedSelectEq(n.Table, n.Index, key, nop, n.Cols...)
	case "pk_select":
		key, _ := toHLKey(n.Key)
		err = h.hdb.PKSelect(n.Table, key, nop, n.Cols...)
	case "columns":
		_, err = h.hdb.Columns(n.Table)
	case "rlock":
		err = h.db.RLock()
	default:
		return "unknown nested op"
	}
	if err != nil {
		return err.Error()
	}
	return ""
}

func (c *collector) row(vals []interface{}) bool {
	c.calls++
	c.tp.add(event{"C", c.calls})
	if !c.req.NoRows {
		if c.req.Digest {
			h := sha1.New()
			b, _ := json.Marshal(encVals(vals))
			h.Write(b)
			c.res.Digests = append(c.res.Digests, hex.EncodeToString(h.Sum(nil))[:16])
		} else {
			// copy byte slices: what we record must be what the callback saw
			cp := make([]interface{}, len(vals))
			for i, v := range vals {
				if b, ok := v.([]byte); ok {
					cp[i] = append([]byte{}, b...)
				} else {
					cp[i] = v
				}
			}
			c.res.Rows = append(c.res.Rows, encVals(cp))
		}
	}
	if c.req.Nested != nil && c.calls == c.req.NestedAt && c.h != nil && c.req.Nested.Op != "scan_eq" {
		ne := nestedCall(c.h, c.req.Nested)
		c.res.Extra = map[string]interface{}{"nested_err": ne}
	}
	if c.req.PanicAt > 0 && c.calls == c.req.PanicAt {
		panic("verif: callback panic")
	}
	return c.req.Stop > 0 && c.calls >= c.req.Stop
}

func toHLKey(js []jval) (sqlittle.Key, error) {
	vs, err := decVals(js)
	if err != nil {
		return nil, err
	}
	return sqlittle.Key(vs), nil
}

func runOp(h *handle, r *opReq) (res opRes) {
	res.ID, res.Op = r.ID, r.Op
	tp := h.tp
	base := tp.reads
	if r.FailAt > 0 {
		tp.failAt, tp.failMode, tp.fired = base+r.FailAt, r.FailMode, false
	} else {
		tp.failAt = 0
	}
	tp.lockFail = r.LockFail
	c := &collector{req: r, res: &res, tp: tp, h: h}
	defer func() {
		if p := recover(); p != nil {
			res.Panic = fmt.Sprint(p)
		}
		res.N = c.calls
		res.Events = append(res.Events, tp.take()...)
		res.Reads = tp.reads - base
		res.Fired = tp.fired
		tp.failAt = 0
		tp.lockFail = false
	}()
	setErr := func(err error) {
		if err != nil {
			res.Err = err.Error()
			if res.Err == "" {
				res.Err = "(empty error)"
			}
		}
	}
	hl := func(row sqlittle.Row) bool { return c.row([]interface{}(row)) }
	hlv := func(row sqlittle.Row) { c.row([]interface{}(row)) }
	lowLocked := func(f func() error) {
		if r.NoLock {
			setErr(f())
			return
		}
		if err := h.db.RLock(); err != nil {
			setErr(err)
			return
		}
		defer h.db.RUnlock()
		setErr(f())
	}
	switch r.Op {
	// ---- high level API
	case "select":
		setErr(h.hdb.SelectDone(r.Table, hl, r.Cols...))
	case "select_all": // Select (no stop)
		setErr(h.hdb.Select(r.Table, hlv, r.Cols...))
	case "select_rowid":
		id, _ := strconv.ParseInt(r.Rowid, 10, 64)
		row, err := h.hdb.SelectRowid(r.Table, id, r.Cols...)
		setErr(err)
		f := row != nil
		res.Found = &f
		if row != nil {
			res.Rows = append(res.Rows, encVals([]interface{}(row)))
		}
	case "indexed_select":
		setErr(h.hdb.IndexedSelect(r.Table, r.Index, hlv, r.Cols...))
	case "indexed_select_eq":
		key, err := toHLKey(r.Key)
		if err != nil {
			setErr(err)
			return
		}
		setErr(h.hdb.IndexedSelectEq(r.Table, r.Index, key, hlv, r.Cols...))
	case "pk_select":
		key, err := toHLKey(r.Key)
		if err != nil {
			setErr(err)
			return
		}
		setErr(h.hdb.PKSelect(r.Table, key, hlv, r.Cols...))
	case "noop":
		// nothing: the handle is open (in "keep" mode the first operation opens it) and has not read anything
	case "columns":
		cols, err := h.hdb.Columns(r.Table)
		setErr(err)
		res.Extra = cols
	// ---- low level API (explicit RLock/RUnlock as documented)
	case "rlock":
		setErr(h.db.RLock())
	case "runlock":
		setErr(h.db.RUnlock())
	case "tables":
		lowLocked(func() error { t, err := h.db.Tables(); res.Extra = t; return err })
	case "indexes":
		lowLocked(func() error { t, err := h.db.Indexes(); res.Extra = t; return err })
	case "info":
		lowLocked(func() error { t, err := h.db.Info(); res.Extra = len(t); return err })
	case "schema":
		lowLocked(func() error {
			s, err := h.db.Schema(r.Table)
			if err == nil {
				res.Extra = encSchema(s)
			}
			return err
		})
	case "table_scan":
		lowLocked(func() error {
			t, err := h.table(r)
			if err != nil {
				return err
			}
			return t.Scan(func(rowid int64, rec sdb.Record) bool {
				return c.row(append([]interface{}{rowid}, rec...))
			})
		})
	case "rowid":
		lowLocked(func() error {
			t, err := h.table(r)
			if err != nil {
				return err
			}
			id, _ := strconv.ParseInt(r.Rowid, 10, 64)
			rec, err := t.Rowid(id)
			f := rec != nil
			res.Found = &f
			if rec != nil {
				res.Rows = append(res.Rows, encVals(rec))
			}
			return err
		})
	case "index_scan", "scan_min", "scan_range", "scan_eq":
		lowLocked(func() error {
			ix, err := h.index(r)
			if err != nil {
				return err
			}
			cb := func(rec sdb.Record) bool {
				done := c.row(rec)
				if r.Nested != nil && r.Nested.Op == "scan_eq" && c.calls == r.NestedAt {
					// an inner equality scan on the SAME *Index object, from inside the outer scan's callback (the low
					// level API: the caller holds the lock itself); the inner scan stops after Nested.Stop rows
					if k, err := toKey(r.Nested.DbKey); err == nil {
						n := 0
						ix.ScanEq(k, func(sdb.Record) bool { n++; return r.Nested.Stop > 0 && n >= r.Nested.Stop })
					}
				}
				return done
			}
			switch r.Op {
			case "index_scan":
				return ix.Scan(cb)
			case "scan_min":
				k, err := toKey(r.DbKey)
				if err != nil {
					return err
				}
				return ix.ScanMin(k, cb)
			case "scan_eq":
				k, err := toKey(r.DbKey)
				if err != nil {
					return err
				}
				return ix.ScanEq(k, cb)
			default:
				k, err := toKey(r.DbKey)
				if err != nil {
					return err
				}
				to, err := toKey(r.To)
				if err != nil {
					return err
				}
				return ix.ScanRange(k, to, cb)
			}
		})
	case "table_def":
		lowLocked(func() error {
			t, err := h.db.Table(r.Table)
			if err != nil {
				return err
			}
			_, err = t.Def()
			return err
		})
	case "index_def":
		lowLocked(func() error {
			var t *sdb.Index
			var err error
			if r.Index != "" {
				t, err = h.db.Index(r.Index)
			} else {
				// the *Index of a WITHOUT ROWID table: its statement text is a CREATE TABLE
				t, err = h.db.NonRowidTable(r.Table)
			}
			if err != nil {
				return err
			}
			_, err = t.Def()
			return err
		})
	default:
		res.Err = "unknown op " + r.Op
	}
	return
}

func encSchema(s *sdb.Schema) map[string]interface{} {
	cols := []map[string]interface{}{}
	for _, c := range s.Columns {
		cols = append(cols, map[string]interface{}{"name": c.Column, "type": c.Type, "null": c.Null,
			"default": encDefault(c.Default), "collate": c.Collate, "rowid": c.Rowid})
	}
	ixcols := func(cs []sdb.IndexColumn) []map[string]interface{} {
		out := []map[string]interface{}{}
		for _, c := range cs {
			out = append(out, map[string]interface{}{"column": c.Column, "expr": c.Expression, "collate": c.Collate,
				"desc": c.SortOrder.String() == "DESC"})
		}
		return out
	}
	idx := []map[string]interface{}{}
	for _, i := range s.Indexes {
		idx = append(idx, map[string]interface{}{"name": i.Index, "cols": ixcols(i.Columns)})
	}
	return map[string]interface{}{"table": s.Table, "without_rowid": s.WithoutRowid, "columns": cols, "indexes": idx,
		"pk": ixcols(s.PK), "primary_key": s.PrimaryKey, "rowid_pk": s.RowidPK}
}

func encDefault(v interface{}) interface{} {
	switch t := v.(type) {
	case nil:
		return nil
	case int64:
		return []string{"i", strconv.FormatInt(t, 10)}
	case float64:
		return encVal(t)
	case string:
		return encVal(t)
	default:
		return []string{"?", fmt.Sprintf("%T:%v", v, v)}
	}
}

// harness ops <in.ndjson> <out.ndjson>: every input line is a batch
func cmdOps(args []string) int {
	if len(args) != 2 {
		fmt.Fprintln(os.Stderr, "usage: harness ops in out")
		return 2
	}
	in, err := os.Open(args[0])
	if err != nil {
		fmt.Fprintln(os.Stderr, err)
		return 2
	}
	defer in.Close()
	out, err := os.Create(args[1])
	if err != nil {
		fmt.Fprintln(os.Stderr, err)
		return 2
	}
	w := bufio.NewWriterSize(out, 1<<20)
	enc := json.NewEncoder(w)
	sc := bufio.NewScanner(in)
	sc.Buffer(make([]byte, 1<<20), 1<<30)
	for sc.Scan() {
		var b batchReq
		if err := json.Unmarshal(sc.Bytes(), &b); err != nil {
			fmt.Fprintln(os.Stderr, "bad batch:", err)
			return 2
		}
		var kept *handle
		for i := range b.Ops {
			r := &b.Ops[i]
			if r.Op == "exec" {
				// environment step: another process (real SQLite) acts on the file, synchronously
				res := opRes{ID: r.ID, Op: r.Op}
				out, err := exec.Command(r.Args[0], r.Args[1:]...).CombinedOutput()
				res.Extra = string(out)
				if err != nil {
					res.Err = err.Error()
				}
				enc.Encode(res)
				continue
			}
			if r.Op == "patch" {
				// environment step: overwrite bytes of the database file (another writer's effect)
				res := opRes{ID: r.ID, Op: r.Op}
				data, err := hex.DecodeString(r.Hex)
				if err == nil {
					var f *os.File
					f, err = os.OpenFile(b.DB, os.O_WRONLY, 0)
					if err == nil {
						_, err = f.WriteAt(data, r.Off)
						f.Close()
					}
				}
				if err != nil {
					res.Err = err.Error()
				}
				enc.Encode(res)
				continue
			}
			var h *handle
			if b.Mode == "keep" && kept != nil {
				h = kept
			} else {
				var err error
				var ev []event
				h, err, ev = openHandle(&b)
				if err != nil {
					enc.Encode(opRes{ID: r.ID, Op: r.Op, Err: "open: " + err.Error(), Events: ev})
					continue
				}
				if b.Mode == "keep" {
					kept = h
				}
			}
			res := runOp(h, r)
			if b.Mode != "keep" {
				h.db.Close()
			}
			if err := enc.Encode(res); err != nil {
				fmt.Fprintln(os.Stderr, err)
				return 2
			}
		}
		if kept != nil {
			kept.db.Close()
		}
	}
	w.Flush()
	out.Close()
	return 0
}

func init() { commands["ops"] = cmdOps }

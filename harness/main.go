//go:build verif

// Conformance harness for the TLA+ specification in /verif/spec.
// Built from /repo's working tree with -tags verif by every check.
package main

import (
	"fmt"
	"os"
)

func main() {
	if len(os.Args) < 2 {
		fmt.Fprintln(os.Stderr, "usage: harness <calls|ops|agent|worker> ...")
		os.Exit(2)
	}
	switch os.Args[1] {
	case "calls":
		os.Exit(cmdCalls(os.Args[2:]))
	default:
		if f, ok := commands[os.Args[1]]; ok {
			os.Exit(f(os.Args[2:]))
		}
		fmt.Fprintln(os.Stderr, "unknown subcommand", os.Args[1])
		os.Exit(2)
	}
}

var commands = map[string]func([]string) int{}

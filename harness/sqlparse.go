//go:build verif

package main

import (
	"fmt"
	"strings"

	sqsql "github.com/alicebob/sqlittle/sql"
)

func encIndexedCols(cs []sqsql.IndexedColumn) []map[string]interface{} {
	out := []map[string]interface{}{}
	for _, c := range cs {
		out = append(out, map[string]interface{}{"name": strings.ToLower(c.Column), "expr": c.Expression,
			"coll": strings.ToLower(c.Collate), "desc": c.SortOrder == sqsql.Desc})
	}
	return out
}

// sqlParse runs the CREATE TABLE / CREATE INDEX parser and reports, element by element, what it understood.
func sqlParse(text string) map[string]interface{} {
	stmt, err := sqsql.Parse(text)
	if err != nil {
		return map[string]interface{}{"ok": false, "err": err.Error(), "kind": "", "hasresult": stmt != nil}
	}
	switch t := stmt.(type) {
	case sqsql.CreateTableStmt:
		cols := []map[string]interface{}{}
		for _, c := range t.Columns {
			cols = append(cols, map[string]interface{}{
				"name": strings.ToLower(c.Name), "type": c.Type, "pk": c.PrimaryKey, "pkdesc": c.PrimaryKeyDir == sqsql.Desc,
				"autoinc": c.AutoIncrement, "unique": c.Unique, "notnull": !c.Null, "collate": strings.ToLower(c.Collate),
				"hasdefault": c.Default != nil, "default": fmt.Sprintf("%T:%v", c.Default, c.Default), "ncheck": len(c.Checks),
				"references": c.References != nil})
		}
		tcons := []map[string]interface{}{}
		for _, tc := range t.Constraints {
			switch k := tc.(type) {
			case sqsql.TablePrimaryKey:
				tcons = append(tcons, map[string]interface{}{"k": "pk", "cols": encIndexedCols(k.IndexedColumns)})
			case sqsql.TableUnique:
				tcons = append(tcons, map[string]interface{}{"k": "unique", "cols": encIndexedCols(k.IndexedColumns)})
			case sqsql.TableForeignKey:
				tcons = append(tcons, map[string]interface{}{"k": "fk", "cols": []map[string]interface{}{}})
			default:
				tcons = append(tcons, map[string]interface{}{"k": fmt.Sprintf("%T", tc), "cols": []map[string]interface{}{}})
			}
		}
		return map[string]interface{}{"ok": true, "kind": "table", "name": strings.ToLower(t.Table), "cols": cols, "tcons": tcons, "wr": t.WithoutRowid}
	case sqsql.CreateIndexStmt:
		return map[string]interface{}{"ok": true, "kind": "index", "name": strings.ToLower(t.Index), "table": strings.ToLower(t.Table),
			"unique": t.Unique, "cols": encIndexedCols(t.IndexedColumns), "where": t.Where != nil}
	case sqsql.SelectStmt:
		return map[string]interface{}{"ok": true, "kind": "select", "name": strings.ToLower(t.Table), "cols": t.Columns}
	}
	return map[string]interface{}{"ok": true, "kind": fmt.Sprintf("%T", stmt)}
}

//go:build verif

package main

import (
	"crypto/sha1"
	"database/sql"
	"encoding/hex"
	"encoding/json"
	"fmt"
	"math/rand"
	"os"
	"runtime"
	"sync"
	"time"

	"github.com/alicebob/sqlittle"
)

type stressReq struct {
	DBs        []string `json:"dbs"`
	Goroutines int      `json:"goroutines"`
	OpsPer     int      `json:"ops_per"`
	Seed       int64    `json:"seed"`
	SQLPool    int      `json:"sql_pool"` // goroutines sharing one database/sql pool per file
	DeadlineS  int      `json:"deadline_s"`
}

type stressOp struct {
	Kind  string
	Table string
	Index string
	Cols  []string
	Rowid int64
	Key   sqlittle.Key
	Query string
}

func stressOps() []stressOp {
	return []stressOp{
		{Kind: "select", Table: "r", Cols: []string{"id", "a", "b"}},
		// overflowing BLOB / TEXT values: assembled from several pages in scratch memory
		{Kind: "select", Table: "r", Cols: []string{"id", "c", "b"}},
		{Kind: "indexed", Table: "r", Index: "rb", Cols: []string{"c", "id"}},
		{Kind: "select", Table: "ovn", Cols: []string{"id", "t"}},
		{Kind: "select", Table: "ovw", Cols: []string{"k", "v"}},
		{Kind: "select", Table: "w", Cols: []string{"k1", "k2", "v"}},
		{Kind: "select", Table: "alt", Cols: []string{"p", "q", "d1", "d2"}},
		{Kind: "indexed", Table: "r", Index: "ra", Cols: []string{"id", "a"}},
		{Kind: "indexed", Table: "r", Index: "rb", Cols: []string{"id", "b"}},
		{Kind: "indexed", Table: "w", Index: "wv", Cols: []string{"k1", "v"}},
		{Kind: "rowid", Table: "r", Rowid: 7, Cols: []string{"a", "b"}},
		{Kind: "pk", Table: "alt", Key: sqlittle.Key{int64(4)}, Cols: []string{"q"}},
		{Kind: "indexedeq", Table: "r", Index: "ra", Key: sqlittle.Key{int64(1)}, Cols: []string{"id"}},
		// the first comparisons under NOCASE / RTRIM (whatever those build lazily)
		{Kind: "indexedeq", Table: "r", Index: "rb", Key: sqlittle.Key{"HELLO"}, Cols: []string{"id", "b"}},
		{Kind: "pk", Table: "z5", Key: sqlittle.Key{"A1"}, Cols: []string{"q"}},
		{Kind: "columns", Table: "r"},
	}
}

func digestRows(rows [][]interface{}, err error) string {
	h := sha1.New()
	b, _ := json.Marshal(rowsEnc(rows))
	h.Write(b)
	if err != nil {
		h.Write([]byte("ERR:" + err.Error()))
	}
	return hex.EncodeToString(h.Sum(nil))[:16]
}

func rowsEnc(rows [][]interface{}) [][]jval {
	out := make([][]jval, len(rows))
	for i, r := range rows {
		out[i] = encVals(r)
	}
	return out
}

func runNative(db *sqlittle.DB, op stressOp) string {
	var rows [][]interface{}
	collect := func(r sqlittle.Row) {
		// the row is the callback's for as long as the callback runs: let other goroutines run before looking at it
		if len(rows)%3 == 0 {
			runtime.Gosched()
		}
		cp := make([]interface{}, len(r))
		for i, v := range r {
			if b, ok := v.([]byte); ok {
				cp[i] = append([]byte{}, b...)
			} else {
				cp[i] = v
			}
		}
		rows = append(rows, cp)
	}
	var err error
	switch op.Kind {
	case "select":
		err = db.Select(op.Table, collect, op.Cols...)
	case "indexed":
		err = db.IndexedSelect(op.Table, op.Index, collect, op.Cols...)
	case "indexedeq":
		err = db.IndexedSelectEq(op.Table, op.Index, op.Key, collect, op.Cols...)
	case "rowid":
		var r sqlittle.Row
		r, err = db.SelectRowid(op.Table, op.Rowid, op.Cols...)
		if r != nil {
			collect(r)
		}
	case "pk":
		err = db.PKSelect(op.Table, op.Key, collect, op.Cols...)
	case "columns":
		var cols []string
		cols, err = db.Columns(op.Table)
		for _, c := range cols {
			rows = append(rows, []interface{}{c})
		}
	}
	return digestRows(rows, err)
}

func runSQL(db *sql.DB, q string) string {
	rows, err := db.Query(q)
	if err != nil {
		return digestRows(nil, err)
	}
	defer rows.Close()
	cols, _ := rows.Columns()
	var out [][]interface{}
	for rows.Next() {
		dest := make([]interface{}, len(cols))
		ptrs := make([]interface{}, len(cols))
		for i := range dest {
			ptrs[i] = &dest[i]
		}
		if err := rows.Scan(ptrs...); err != nil {
			return digestRows(out, err)
		}
		for i, v := range dest {
			if b, ok := v.([]byte); ok {
				dest[i] = append([]byte{}, b...)
			}
		}
		out = append(out, dest)
	}
	return digestRows(out, rows.Err())
}

// harness stress <req.json> <out.json>
func cmdStress(args []string) int {
	if len(args) != 2 {
		return 2
	}
	data, err := os.ReadFile(args[0])
	if err != nil {
		fmt.Fprintln(os.Stderr, err)
		return 2
	}
	var req stressReq
	if err := json.Unmarshal(data, &req); err != nil {
		fmt.Fprintln(os.Stderr, err)
		return 2
	}
	ops := stressOps()
	queries := []string{"SELECT * FROM alt", "SELECT id, a FROM r", "select k1, v from w", "SELECT * FROM e"}
	type rec struct {
		G      int    `json:"g"`
		Key    string `json:"key"`
		Equal  bool   `json:"equal"`
		Digest string `json:"-"`
	}
	// tables with mixed-case DDL, if the generator made them
	if db, err := sqlittle.Open(req.DBs[0]); err == nil {
		for i := 0; i < 40; i++ {
			name := fmt.Sprintf("mix%d", i)
			if _, err := db.Columns(name); err == nil {
				ops = append(ops, stressOp{Kind: "select", Table: name, Cols: []string{"a", "b"}})
				queries = append(queries, "sElEcT a, b fRoM "+name)
			}
		}
		db.Close()
	}
	var mu sync.Mutex
	var recs []rec
	var wg sync.WaitGroup
	// all goroutines open their handles, wait for each other, and then do the SAME first operations at the same moment:
	// the select through a secondary index of a WITHOUT ROWID table (whatever is built lazily on first use is built by
	// all of them at once)
	var ready sync.WaitGroup
	start := make(chan struct{})
	var firstOps []int
	for i, op := range ops {
		if (op.Table == "w" && (op.Kind == "indexed" || op.Kind == "select")) || (op.Kind == "indexedeq" && op.Index == "rb") {
			firstOps = append(firstOps, i)
		}
	}
	ready.Add(req.Goroutines)
	go func() { ready.Wait(); close(start) }()
	for g := 0; g < req.Goroutines; g++ {
		wg.Add(1)
		go func(g int) {
			defer wg.Done()
			rnd := rand.New(rand.NewSource(req.Seed + int64(g)))
			f := req.DBs[g%len(req.DBs)]
			db, err := sqlittle.Open(f) // every goroutine its own handle
			ready.Done()
			if err != nil {
				mu.Lock()
				recs = append(recs, rec{g, f + "|open", false, digestRows(nil, err)})
				mu.Unlock()
				return
			}
			defer db.Close()
			<-start
			for i := 0; i < req.OpsPer+len(firstOps); i++ {
				k := rnd.Intn(len(ops))
				if i < len(firstOps) {
					k = firstOps[i]
				}
				d := runNative(db, ops[k])
				key := fmt.Sprintf("%s|n%d", f, k)
				mu.Lock()
				recs = append(recs, rec{g, key, false, d})
				mu.Unlock()
			}
		}(g)
	}
	pools := map[string]*sql.DB{}
	for _, f := range req.DBs {
		p, _ := sql.Open("sqlittle", f)
		pools[f] = p
	}
	for g := 0; g < req.SQLPool; g++ {
		wg.Add(1)
		go func(g int) {
			defer wg.Done()
			rnd := rand.New(rand.NewSource(req.Seed + 1000 + int64(g)))
			f := req.DBs[g%len(req.DBs)]
			for i := 0; i < req.OpsPer; i++ {
				k := rnd.Intn(len(queries))
				if i%4 == 3 {
					// a result set closed straight after Query, no Next in between
					if rows, err := pools[f].Query(queries[k]); err == nil {
						rows.Close()
					}
					continue
				}
				d := runSQL(pools[f], queries[k])
				key := fmt.Sprintf("%s|q%d", f, k)
				mu.Lock()
				recs = append(recs, rec{1000 + g, key, false, d})
				mu.Unlock()
			}
		}(g)
	}
	// an operation that never returns (a lock taken by one handle and never given back blocks the others) must not hang
	// the check: after the deadline the run is reported as hung
	finished := make(chan struct{})
	go func() { wg.Wait(); close(finished) }()
	deadline := time.Duration(req.DeadlineS) * time.Second
	if deadline == 0 {
		deadline = 300 * time.Second
	}
	select {
	case <-finished:
	case <-time.After(deadline):
		mu.Lock()
		out, _ := json.Marshal(map[string]interface{}{"hung": true, "finished_ops": len(recs)})
		mu.Unlock()
		os.WriteFile(args[1], out, 0644)
		fmt.Fprintln(os.Stderr, "stress: goroutines still blocked after the deadline")
		os.Exit(4)
	}
	for _, p := range pools {
		p.Close()
	}
	// the solo results, sequentially, AFTER the concurrent phase (so that nothing is warmed up before it)
	solo := map[string]string{}
	for _, f := range req.DBs {
		db, err := sqlittle.Open(f)
		if err != nil {
			// a file that cannot be opened (hot journal): the refusal itself is the solo result
			solo[f+"|open"] = digestRows(nil, err)
			sdb, _ := sql.Open("sqlittle", f)
			for i, q := range queries {
				solo[fmt.Sprintf("%s|q%d", f, i)] = runSQL(sdb, q)
			}
			sdb.Close()
			continue
		}
		for i, op := range ops {
			solo[fmt.Sprintf("%s|n%d", f, i)] = runNative(db, op)
		}
		db.Close()
		sdb, _ := sql.Open("sqlittle", f)
		for i, q := range queries {
			solo[fmt.Sprintf("%s|q%d", f, i)] = runSQL(sdb, q)
		}
		sdb.Close()
	}
	for i := range recs {
		recs[i].Equal = recs[i].Digest == solo[recs[i].Key]
	}
	out, _ := json.Marshal(map[string]interface{}{"records": recs, "solo": len(solo)})
	os.WriteFile(args[1], out, 0644)
	return 0
}

func init() { commands["stress"] = cmdStress }

//go:build verif

package main

import (
	"encoding/hex"
	"fmt"
	"math"
	"strconv"
)

// JSON form of a stored value: ["n"] | ["i","<decimal>"] | ["r","<16 hex digits of the float64 bits>"] |
// ["t","<hex of bytes>"] | ["b","<hex of bytes>"]
type jval []string

func encVal(v interface{}) jval {
	switch t := v.(type) {
	case nil:
		return jval{"n"}
	case int64:
		return jval{"i", strconv.FormatInt(t, 10)}
	case float64:
		return jval{"r", fmt.Sprintf("%016x", math.Float64bits(t))}
	case string:
		return jval{"t", hex.EncodeToString([]byte(t))}
	case []byte:
		return jval{"b", hex.EncodeToString(t)}
	default:
		return jval{"?", fmt.Sprintf("%T:%v", v, v)}
	}
}

func encVals(vs []interface{}) []jval {
	r := make([]jval, len(vs))
	for i, v := range vs {
		r[i] = encVal(v)
	}
	return r
}

func decVal(j jval) (interface{}, error) {
	if len(j) == 0 {
		return nil, fmt.Errorf("empty value")
	}
	switch j[0] {
	case "n":
		return nil, nil
	case "i":
		n, err := strconv.ParseInt(j[1], 10, 64)
		return n, err
	case "r":
		u, err := strconv.ParseUint(j[1], 16, 64)
		return math.Float64frombits(u), err
	case "t":
		b, err := hex.DecodeString(j[1])
		return string(b), err
	case "b":
		b, err := hex.DecodeString(j[1])
		if b == nil {
			b = []byte{}
		}
		return b, err
	}
	return nil, fmt.Errorf("bad value kind %q", j[0])
}

func decVals(js []jval) ([]interface{}, error) {
	r := make([]interface{}, len(js))
	for i, j := range js {
		v, err := decVal(j)
		if err != nil {
			return nil, err
		}
		r[i] = v
	}
	return r, nil
}

//go:build verif

package main

import (
	"errors"
	"fmt"
	"io"
	"sync"
	"time"

	sdb "github.com/alicebob/sqlittle/db"
)

// event is one observation made by the tracing pager or the operation runner.
// Encoded as a short JSON array: [kind, args...]
//
//	["L"] rlock ok      ["l", err] rlock failed     ["U"] runlock     ["u", err] runlock failed
//	["P", n] page n read ok    ["p", n, err] page read failed (incl. injected faults)
//	["R", bool] reserved-lock probe    ["X"] close
//	["C", i] callback number i entered (emitted by the op runner)
type event []interface{}

// tracePager wraps a VerifPager, records events and can inject faults.
type tracePager struct {
	inner  sdb.VerifPager
	mu     sync.Mutex
	events []event
	reads  int
	// fault injection: fail the failAt-th page read (1 based, counted over the life of the pager)
	failAt   int
	failMode string // "err": I/O error, "short": short read (partial buffer + io.ErrUnexpectedEOF)
	fired    bool
	// lockFail makes RLock fail (lock acquisition failure)
	lockFail bool
	// gate, when set, is called before every event is recorded (scheduler gate for replays)
	gate func(ev event)
	// preLock, when set, is called at the beginning of RLock, before the pager's lock call
	preLock func()
	// delay, when set, is slept before every page read
	delay time.Duration
	// postGate, when set, is called after the event has been recorded: the state change has
	// happened and is not yet visible to the caller (blocking here parks the operation)
	postGate func(ev event)
	// snapshot of the kernel lock table taken at every event, when set
	snap func() string
}

func (t *tracePager) add(ev event) {
	if t.gate != nil {
		t.gate(ev)
	}
	if t.snap != nil {
		ev = append(ev, t.snap())
	}
	t.mu.Lock()
	t.events = append(t.events, ev)
	t.mu.Unlock()
	if t.postGate != nil {
		t.postGate(ev)
	}
}

func (t *tracePager) take() []event {
	t.mu.Lock()
	defer t.mu.Unlock()
	ev := t.events
	t.events = nil
	return ev
}

var errInjected = errors.New("injected I/O error")

func (t *tracePager) Page(n int, pagesize int) ([]byte, error) {
	if t.delay > 0 {
		time.Sleep(t.delay) // a slow disk: operations take long enough for other steps to fall in between
	}
	t.mu.Lock()
	t.reads++
	k := t.reads
	t.mu.Unlock()
	if t.failAt > 0 && k == t.failAt {
		t.fired = true
		if t.failMode == "short" {
			buf, err := t.inner.Page(n, pagesize)
			if err == nil && len(buf) > 0 {
				// a short read as the file pager reports it: buffer with a zeroed tail plus an error
				half := len(buf) / 2
				for i := half; i < len(buf); i++ {
					buf[i] = 0
				}
				// exactly what the file pager reports for a page cut short by the end of the file
				t.add(event{"p", n, "short read"})
				return buf, io.EOF
			}
		}
		t.add(event{"p", n, "injected"})
		return nil, errInjected
	}
	buf, err := t.inner.Page(n, pagesize)
	if err != nil {
		t.add(event{"p", n, err.Error()})
	} else {
		t.add(event{"P", n})
	}
	return buf, err
}

func (t *tracePager) RLock() error {
	if t.preLock != nil {
		t.preLock() // scheduler gate BEFORE the lock is asked for (nothing is recorded: no state changed yet)
	}
	if t.lockFail {
		t.add(event{"l", "injected lock failure"})
		return errors.New("injected lock failure")
	}
	err := t.inner.RLock()
	if err != nil {
		t.add(event{"l", err.Error()})
	} else {
		t.add(event{"L"})
	}
	return err
}

func (t *tracePager) RUnlock() error {
	err := t.inner.RUnlock()
	if err != nil {
		t.add(event{"u", err.Error()})
	} else {
		t.add(event{"U"})
	}
	return err
}

func (t *tracePager) CheckReservedLock() (bool, error) {
	b, err := t.inner.CheckReservedLock()
	t.add(event{"R", b, fmt.Sprint(err)})
	return b, err
}

func (t *tracePager) Close() error {
	err := t.inner.Close()
	t.add(event{"X"})
	return err
}

// memPager serves an in-memory image with the file pager's copy semantics.
type memPager struct {
	data []byte
}

func (m *memPager) Page(n int, pagesize int) ([]byte, error) {
	off := int64(n-1) * int64(pagesize)
	buf := make([]byte, pagesize)
	if off < 0 || off > int64(len(m.data)) {
		return buf, errors.New("mmap: invalid ReadAt offset")
	}
	c := copy(buf, m.data[off:])
	if c < pagesize {
		return buf, io.EOF
	}
	return buf, nil
}
func (m *memPager) RLock() error                     { return nil }
func (m *memPager) RUnlock() error                   { return nil }
func (m *memPager) CheckReservedLock() (bool, error) { return false, nil }
func (m *memPager) Close() error                     { return nil }

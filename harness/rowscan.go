//go:build verif

package main

import (
	"bufio"
	"bytes"
	"encoding/hex"
	"encoding/json"
	"fmt"
	"os"
	"reflect"
	"strings"
	"time"

	"github.com/alicebob/sqlittle"
)

type scanReq struct {
	ID    int      `json:"id"`
	Kind  string   `json:"kind"` // "conv" | "shortcut" | "life"
	Row   []jval   `json:"row,omitempty"`
	Dests []string `json:"dests,omitempty"`
	DB    string   `json:"db,omitempty"`
	Table string   `json:"table,omitempty"`
	Rowid string   `json:"rowid,omitempty"`
	Col   string   `json:"col,omitempty"`
}

type scanRes struct {
	ID           int                    `json:"id"`
	Err          string                 `json:"err,omitempty"`
	Panic        string                 `json:"panic,omitempty"`
	Vals         []jval                 `json:"vals,omitempty"`
	RowUnchanged bool                   `json:"row_unchanged"`
	Life         map[string]interface{} `json:"life,omitempty"`
}

func mkDest(name string) interface{} {
	// destinations hold something already (a variable reused from the previous row): "the zero value" for NULL and
	// missing columns means the old content must be gone afterwards
	switch name {
	case "string":
		v := "SENTINEL"
		return &v
	case "bytes":
		v := []byte{0xEE, 0xEE}
		return &v
	case "int64":
		v := int64(77)
		return &v
	case "int32":
		v := int32(77)
		return &v
	case "int":
		v := 77
		return &v
	case "bool":
		v := true
		return &v
	case "float64":
		v := 7.5
		return &v
	case "time":
		v := time.Date(2001, 2, 3, 4, 5, 6, 0, time.UTC)
		return &v
	case "nil":
		return nil
	case "uint16":
		return new(uint16)
	case "value":
		return 5
	case "struct":
		return &struct{ A int }{}
	case "ifaceptr":
		var x interface{}
		return &x
	}
	return new(uint8)
}

func encDest(d interface{}) jval {
	switch t := d.(type) {
	case *string:
		return jval{"t", hex.EncodeToString([]byte(*t))}
	case *[]byte:
		if *t == nil {
			return jval{"n"}
		}
		return jval{"b", hex.EncodeToString(*t)}
	case *int64:
		return jval{"i", fmt.Sprint(*t)}
	case *int32:
		return jval{"i", fmt.Sprint(*t)}
	case *int:
		return jval{"i", fmt.Sprint(*t)}
	case *bool:
		if *t {
			return jval{"i", "1"}
		}
		return jval{"i", "0"}
	case *float64:
		return encVal(*t)
	case *time.Time:
		if t.IsZero() {
			return jval{"t", hex.EncodeToString([]byte("zero"))}
		}
		return jval{"t", hex.EncodeToString([]byte(t.UTC().Format("2006-01-02T15:04:05.000Z")))}
	}
	return jval{"n"}
}

func doScan(r scanReq) (res scanRes) {
	res.ID = r.ID
	defer func() {
		if p := recover(); p != nil {
			res.Panic = fmt.Sprint(p)
		}
	}()
	vals, err := decVals(r.Row)
	if err != nil {
		res.Err = "bad request: " + err.Error()
		return
	}
	row := sqlittle.Row(vals)
	before, _ := json.Marshal(encVals(vals))
	var mutable []*[]byte
	switch r.Kind {
	case "conv":
		dests := make([]interface{}, len(r.Dests))
		for i, d := range r.Dests {
			dests[i] = mkDest(d)
		}
		if err := row.Scan(dests...); err != nil {
			res.Err = err.Error()
		}
		for _, d := range dests {
			res.Vals = append(res.Vals, encDest(d))
			if bp, ok := d.(*[]byte); ok && bp != nil {
				mutable = append(mutable, bp)
			}
		}
	case "shortcut":
		s1, err := row.ScanString()
		if err != nil {
			res.Err = err.Error()
		}
		a, b, err2 := row.ScanStringString()
		if err2 != nil {
			res.Err += "|" + err2.Error()
		}
		res.Vals = append(res.Vals, encVal(s1), encVal(a), encVal(b))
		for _, s := range row.ScanStrings() {
			res.Vals = append(res.Vals, encVal(s))
		}
	}
	after, _ := json.Marshal(encVals([]interface{}(row)))
	res.RowUnchanged = bytes.Equal(before, after)
	if r.Kind == "conv" && res.RowUnchanged {
		// ... and stays what it was when the caller writes into the byte slices Scan gave it
		snapshot := append([]jval{}, res.Vals...)
		_ = snapshot
		for _, d := range mutable {
			for i := range *d {
				(*d)[i] ^= 0x5a
			}
		}
		after2, _ := json.Marshal(encVals([]interface{}(row)))
		res.RowUnchanged = bytes.Equal(before, after2)
	}
	return
}

// lifetime history on a real file: scan -> mutate -> re-read (warm cache, fresh handle) -> close -> overwrite
func doLife(r scanReq) (res scanRes) {
	res.ID = r.ID
	life := map[string]interface{}{}
	res.Life = life
	defer func() {
		if p := recover(); p != nil {
			res.Panic = fmt.Sprint(p)
		}
	}()
	db, err := sqlittle.Open(r.DB)
	if err != nil {
		res.Err = err.Error()
		return
	}
	read := func(h *sqlittle.DB) (b []byte, s string, keep []byte, err error) {
		err = h.Select(r.Table, func(row sqlittle.Row) {
			var id int64
			var bb []byte
			var ss string
			var kk []byte
			if e := row.Scan(&id, &bb, &ss, &kk); e != nil {
				err = e
				return
			}
			if fmt.Sprint(id) == r.Rowid {
				b, s, keep = bb, ss, kk
			}
		}, "id", r.Col, r.Col, r.Col)
		return
	}
	// everything the table holds, as one string (all rows, all columns, values copied)
	snap := func(h *sqlittle.DB) string {
		cols, err := h.Columns(r.Table)
		if err != nil {
			return "columns: " + err.Error()
		}
		out := ""
		err = h.Select(r.Table, func(row sqlittle.Row) {
			b, _ := json.Marshal(encVals(append([]interface{}{}, row...)))
			out += string(b) + "\n"
		}, cols...)
		if err != nil {
			out += "error: " + err.Error()
		}
		return out
	}
	before := snap(db)
	b1, s1, keep, err := read(db)
	if err != nil {
		res.Err = err.Error()
		return
	}
	// a value scanned earlier must survive later scans into the SAME destination variable
	{
		var dst []byte
		var first, firstCopy []byte
		n := 0
		db.Select(r.Table, func(row sqlittle.Row) {
			var id int64
			if e := row.Scan(&id, &dst); e != nil {
				return
			}
			n++
			if n == 1 {
				first = dst
				firstCopy = append([]byte{}, dst...)
			}
		}, "id", r.Col)
		// also scan something shorter into it: the value obtained last must not be overwritten either
		last := dst
		lastCopy := append([]byte{}, dst...)
		sqlittle.Row{[]byte("zz")}.Scan(&dst)
		life["kept_after_rescan"] = n > 1 && bytes.Equal(first, firstCopy) && bytes.Equal(last, lastCopy)
	}
	orig := append([]byte{}, b1...)
	life["len"] = len(orig)
	// the caller overwrites the bytes it got
	for i := range b1 {
		b1[i] = 'M'
	}
	// ... and everything up to the capacity of the slice it was given (what append would do)
	ext := b1[:cap(b1)]
	for i := len(b1); i < len(ext); i++ {
		ext[i] = 'M'
	}
	ext2 := keep[:cap(keep)]
	for i := len(keep); i < len(ext2); i++ {
		ext2[i] = 'K'
	}
	life["all_rows_after_mutate"] = snap(db) == before && !strings.HasPrefix(before, "columns:") && !strings.Contains(before, "error:")
	b2, _, _, err := read(db) // same handle: warm page cache
	life["reread_same_handle"] = err == nil && bytes.Equal(b2, orig)
	db2, err := sqlittle.Open(r.DB)
	if err == nil {
		b3, _, _, e3 := read(db2)
		life["reread_fresh_handle"] = e3 == nil && bytes.Equal(b3, orig)
		db2.Close()
	}
	life["string_after_mutate"] = s1 == string(orig)
	life["other_slice_after_mutate"] = bytes.Equal(keep, orig)
	db.Close()
	life["after_close"] = s1 == string(orig) && bytes.Equal(keep, orig)
	// the file goes away underneath (overwritten with other bytes, then truncated)
	if data, e := os.ReadFile(r.DB); e == nil {
		for i := range data {
			data[i] = 0xEE
		}
		os.WriteFile(r.DB, data, 0644)
	}
	life["after_overwrite"] = s1 == string(orig) && bytes.Equal(keep, orig)
	_ = reflect.TypeOf(keep)
	return
}

// harness rowscan <in> <out>
func cmdRowScan(args []string) int {
	if len(args) != 2 {
		return 2
	}
	in, err := os.Open(args[0])
	if err != nil {
		fmt.Fprintln(os.Stderr, err)
		return 2
	}
	defer in.Close()
	out, _ := os.Create(args[1])
	w := bufio.NewWriter(out)
	enc := json.NewEncoder(w)
	sc := bufio.NewScanner(in)
	sc.Buffer(make([]byte, 1<<20), 1<<26)
	for sc.Scan() {
		var r scanReq
		if err := json.Unmarshal(sc.Bytes(), &r); err != nil {
			fmt.Fprintln(os.Stderr, err)
			return 2
		}
		if r.Kind == "life" {
			enc.Encode(doLife(r))
		} else {
			enc.Encode(doScan(r))
		}
	}
	w.Flush()
	out.Close()
	return 0
}

func init() { commands["rowscan"] = cmdRowScan }

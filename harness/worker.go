//go:build verif

package main

import (
	"bufio"
	"context"
	"database/sql"
	"encoding/json"
	"errors"
	"fmt"
	"os"
	"time"

	"github.com/alicebob/sqlittle"
	sdb "github.com/alicebob/sqlittle/db"
)

// budgetPager: the real file pager with a page-read budget per operation. A traversal that keeps reading
// (a cycle the code does not notice, a chain it does not bound) runs into the budget: a deterministic "hang".
type budgetPager struct {
	inner    sdb.VerifPager
	reads    int
	bytes    int64
	limit    int
	exceeded bool
}

var errBudget = errors.New("verif: page read budget exceeded")

func (b *budgetPager) Page(n int, pagesize int) ([]byte, error) {
	b.reads++
	b.bytes += int64(pagesize)
	if b.reads > b.limit {
		b.exceeded = true
		return nil, errBudget
	}
	return b.inner.Page(n, pagesize)
}
func (b *budgetPager) Close() error                     { return b.inner.Close() }
func (b *budgetPager) RLock() error                     { return b.inner.RLock() }
func (b *budgetPager) RUnlock() error                   { return b.inner.RUnlock() }
func (b *budgetPager) CheckReservedLock() (bool, error) { return b.inner.CheckReservedLock() }

type workReq struct {
	ID      int                 `json:"id"`
	Image   string              `json:"image"`
	Pages   int                 `json:"pages"`
	Tables  []string            `json:"tables"`
	Indexes [][]string          `json:"indexes"` // [table, index]
	Cols    map[string][]string `json:"cols"`
}

type workOp struct {
	Op      string `json:"op"`
	Outcome string `json:"outcome"` // returned | panic | budget
	Detail  string `json:"detail,omitempty"`
}

type workRes struct {
	ID    int      `json:"id"`
	Image string   `json:"image"`
	Ops   int      `json:"ops"`
	Bad   []workOp `json:"bad"`
	Errs  int      `json:"errs"`
}

func keysOfEveryClass() []interface{} {
	return []interface{}{int64(1), int64(-5), "a", "hello", nil, []byte{0, 1}, 1.5, int64(1 << 40)}
}

func doWork(r workReq) (res workRes) {
	res.ID, res.Image = r.ID, r.Image
	limit := 200*(r.Pages+31) + 2000
	var bp *budgetPager
	run := func(name string, f func() error) {
		res.Ops++
		if bp != nil {
			bp.reads, bp.exceeded = 0, false
		}
		var err error
		func() {
			defer func() {
				if p := recover(); p != nil {
					res.Bad = append(res.Bad, workOp{name, "panic", fmt.Sprint(p)})
				}
			}()
			err = f()
		}()
		if err != nil {
			res.Errs++
		}
		if bp != nil && bp.exceeded {
			res.Bad = append(res.Bad, workOp{name, "budget", fmt.Sprintf("more than %d page reads", limit)})
		}
	}
	var low *sdb.Database
	run("open", func() error {
		p, err := sdb.VerifFilePager(r.Image)
		if err != nil {
			return err
		}
		bp = &budgetPager{inner: p, limit: limit}
		d, err := sdb.VerifOpen(bp, r.Image+"-journal")
		if err != nil {
			p.Close()
			return err
		}
		low = d
		return nil
	})
	if low == nil {
		return
	}
	defer low.Close()
	hl := sqlittle.VerifWrap(low)
	tables := append([]string{}, r.Tables...)
	indexes := append([][]string{}, r.Indexes...)
	run("tables", func() error {
		low.RLock()
		defer low.RUnlock()
		ts, err := low.Tables()
		for i, t := range ts {
			if i < 12 {
				tables = append(tables, t)
			}
		}
		return err
	})
	run("indexes", func() error {
		low.RLock()
		defer low.RUnlock()
		is, err := low.Indexes()
		for i, x := range is {
			if i < 12 && len(r.Tables) > 0 {
				indexes = append(indexes, []string{r.Tables[0], x})
			}
		}
		return err
	})
	run("info", func() error { low.RLock(); defer low.RUnlock(); _, err := low.Info(); return err })
	locked := func(f func() error) func() error {
		return func() error {
			if err := low.RLock(); err != nil {
				return err
			}
			defer low.RUnlock()
			return f()
		}
	}
	nocb := func(sqlittle.Row) {}
	seen := map[string]bool{}
	for _, t := range tables {
		if seen["t:"+t] {
			continue
		}
		seen["t:"+t] = true
		t := t
		cols := r.Cols[t]
		run("schema:"+t, locked(func() error { _, err := low.Schema(t); return err }))
		run("table.def:"+t, locked(func() error {
			tb, err := low.Table(t)
			if err != nil {
				return err
			}
			_, err = tb.Def()
			return err
		}))
		run("table.scan:"+t, locked(func() error {
			tb, err := low.Table(t)
			if err != nil {
				return err
			}
			return tb.Scan(func(int64, sdb.Record) bool { return false })
		}))
		for _, rid := range []int64{1, 7, -1 << 63, 1<<63 - 1, 1000} {
			rid := rid
			run(fmt.Sprintf("table.rowid:%s:%d", t, rid), locked(func() error {
				tb, err := low.Table(t)
				if err != nil {
					return err
				}
				_, err = tb.Rowid(rid)
				return err
			}))
			run(fmt.Sprintf("selectrowid:%s:%d", t, rid), func() error { _, err := hl.SelectRowid(t, rid, cols...); return err })
		}
		run("nonrowid.scan:"+t, locked(func() error {
			ix, err := low.NonRowidTable(t)
			if err != nil {
				return err
			}
			return ix.Scan(func(sdb.Record) bool { return false })
		}))
		run("select:"+t, func() error { return hl.Select(t, nocb, cols...) })
		run("select.rowid:"+t, func() error { return hl.Select(t, nocb, "rowid") })
		run("columns:"+t, func() error { _, err := hl.Columns(t); return err })
		for _, k := range keysOfEveryClass() {
			k := k
			run(fmt.Sprintf("pkselect:%s:%T", t, k), func() error { return hl.PKSelect(t, sqlittle.Key{k}, nocb, cols...) })
		}
		run("pkselect2:"+t, func() error { return hl.PKSelect(t, sqlittle.Key{"a", int64(1)}, nocb, cols...) })
	}
	for _, ti := range indexes {
		t, ix := ti[0], ti[1]
		if seen["i:"+ix] {
			continue
		}
		seen["i:"+ix] = true
		cols := r.Cols[t]
		run("index.def:"+ix, locked(func() error {
			x, err := low.Index(ix)
			if err != nil {
				return err
			}
			_, err = x.Def()
			return err
		}))
		run("index.scan:"+ix, locked(func() error {
			x, err := low.Index(ix)
			if err != nil {
				return err
			}
			return x.Scan(func(sdb.Record) bool { return false })
		}))
		for _, k := range keysOfEveryClass() {
			k := k
			key := sdb.Key{sdb.KeyCol{V: k}}
			run(fmt.Sprintf("index.scanmin:%s:%T", ix, k), locked(func() error {
				x, err := low.Index(ix)
				if err != nil {
					return err
				}
				return x.ScanMin(key, func(sdb.Record) bool { return false })
			}))
			run(fmt.Sprintf("index.scaneq:%s:%T", ix, k), locked(func() error {
				x, err := low.Index(ix)
				if err != nil {
					return err
				}
				return x.ScanEq(key, func(sdb.Record) bool { return false })
			}))
			run(fmt.Sprintf("indexedselecteq:%s:%T", ix, k), func() error { return hl.IndexedSelectEq(t, ix, sqlittle.Key{k}, nocb, cols...) })
		}
		run("index.scanrange:"+ix, locked(func() error {
			x, err := low.Index(ix)
			if err != nil {
				return err
			}
			return x.ScanRange(sdb.Key{sdb.KeyCol{V: int64(0)}}, sdb.Key{sdb.KeyCol{V: "zzz", Desc: true, Collate: "nocase"}}, func(sdb.Record) bool { return false })
		}))
		run("indexedselect:"+ix, func() error { return hl.IndexedSelect(t, ix, nocb, cols...) })
	}
	// the database/sql driver on the same image (its own handle, so no read budget: a wall clock guard instead)
	if len(r.Tables) > 0 {
		run("driver:"+r.Tables[0], func() error {
			db, err := sql.Open("sqlittle", r.Image)
			if err != nil {
				return err
			}
			defer db.Close()
			ctx, cancel := context.WithTimeout(context.Background(), 5*time.Second)
			defer cancel()
			rows, err := db.QueryContext(ctx, "SELECT * FROM "+r.Tables[0])
			if err != nil {
				return err
			}
			defer rows.Close()
			n := 0
			for rows.Next() {
				n++
				if n > 100000 {
					return errBudget
				}
			}
			if ctx.Err() != nil {
				res.Bad = append(res.Bad, workOp{"driver:" + r.Tables[0], "budget", "query still running after 5 s"})
			}
			return rows.Err()
		})
	}
	return
}

// harness worker <in> <out>: one image per input line; a "start" line is written before each image so that a
// crash of the whole process can be attributed
func cmdWorker(args []string) int {
	if len(args) != 2 {
		return 2
	}
	in, err := os.Open(args[0])
	if err != nil {
		fmt.Fprintln(os.Stderr, err)
		return 2
	}
	defer in.Close()
	out, _ := os.OpenFile(args[1], os.O_WRONLY|os.O_CREATE|os.O_APPEND, 0644)
	enc := json.NewEncoder(out)
	sc := bufio.NewScanner(in)
	sc.Buffer(make([]byte, 1<<20), 1<<26)
	for sc.Scan() {
		var r workReq
		if err := json.Unmarshal(sc.Bytes(), &r); err != nil {
			fmt.Fprintln(os.Stderr, err)
			return 2
		}
		enc.Encode(map[string]interface{}{"start": r.ID})
		out.Sync()
		enc.Encode(doWork(r))
	}
	out.Close()
	return 0
}

func init() { commands["worker"] = cmdWorker }

//go:build verif

package main

import (
	"bufio"
	"encoding/json"
	"fmt"
	"os"
	"strconv"
	"strings"
	"syscall"
)

// lockTable reads the kernel's POSIX lock table (/proc/locks) for the inode of file.
// Each entry: [pid, "R"|"W", start, end]
func lockTable(file string) ([][]interface{}, error) {
	st, err := os.Stat(file)
	if err != nil {
		return nil, err
	}
	sys := st.Sys().(*syscall.Stat_t)
	ino := sys.Ino
	data, err := os.ReadFile("/proc/locks")
	if err != nil {
		return nil, err
	}
	var out [][]interface{}
	for _, line := range strings.Split(string(data), "\n") {
		f := strings.Fields(line)
		// 1: POSIX  ADVISORY  READ  1234 fd:00:5678 0 EOF      (a "->" marks blocked waiters)
		if len(f) < 8 || f[1] == "->" || f[1] != "POSIX" {
			continue
		}
		parts := strings.Split(f[5], ":")
		if len(parts) != 3 {
			continue
		}
		n, err := strconv.ParseUint(parts[2], 10, 64)
		if err != nil || n != ino {
			continue
		}
		pid, _ := strconv.Atoi(f[4])
		typ := "R"
		if f[3] == "WRITE" {
			typ = "W"
		}
		start, _ := strconv.ParseInt(f[6], 10, 64)
		end := int64(-1)
		if f[7] != "EOF" {
			end, _ = strconv.ParseInt(f[7], 10, 64)
		}
		out = append(out, []interface{}{pid, typ, start, end})
	}
	return out, nil
}

// ---- agent: a JSON-lines server holding handles in THIS process; operations run in a goroutine that
// stops at every pager / callback event (gate) until the orchestrator says "step".

type agentCmd struct {
	Cmd  string `json:"cmd"`
	H    string `json:"h,omitempty"`
	DB   string `json:"db,omitempty"`
	Op   *opReq `json:"op,omitempty"`
	Gate bool   `json:"gate,omitempty"` // stop at every event
	// GateOn: only stop at these event kinds (e.g. ["L","C"]); empty = all
	GateOn []string `json:"gate_on,omitempty"`
}

type agentHandle struct {
	h       *handle
	db      string
	gateCh  chan event    // op goroutine -> main: reached a gate
	contCh  chan struct{} // main -> op goroutine: continue
	doneCh  chan opRes    // op goroutine -> main: finished
	running bool
	gateOn  map[string]bool
}

func cmdAgent(args []string) int {
	handles := map[string]*agentHandle{}
	in := bufio.NewScanner(os.Stdin)
	in.Buffer(make([]byte, 1<<20), 1<<26)
	out := json.NewEncoder(os.Stdout)
	reply := func(m map[string]interface{}) {
		m["pid"] = os.Getpid()
		out.Encode(m)
	}
	wait := func(ah *agentHandle) map[string]interface{} {
		select {
		case ev := <-ah.gateCh:
			lt, _ := lockTable(ah.db)
			return map[string]interface{}{"state": "gate", "ev": ev, "locks": lt}
		case res := <-ah.doneCh:
			ah.running = false
			lt, _ := lockTable(ah.db)
			return map[string]interface{}{"state": "done", "res": res, "locks": lt}
		}
	}
	for in.Scan() {
		var c agentCmd
		if err := json.Unmarshal(in.Bytes(), &c); err != nil {
			reply(map[string]interface{}{"error": "bad command: " + err.Error()})
			continue
		}
		switch c.Cmd {
		case "ping":
			reply(map[string]interface{}{"ok": true})
		case "open":
			b := &batchReq{DB: c.DB}
			h, err, _ := openHandle(b)
			if err != nil {
				lt, _ := lockTable(c.DB)
				reply(map[string]interface{}{"ok": false, "error": err.Error(), "locks": lt})
				continue
			}
			h.tp.take()
			handles[c.H] = &agentHandle{h: h, db: c.DB}
			lt, _ := lockTable(c.DB)
			reply(map[string]interface{}{"ok": true, "locks": lt})
		case "close":
			ah := handles[c.H]
			if ah == nil || ah.running {
				reply(map[string]interface{}{"error": "no such idle handle"})
				continue
			}
			err := ah.h.db.Close()
			delete(handles, c.H)
			lt, _ := lockTable(ah.db)
			reply(map[string]interface{}{"ok": err == nil, "locks": lt})
		case "locks":
			lt, err := lockTable(c.DB)
			reply(map[string]interface{}{"ok": err == nil, "locks": lt})
		case "start":
			ah := handles[c.H]
			if ah == nil || ah.running {
				reply(map[string]interface{}{"error": "no such idle handle"})
				continue
			}
			ah.gateCh = make(chan event)
			ah.contCh = make(chan struct{})
			ah.doneCh = make(chan opRes, 1)
			ah.gateOn = map[string]bool{}
			for _, k := range c.GateOn {
				ah.gateOn[k] = true
			}
			tp := ah.h.tp
			tp.preLock = nil
			if c.Gate && ah.gateOn["B"] {
				// "B": park the operation before it asks for its lock (once)
				tp.preLock = func() {
					tp.preLock = nil
					ah.gateCh <- event{"B"}
					<-ah.contCh
				}
			}
			if c.Gate {
				tp.gate = func(ev event) {}
				tp.postGate = func(ev event) {
					if len(ah.gateOn) > 0 && !ah.gateOn[fmt.Sprint(ev[0])] {
						return
					}
					ah.gateCh <- ev
					<-ah.contCh
				}
			} else {
				tp.postGate = nil
			}
			op := *c.Op
			ah.running = true
			go func() {
				res := runOp(ah.h, &op)
				tp.postGate = nil
				ah.doneCh <- res
			}()
			reply(wait(ah))
		case "step":
			ah := handles[c.H]
			if ah == nil || !ah.running {
				reply(map[string]interface{}{"error": "handle not at a gate"})
				continue
			}
			ah.contCh <- struct{}{}
			reply(wait(ah))
		case "quit":
			reply(map[string]interface{}{"ok": true})
			return 0
		default:
			reply(map[string]interface{}{"error": "unknown command " + c.Cmd})
		}
	}
	return 0
}

func init() { commands["agent"] = cmdAgent }
